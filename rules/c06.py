"""C06 — remappers answer names and descriptors consistently with the mappings.

R06.1 fallback tables of the trait default methods and of the in-tree implementations
R06.2 construction of the remapper tables: `from` side only in keys, `to` side only in values
R06.3 member lookup order: own table, then super classes in provider order, first answer wins
R06.4 the descriptor scanner `map_desc`
R06.5 who may construct a Namespace<N> (tuple constructor called, used as a function value, `Self(..)`, struct literal)
R06.6 the jar-derived super-class provider
R06.8 completeness of the remapper tables: every entry of the source map that has both names gets an entry
"""
import json
import os
from collections import Counter

from lib import hir as H
from lib import c06_util as U

SPEC = os.path.join(os.path.dirname(os.path.dirname(os.path.abspath(__file__))), "spec", "quill_remapper.json")

CLAIM = {
    "text": "Every default method of quill::remapper::{ARemapper,BRemapper} (11) has exactly the documented fallback form "
            "(map_x = map_x_fail ?? identity-with-mapped-descriptor; array-class method refs keep name and descriptor but map the "
            "class), no implementation in the workspace overrides a default method, and the in-tree implementations' *_fail "
            "methods / super-class providers / first_to_second shortcuts are the documented table look-ups (9). Mappings::remapper_a / remapper_b fill their "
            "tables with keys built only from names[from] and values only from names[to]; member descriptors are translated "
            "with remapper_a(first namespace -> from) on the key side and (first namespace -> to) on the value side (14 positions). "
            "Each of the four tables (remapper_a.classes, remapper_b.classes / fields / methods) is complete: between the creation of the "
            "table and the insert that fills it there is exactly one loop, over every entry of the source map (no filter/skip/take "
            "adaptor), the insert is conditional only on the presence of the element's names in `from` and `to` (if let / let-else / "
            "match arm / is_some / is_none / `?` in a filter_map closure), and nothing but an error leaves the loop early (12 instances). "
            "BRemapperImpl::map_field_fail / map_method_fail look in the owner's own table first, then iterate the provider's "
            "super-class set in its own order, recursing with unchanged name/descriptor and returning at the first answer, "
            "else None; the search must not depend on the own lookup or on the owner having an entry; the stored key TupleKey and "
            "the request TupleReq hash (name, descriptor) identically and are equivalent iff both are equal; Vec<S> returns the first provider's answer; JarSuperProv::remap keeps every provider/class/super class in "
            "order with each name through map_class. map_desc copies every char, replaces exactly the segment "
            "between `L` and the next `;` by map_class of it, refuses `L;` and a missing `;`, and its scanning loop (while let / loop + let-else / "
            "loop + match, decided on path conditions that do not depend on the spelling) is left only when `iter.next()` is None or by an error. Namespace<N> is constructed only in "
            "quill::tree::names and Namespace::new refuses id >= N.",
    "note": "Not decided: grammar-wide correctness of map_desc on all descriptors (it relies on the validity invariant of the "
            "descriptor newtypes, C18), shadowed members, X->Y->X identity. Known findings (2): the super-class search of "
            "map_field_fail / map_method_fail is nested in `if let Some(class) = self.classes.get(owner)`, so an owner or "
            "intermediate super class without a mapping entry ends the search (fixes/proposed/C06-unmapped-owner-super-search.md). "
            "Trusted: rustc HIR/typeck; spec/quill_remapper.json (transcribed from the doc comments).",
    "technique": "static analysis: normal-form term extraction (let/pattern inlining, transparent borrows/`?`/Some/Ok) compared "
                 "with reference terms; provenance separation of insert positions; guard dominance (path conditions) and "
                 "evaluation order of returns in the search functions; path-condition classification (presence-only) and exit "
                 "accounting of the table-filling loops",
}


def run(F, R, tier):
    with open(SPEC) as f:
        spec = json.load(f)
    q = F.crate("quill")
    r06_1(F, q, R, spec)
    found = r06_2(q, R, spec)
    r06_8(R, found)
    r06_3(q, R, spec)
    r06_4(q, R, spec)
    r06_5(q, R, spec)
    r06_6(F, R)
    return ("normal forms of the 11 default methods and 7 implementation methods vs. spec/quill_remapper.json; override scan over "
            "all workspace impls of ARemapper/BRemapper; key/value terms of every insert in remapper_a/remapper_b; "
            "return/loop structure of map_field_fail, map_method_fail and Vec<S>::get_super_classes; scanner structure of map_desc; "
            "loop source, path conditions and early exits of the insert of each remapper table (R06.8)")


# ------------------------------------------------------------------------------------ R06.1
def r06_1(F, q, R, spec):
    rid = "R06.1"
    R.rule(rid, "each default method of ARemapper/BRemapper equals its documented fallback form; implementations provide only the "
                "*_fail methods; the in-tree *_fail implementations are plain table look-ups")
    for d in spec["defaults"]:
        b = q.body("quill::remapper::%s::%s" % (d["trait"], d["fn"]))
        if R.anchor(rid, "default method %s::%s" % (d["trait"], d["fn"]), b):
            U.check_fn_result(R, rid, "default:%s::%s" % (d["trait"], d["fn"]), b, d["params"], d["result"], detail=d["doc"])
    for d in spec["impls"]:
        b = q.fn(d["fn"], impl_ty=d["impl_ty"])
        if R.anchor(rid, "%s::%s" % (d["impl_ty"], d["fn"]), b):
            U.check_fn_result(R, rid, "impl:%s::%s" % (d["impl_ty"].rsplit("::", 1)[-1], d["fn"]), b, d["params"], d["result"],
                              detail=d["doc"])
    # the set of methods without default = the documented required ones; defaults = the ones checked above
    for tpath, req in spec["required_methods"].items():
        t = q.traits.get(tpath)
        if not R.anchor(rid, "trait " + tpath, t):
            continue
        tn = tpath.rsplit("::", 1)[-1]
        got_req = sorted(m["name"] for m in t["methods"] if not m["has_default"])
        R.inst(rid, "required-methods:%s" % tn, got_req == sorted(req), sp=t["sp"], expect=sorted(req), got=got_req)
        got_def = sorted(m["name"] for m in t["methods"] if m["has_default"])
        want_def = sorted(d["fn"] for d in spec["defaults"] if d["trait"] == tn)
        R.inst(rid, "default-methods:%s" % tn, got_def == want_def, sp=t["sp"], expect=want_def, got=got_def,
               detail="a default method without a reference form is not covered")
    # no override of a default method anywhere in the workspace ("Do not implement this yourself")
    n_impls = 0
    for (cname, is_test) in F.available():
        if is_test or cname == "fbr_entries":
            continue
        c = F.crate(cname)
        for im in c.impls:
            req = spec["required_methods"].get(im.get("trait") or "")
            if req is None:
                continue
            n_impls += 1
            items = sorted(i["name"] for i in im["items"] if i.get("kind") == "Fn")
            R.inst(rid, "no-override:%s as %s" % (im["self_ty"].split("<")[0], im["trait"].rsplit("::", 1)[-1]),
                   items == sorted(req), sp=im.get("sp"), expect=sorted(req), got=items,
                   detail="an implementation that overrides a default method bypasses the documented fallback")
    R.floor(rid, 11 + 9 + 4 + 7)


# ------------------------------------------------------------------------------------ R06.2
def _cmp(R, rid, key, exp, act, sp, detail=None):
    R.inst(rid, key, exp == act, sp=sp, expect=U.show(exp), got=U.show(act) if act is not None else None, detail=detail)


def r06_2(q, R, spec):
    rid = "R06.2"
    R.rule(rid, "remapper tables: keys are built from names[from] only, values from names[to] only; member descriptors (stored in "
                "the first namespace) go through remapper_a(0 -> from) on the key side and remapper_a(0 -> to) on the value side")
    found = {}       # table name -> (body, normaliser, table term, spec env, spec entry): input of R06.8
    # ---- remapper_a
    sa = spec["tables"]["remapper_a"]
    b = q.fn("remapper_a")
    if R.anchor(rid, "fn Mappings::remapper_a", b) and R.anchor(rid, "remapper_a parameters", len(b["params"]) == len(sa["params"]), b["sp"]):
        b = U.unqualified(b)
        nz = U.Norm(b, sa["params"], skips_transparent=True)          # who is skipped is decided by R06.8
        env = U.build_env(sa["params"], sa["let"])
        res = U.result_term(nz)
        t = dict(res[2]).get("classes") if res and res[0] == "struct" and res[1] == "ARemapperImpl" else None
        if R.anchor(rid, "remapper_a returns ARemapperImpl { classes: <table> }", t is not None, b["sp"]):
            ents = U.table_entries(R, rid, "remapper_a.classes", b, nz, t)
            found["remapper_a.classes"] = (b, nz, t, env, sa["classes"])
            if ents:
                k, v, sp = ents[0]
                _cmp(R, rid, "remapper_a.classes:key", U.parse(sa["classes"]["key"], env), k, sp, "the key is the class name in the `from` namespace")
                _cmp(R, rid, "remapper_a.classes:value", U.parse(sa["classes"]["value"], env), v, sp, "the value is the class name in the `to` namespace")
    # ---- remapper_b
    sb = spec["tables"]["remapper_b"]
    b = q.fn("remapper_b")
    if R.anchor(rid, "fn Mappings::remapper_b", b) and R.anchor(rid, "remapper_b parameters", len(b["params"]) == len(sb["params"]), b["sp"]):
        b = U.unqualified(b)
        nz = U.Norm(b, sb["params"], skips_transparent=True)          # who is skipped is decided by R06.8
        env = U.build_env(sb["params"], sb["let"])
        res = U.result_term(nz)
        t = None
        if res and res[0] == "struct" and res[1] == "BRemapperImpl":
            rf = dict(res[2])
            t = rf.get("classes")
            _cmp(R, rid, "remapper_b.result:inheritance", U.parse(sb["result.inheritance"], env), rf.get("inheritance"), b["sp"])
        if R.anchor(rid, "remapper_b returns BRemapperImpl { classes: <table>, .. }", t is not None, b["sp"]):
            ents = U.table_entries(R, rid, "remapper_b.classes", b, nz, t)
            found["remapper_b.classes"] = (b, nz, t, env, sb["classes"])
            sub = {}
            if ents:
                k, v, sp = ents[0]
                _cmp(R, rid, "remapper_b.classes:key", U.parse(sb["classes"]["key"], env), k, sp, "the key is the class name in the `from` namespace")
                if R.anchor(rid, "remapper_b class entry is a BRemapperClass literal", v[0] == "struct" and v[1] == "BRemapperClass", sp):
                    vf = dict(v[2])
                    _cmp(R, rid, "remapper_b.classes:value.name", U.parse(sb["classes"]["value.name"], env), vf.get("name"), sp,
                         "the entry's name is the class name in the `to` namespace")
                    for tbl in ("fields", "methods"):
                        if R.anchor(rid, "BRemapperClass.%s present" % tbl, vf.get(tbl) is not None, sp):
                            sub[tbl] = vf[tbl]
            for tbl, tt in sub.items():
                me = U.table_entries(R, rid, "remapper_b.%s" % tbl, b, nz, tt)
                found["remapper_b.%s" % tbl] = (b, nz, tt, env, sb[tbl])
                if not me:
                    continue
                mk_, mv_, msp = me[0]
                for side, t2 in (("key", mk_), ("value", mv_)):
                    if not R.anchor(rid, "remapper_b.%s %s is TupleKey(name, desc)" % (tbl, side),
                                    t2[0] == "ctor" and t2[1] == "TupleKey" and len(t2[2]) == 2, msp):
                        continue
                    _cmp(R, rid, "remapper_b.%s:%s.name" % (tbl, side), U.parse(sb[tbl][side + ".name"], env), t2[2][0], msp,
                         "%s side = `%s` namespace" % (side, "from" if side == "key" else "to"))
                    _cmp(R, rid, "remapper_b.%s:%s.desc" % (tbl, side), U.parse(sb[tbl][side + ".desc"], env), t2[2][1], msp,
                         "descriptor of the first namespace translated into the `%s` namespace" % ("from" if side == "key" else "to"))
    # ---- the member key: stored TupleKey vs requested TupleReq
    mk = spec["member_key"]
    for ty in ("TupleKey", "TupleReq"):
        hb = q.fn("hash", impl_ty="quill::remapper::%s<" % ty)
        if R.anchor(rid, "impl Hash for %s" % ty, hb) and R.anchor(rid, "%s::hash parameters" % ty, len(hb["params"]) == 2, hb["sp"]):
            nz = U.Norm(hb, mk["params"])
            env = U.build_env(mk["params"])
            calls = [c for c in U.calls_named(hb["body"], "hash")]
            seq = [nz.term(H.call_args(c)[0]) for c in calls]
            uncond = all(U.cond_terms(nz, hb["body"], c) == [] and nz.term(H.call_args(c)[1]) == env["other"] for c in calls)
            R.inst(rid, "member-key:hash:%s" % ty, seq == [U.parse(x, env) for x in mk["hash_sequence"]] and uncond, sp=hb["sp"],
                   expect=mk["hash_sequence"], got=[U.show(t) for t in seq],
                   detail="key and request must hash (name, descriptor) identically, otherwise every member lookup misses")
    eb = q.fn("equivalent", impl_ty="quill::remapper::TupleReq<")
    if R.anchor(rid, "impl Equivalent<TupleKey> for TupleReq", eb):
        nz = U.Norm(eb, mk["params"])
        env = U.build_env(mk["params"])
        res = U.result_term(nz)
        ok = False
        got = None
        if res is not None:
            from lib import boolform as B
            atoms = {}
            for name in ("eq_name", "eq_desc"):
                t = U.parse(mk["equivalent"][name], env)
                atoms[U.show(t)] = name
                atoms[U.show(("bin", "==", t[3], t[2]))] = name
            f = _rename(U.to_formula(res, B), atoms)
            ref = _ref_formula(mk["equivalent"]["formula"])
            ok, _ = B.equivalent(f, ref)
            got = B.show(f)
        R.inst(rid, "member-key:equivalent", ok, sp=eb["sp"], expect="eq_name && eq_desc", got=got,
               detail="a request matches a stored key iff both the name and the descriptor are equal (overloads are distinct members)")
    R.floor(rid, 3 + 1 + 3 + 2 * 5 + 3)
    return found


# ------------------------------------------------------------------------------------ R06.3
def r06_3(q, R, spec):
    rid = "R06.3"
    R.rule(rid, "map_field_fail / map_method_fail: own table first, then get_super_classes in the provider's iteration order (no "
                "adaptor between the set and the loop), recursion with unchanged name and descriptor, return at the first answer, "
                "else None; Vec<S>::get_super_classes returns the first provider's answer")
    ss = spec["search"]
    for m in ss["members"]:
        b = q.fn(m["fn"], impl_ty="quill::remapper::BRemapperImpl")
        if not R.anchor(rid, "BRemapperImpl::%s" % m["fn"], b):
            continue
        if not R.anchor(rid, "%s parameters" % m["fn"], len(b["params"]) == len(ss["params"]), b["sp"]):
            continue
        fn = m["fn"]
        nz = U.Norm(b, ss["params"])
        env = U.build_env(ss["params"], ss["let"])
        sub = lambda x: x.replace("{table}", m["table"]).replace("{struct}", m["struct"]).replace("{fn}", fn)
        env["own"] = own = U.parse(sub(ss["own_lookup"]), env)
        env["supers"] = supers = U.parse(sub(ss["supers"]), env)
        own_answer = U.parse(sub(ss["own_answer"]), env)
        super_answer = U.parse(sub(ss["super_answer"]), env)
        act = U.result_term(nz)      # the whole decision structure: early returns and the search loop are folded into case / find_map
        sp = b["sp"]
        if not R.anchor(rid, "%s: value of the function understood" % fn, act is not None, sp):
            continue
        shown = U.show(act)
        # first decision
        top_is_own = act[0] == "case" and act[1] == own and set(dict(act[2])) == {"Some", "_"}
        wrapped = act[0] in ("case", "omap") and act[1] == env["entry"]
        R.inst(rid, "%s:own-table-first" % fn, top_is_own, sp=sp, expect="case(%s, Some: <answer>, _: <super-class search>)" % U.show(own), got=shown,
               detail="the own table is consulted (and answers) before any super class")
        arms = dict(act[2]) if act[0] == "case" else {}
        if wrapped and not top_is_own:
            inner = dict(act[2]).get("Some") if act[0] == "case" else act[2]
            if inner and inner[0] == "case" and inner[1] == own:
                arms = dict(inner[2])
        R.inst(rid, "%s:own-answer" % fn, arms.get("Some") == own_answer, sp=sp, expect=U.show(own_answer),
               got=U.show(arms["Some"]) if arms.get("Some") else shown,
               detail="the owner's own entry answers with the to-side name and descriptor of the entry found for (name, desc)")
        rest = arms.get("_")
        R.inst(rid, "%s:supers-searched-when-own-misses" % fn, rest is not None and rest != U.NONE and U.contains(rest, supers), sp=sp,
               got=U.show(rest) if rest else shown)
        R.inst(rid, "%s:supers-searched-when-owner-unmapped" % fn, top_is_own and not wrapped, sp=sp,
               expect="the super-class search does not depend on `self.classes.get(owner)` being Some", got=shown,
               detail="an owner (or an intermediate super class) that has no entry in the mapping set must still pass the "
                      "question on to its super classes; otherwise an inherited, renamed member keeps its old name")
        # the search: omap(supers, find_map(supers, lam(recursion)))
        finds = [t for t in U.subterms(act) if t[0] == "call" and t[1] in ("find_map", "find", "position")]
        R.inst(rid, "%s:single-loop" % fn, len(set(finds)) == 1, sp=sp, got=[U.show(t) for t in set(finds)])
        fm = rest[2] if rest and rest[0] == "omap" and rest[1] == supers else None
        is_fm = bool(fm) and fm[0] == "call" and fm[1] == "find_map" and len(fm[2]) == 2 and fm[2][1][0] == "lam"
        R.inst(rid, "%s:super-order" % fn, is_fm and fm[2][0] == supers, sp=sp, expect=U.show(supers), got=U.show(fm[2][0]) if is_fm else (U.show(rest) if rest else shown),
               detail="the loop iterates the provider's IndexSet itself: declaration order, nothing reversed/sorted/skipped")
        R.inst(rid, "%s:super-answer" % fn, is_fm and fm[2][1][1] == super_answer, sp=sp, expect=U.show(super_answer),
               got=U.show(fm[2][1][1]) if is_fm else (U.show(rest) if rest else shown),
               detail="the recursion asks the super class for the same name and descriptor and its answer is returned unchanged")
        R.inst(rid, "%s:first-answer-wins" % fn, is_fm, sp=sp, expect="omap(%s, find_map(.., ..))" % U.show(supers), got=U.show(rest) if rest else shown,
               detail="the first super class that answers ends the search (early return / find_map), with that answer")
        R.inst(rid, "%s:not-found" % fn, is_fm and U.parse(ss["not_found"], env) == U.NONE, sp=sp,
               detail="when neither the own table nor a super class answers the result is None (no other default appears in the value)")
    # Vec<S>
    vs = ss["vec_provider"]
    b = q.fn("get_super_classes", impl_ty="alloc::vec::Vec")
    if R.anchor(rid, "impl SuperClassProvider for Vec<S>", b) and R.anchor(rid, "Vec<S>::get_super_classes parameters", len(b["params"]) == 2, b["sp"]):
        nz = U.Norm(b, vs["params"])
        env = U.build_env(vs["params"])
        act = U.result_term(nz)
        want = ("call", "find_map", (U.parse(vs["over"], env), ("lam", U.parse(vs["answer"], env))))
        R.inst(rid, "Vec<S>:first-provider-wins", act == want, sp=b["sp"], expect=U.show(want), got=U.show(act) if act else None)
        R.inst(rid, "Vec<S>:not-found", act is not None and act[0] == "call", sp=b["sp"], got=U.show(act) if act else None,
               detail="no default other than None")
    # JarSuperProv::remap
    sp_ = spec["super_prov_remap"]
    b = q.fn("remap", impl_ty="quill::remapper::JarSuperProv")
    if R.anchor(rid, "JarSuperProv::remap", b) and R.anchor(rid, "JarSuperProv::remap parameters", len(b["params"]) == 2, b["sp"]):
        b = U.unqualified(b)             # `IndexSet::insert(&mut set, x)` is `set.insert(x)`
        nz = U.Norm(b, sp_["params"])
        env = U.build_env(sp_["params"], sp_["let"])
        res = U.result_term(nz)
        fors = [nz.term(f["iter"]) for f in H.walk(b["body"]) if f.get("k") == "for"]
        # the iterator-chain spelling: the result is the element-wise image itself
        coll = lambda x: ("call", "collect", (x,))
        l0, l1, l2 = [U.parse(x, env) for x in sp_["loops"]]
        chain_form = coll(("each", l0, ("struct", "JarSuperProv", (("super_classes", coll(("each", l1, ("tuple", (
            U.parse(sp_["map_insert_key"], env), coll(("each", l2, U.parse(sp_["set_insert"], env)))))))),))))
        is_chain = res == chain_form
        ok = is_chain
        set_chain = coll(("each", l2, U.parse(sp_["set_insert"], env)))
        map_chain = coll(("each", l1, ("tuple", (U.parse(sp_["map_insert_key"], env), set_chain))))
        got = [U.show(res)[:300]] if is_chain else []
        if res and res[0] == "local":
            pushes = U.mutations_of(b["body"], res[1])
            if len(pushes) == 1 and pushes[0].get("name") == "push" and U.cond_terms(nz, b["body"], pushes[0]) == []:
                v = nz.term(pushes[0]["args"][0])
                if v[0] == "struct" and v[1] == "JarSuperProv" and dict(v[2]).get("super_classes") == map_chain:
                    # outer level as a loop, the two inner levels as the element-wise image
                    got.append("push(JarSuperProv { super_classes: %s })" % U.show(map_chain)[:200])
                    ok = True
                elif v[0] == "struct" and v[1] == "JarSuperProv" and dict(v[2]).get("super_classes", ("?",))[0] == "local":
                    ml = dict(v[2])["super_classes"][1]
                    mins = U.mutations_of(b["body"], ml)
                    if len(mins) == 1 and mins[0].get("name") == "insert" and U.cond_terms(nz, b["body"], mins[0]) == []:
                        k, sv = nz.term(mins[0]["args"][0]), nz.term(mins[0]["args"][1])
                        got.append("map.insert(%s, %s)" % (U.show(k), U.show(sv)))
                        if sv == set_chain and k == U.parse(sp_["map_insert_key"], env):
                            ok = True          # the innermost level as `supers.iter().map(..).collect()`
                        elif sv[0] == "local" and k == U.parse(sp_["map_insert_key"], env):
                            sins = U.mutations_of(b["body"], sv[1])
                            if len(sins) == 1 and sins[0].get("name") == "insert" and U.cond_terms(nz, b["body"], sins[0]) == []:
                                e = nz.term(sins[0]["args"][0])
                                got.append("set.insert(%s)" % U.show(e))
                                ok = e == U.parse(sp_["set_insert"], env)
        # each level is a `for` loop or the element-wise image (`.iter().map(..).collect()`); the levels spelled as chains were compared above
        want_fors = [l0, l1, l2]
        R.inst(rid, "JarSuperProv::remap:loops", is_chain or (fors == want_fors[:len(fors)] and (len(fors) == 3 or ok)), sp=b["sp"], expect=sp_["loops"],
               got=[U.show(f) for f in fors] or U.show(res)[:200], detail="every provider / class / super class, in the stored order")
        R.inst(rid, "JarSuperProv::remap:names-through-map_class", ok, sp=b["sp"],
               expect=["map.insert(%s, <set>)" % sp_["map_insert_key"], "set.insert(%s)" % sp_["set_insert"]], got=got,
               detail="class and super-class names are both re-expressed; nothing is skipped")
    R.floor(rid, 2 * 9 + 2 + 2)


# ------------------------------------------------------------------------------------ R06.4
def r06_4(q, R, spec):
    rid = "R06.4"
    R.rule(rid, "map_desc: copies every char; exactly the non-empty segment between `L` and the next `;` is replaced by "
                "map_class(segment) + `;`; `L;` and a missing `;` are errors; nothing else is appended")
    sm = spec["map_desc"]
    b = q.fn("map_desc", within="quill::remapper")
    if not R.anchor(rid, "fn remapper::map_desc", b) or not R.anchor(rid, "map_desc parameters", len(b["params"]) == 2, b["sp"]):
        return
    b = U.unqualified(b)                 # `Iterator::next(&mut iter)` / `JavaString::push(&mut s, ..)` read as method calls
    nz0 = U.Norm(b, sm["params"], skips_transparent=True)     # `match iter.next() { Some(x) => x, None => break }` has the value of `iter.next()`; the exits are accounted for below
    env0 = U.build_env(sm["params"])
    want_init = U.parse(sm["iter_init"], env0)
    iters = [lid for lid in nz0.mut if nz0.init_term(lid) == want_init]
    res = U.result_term(nz0)
    if not R.anchor(rid, "map_desc scans `desc.char_indices()` with one mutable iterator", len(iters) == 1, b["sp"]):
        return
    if not R.anchor(rid, "map_desc returns its output buffer (a mutable local)", bool(res) and res[0] == "local", b["sp"]):
        return
    out_id = res[1]
    it_name = nz0.binders[iters[0]][2]
    env = U.build_env(sm["params"], sm["let"], extra={"iter": ("local", iters[0], it_name), "out": res})
    nz = nz0
    root = b["body"]
    order = U.order_index(root)
    muts = U.mutations_of(root, out_id)
    names = Counter(m["name"] if m.get("k") == "mcall" else "<assign>" for m in muts)
    names.pop("len", None)
    ok_m = names == Counter({"push_java": 1, "push_java_str": 1, "push": 1})
    R.inst(rid, "output-writes", ok_m, sp=b["sp"], expect="one push_java (copy), one push_java_str (mapped name), one push (`;`)", got=dict(names))
    if not ok_m:
        R.floor(rid, 7)
        return
    pj = [m for m in muts if m["name"] == "push_java"][0]
    pjs = [m for m in muts if m["name"] == "push_java_str"][0]
    pc = [m for m in muts if m["name"] == "push"][0]
    # the scanning loop: the innermost loop around the copy; it runs while `iter.next()` is Some, whatever the spelling
    # (`while let Some(..) = iter.next()`, `loop { let Some(..) = iter.next() else { break }; .. }`, `loop { let ch = match iter.next() { Some(..) => .., None => break }; .. }`,
    #  `loop { match iter.next() { Some(..) => { .. }, None => break } }`)
    loops = [p for p in (H.parents_of(root, pj) or []) if p.get("k") in ("loop", "for")]
    if not R.anchor(rid, "the copy sits in exactly one hand-written loop (`while let` / `loop`)", len(loops) == 1 and loops[0].get("k") == "loop", b["sp"]):
        R.floor(rid, 7)
        return
    loop = loops[0]
    is_next = ("is", "Some", env["next"])
    outer = U.cond_terms_ex(nz, root, loop)
    accounted = []                              # blocks evaluated when a recognised condition fails: judged with that condition

    def conds_of(node):
        return U.cond_terms_ex(nz, loop, node)

    def loop_cond_ok(cs):
        """first condition: this iteration's `iter.next()` is Some, otherwise the loop is left by `break`"""
        return bool(cs) and cs[0][0] == is_next and len(cs[0][1]) >= 1 and all(U.is_plain(a, "break") for a in cs[0][1])

    c = conds_of(pj)
    accounted += [a for _, alts in c[:1] for a in alts]
    R.inst(rid, "copy-every-char", nz.term(pj["args"][0]) == U.parse(sm["copy_char"], env) and not outer and len(c) == 1 and loop_cond_ok(c), sp=pj["sp"],
           expect=["push_java(" + U.show(env["ch"]) + ")"] + U.show_conds_ex([is_next]) + ["otherwise: break"],
           got=[H.render(pj)] + U.show_conds_ex([x for x, _ in outer + c]) + ["otherwise: " + "; ".join(H.render(a)[:60] for _, alts in c[:1] for a in alts)],
           detail="every char of the descriptor is copied, unconditionally, in a loop that runs while `iter.next()` yields a char")
    seg = [is_next, U.cond("if", U.parse(sm["segment_condition"], env), True), ("is", "Some", U.parse(sm["guard"], env))]
    mapped = U.parse(sm["mapped"], env)
    c = conds_of(pjs)

    def seg_ok(cs):
        # after an `L` only: when the char is not `L` nothing else happens in this iteration (no else branch, or a plain `continue`)
        return [x for x, _ in cs] == seg and loop_cond_ok(cs) and all(U.is_plain(a, "continue") for a in cs[1][1])

    if [x for x, _ in c] == seg:
        accounted += [a for _, alts in c for a in alts]
    R.inst(rid, "segment-condition", not outer and seg_ok(c), sp=pjs["sp"], expect=U.show_conds_ex(seg), got=U.show_conds_ex([x for x, _ in outer + c]),
           detail="the class-name branch is taken exactly after an `L`, with start = position of the next char unless it is `;`, "
                  "end = position of the next `;`, both present")
    R.inst(rid, "segment-replaced-by-map_class", nz.term(pjs["args"][0]) == mapped, sp=pjs["sp"], expect=U.show(mapped),
           got=U.show(nz.term(pjs["args"][0])), detail="the appended name is map_class(&desc[start..end])")
    c2 = conds_of(pc)
    R.inst(rid, "segment-terminator", not outer and seg_ok(c2) and nz.term(pc["args"][0]) == U.parse(sm["terminator"], env)
           and order[id(pjs)] < order[id(pc)] and order[id(pj)] < order[id(pjs)], sp=pc["sp"],
           expect="push(';') right after the mapped name, under the same conditions", got=[H.render(pc)] + U.show_conds_ex([x for x, _ in outer + c2]))
    guard_alts = [alts for x, alts in c if x == seg[2]]
    R.inst(rid, "malformed-is-error", len(guard_alts) == 1 and len(guard_alts[0]) >= 1 and all(H.is_err_exit(a) for a in guard_alts[0]),
           sp=(guard_alts[0][0].get("sp") if guard_alts and guard_alts[0] else b["sp"]),
           got=[H.render(a)[:80] for alts in guard_alts for a in alts],
           detail="`L;` or a missing `;` makes map_desc return Err instead of guessing")
    # nothing else leaves or shortens an iteration: an exit that is not the `break` at the end of the input, the `continue` of a non-`L`
    # char or an error would drop the rest of the descriptor (or of the iteration)
    stray = []
    for x in H.walk(loop["body"], into_closures=False):
        if x.get("k") not in ("ret", "break", "continue") or (x.get("k") == "ret" and H.is_err_exit(x)):
            continue
        inner = [p for p in (H.parents_of(loop["body"], x) or []) if p.get("k") in ("for", "loop")]
        if inner and x.get("k") != "ret" and "label" not in x:
            continue
        if any(any(y is x for y in H.walk(a)) for a in accounted):
            continue
        stray.append(H.render(x)[:60])
    R.inst(rid, "scan-reaches-the-end", not stray, sp=loop.get("sp"), got=stray, expect="the loop is left only at the end of the input or by an error",
           detail="a `break` / `continue` / `return` other than the end-of-input exit, the skip of a non-`L` char and the error exits truncates the output")
    R.inst(rid, "result", res == U.parse(sm["result"], env), sp=b["sp"])
    R.floor(rid, 8)


# ------------------------------------------------------------------------------------ R06.5
def r06_5(q, R, spec):
    rid = "R06.5"
    R.rule(rid, "Namespace<N> values are indices < N: the tuple constructor is used only inside quill::tree::names; Namespace::new "
                "refuses id >= N")
    sn = spec["namespace"]
    adt = q.adts.get("quill::tree::names::Namespace")
    if not R.anchor(rid, "struct quill::tree::names::Namespace", adt):
        return
    vis = adt["variants"][0]["fields"][0].get("vis")
    sites = []
    NS = "quill::tree::names::Namespace"

    def is_ns_ctor(r):
        """resolution record of the tuple constructor: `Namespace` (def Ctor) or `Self` inside an impl of Namespace"""
        if r.get("r") == "selfctor":
            return (r.get("adt") or "").split("<")[0] == NS
        return r.get("dk", "").startswith("Ctor") and r.get("adt") == NS

    for b in q.bodies:
        for n in H.walk(b["body"]):
            # every way to make a Namespace value from an index: the constructor called (`Namespace(i)`, `Self(i)`), the
            # constructor used as a function value (`.map(Namespace)`, `let f = Namespace;`), a struct literal (`Namespace { 0: i }`)
            if (n.get("k") == "call" and is_ns_ctor(n.get("callee") or {})) or \
               (n.get("k") == "path" and is_ns_ctor(n.get("res") or {})) or \
               (n.get("k") == "struct" and (n.get("adt") or "").split("<")[0] == NS):
                sites.append((b, n))
            if n.get("k") in ("assign", "assignop"):
                l = H.peel(n["l"])
                if l.get("k") == "field" and l.get("adt") == "quill::tree::names::Namespace":
                    R.inst(rid, "index-overwritten-in:%s" % b["key"].replace("quill::", "", 1), False, sp=n.get("sp"),
                           detail="assignment to the index of a Namespace bypasses the bound check")
    for b, n in sites:
        fn = b["key"].rsplit("::", 1)[-1]
        R.inst(rid, "constructed-in:%s" % b["key"].replace("quill::", "", 1), b["key"].startswith(sn["module"]), sp=n.get("sp"),
               detail="Namespace(..) built outside tree::names bypasses the range discipline")
    nb = q.fn("new", impl_ty="quill::tree::names::Namespace<")
    if R.anchor(rid, "fn Namespace::new", nb) and R.anchor(rid, "Namespace::new parameters", len(nb["params"]) == 1, nb["sp"]):
        nz = U.Norm(nb, sn["new_params"])
        env = U.build_env(sn["new_params"])
        want = U.parse(sn["new_value"], env)
        act = U.result_term(nz)
        R.inst(rid, "Namespace::new:bound-check", act == want, sp=nb["sp"], expect=U.show(want), got=U.show(act) if act else None,
               detail="id >= N is refused; otherwise Namespace(id)")
    R.inst(rid, "field-not-public", vis != "Public", sp=adt.get("sp"), got=vis,
           detail="the index field must not be writable from outside the crate")
    R.floor(rid, 4)

# ------------------------------------------------------------------------------------ R06.8
TABLES = ("remapper_a.classes", "remapper_b.classes", "remapper_b.fields", "remapper_b.methods")


def r06_8(R, found):
    rid = "R06.8"
    R.rule(rid, "remapper tables are complete: between the creation of a table and the insert that fills it there is exactly one loop, "
                "over every entry of the source map (no adaptor that drops entries); the insert is skipped only when the element has "
                "no name in the `from` or the `to` namespace; the loop is left early only by an error")
    for what in TABLES:
        f = found.get(what)
        if not R.anchor(rid, "%s: table located (R06.2)" % what, f is not None):
            continue
        b, nz, t, env, st = f
        src = U.parse(st["source"], env)
        sources = (src, ("call", "values", (src,)))
        present = [U.parse(x, env) for x in st["present"]]
        if t and t[0] == "local":
            _complete_loop(R, rid, what, b, nz, t[1], sources, present)
        elif t and t[0] == "call" and t[1] in ("collect", "from_iter") and len(t[2]) == 1:
            _complete_chain(R, rid, what, b, nz, t[2][0], sources, present)
        else:
            R.anchor(rid, "%s is a table built by one insert per entry or by collect()" % what, False, b["sp"])
    R.floor(rid, 3 * len(TABLES))


class _Presence:
    """Classifies a condition of the HIR: does it only say "the element's name in `from` / `to` is present"?"""

    def __init__(self, nz, present):
        self.nz = nz
        self.present = present

    def term1(self, t):
        return t in self.present

    def terms(self, t):
        """one of the name slots, or a tuple of them (`(&a[from], &a[to])`, `a[from].as_ref().zip(a[to].as_ref())`)"""
        return self.term1(t) or (t[0] == "tuple" and len(t[1]) > 0 and all(self.terms(x) for x in t[1]))

    def all_some(self, pat):
        key = self.nz._pat_key(pat)[0]
        return key != "" and all(x == "Some" for x in key.replace("(", ",").replace(")", ",").split(",") if x)

    def holds(self, c):
        """c true  =>  nothing but presence"""
        c = H.peel(c, refs=False)
        k = c.get("k")
        if k == "letexpr":
            return self.all_some(c["pat"]) and self.terms(self.nz.term(c["init"]))
        if k == "bin" and c.get("op") == "&&":
            return self.holds(c["l"]) and self.holds(c["r"])
        if k == "un" and c.get("op") == "!":
            return self.fails(c["e"])
        if k == "mcall" and c["name"] == "is_some" and not c["args"]:
            return self.term1(self.nz.term(c["recv"]))
        return False

    def fails(self, c):
        """c false  =>  nothing but presence"""
        c = H.peel(c, refs=False)
        k = c.get("k")
        if k == "letexpr":
            return self.nz._pat_key(c["pat"])[0] == "None" and self.term1(self.nz.term(c["init"]))
        if k == "bin" and c.get("op") == "||":
            return self.fails(c["l"]) and self.fails(c["r"])
        if k == "un" and c.get("op") == "!":
            return self.holds(c["e"])
        if k == "mcall" and c["name"] == "is_none" and not c["args"]:
            return self.term1(self.nz.term(c["recv"]))
        return False

    def cond(self, rec):
        kind, node, extra = rec["kind"], rec["node"], rec["extra"]
        if kind == "if":
            return self.holds(node) if extra else self.fails(node)
        if kind == "letelse":
            return self.all_some(node["pat"]) and self.terms(self.nz.term(node["init"]))
        if kind == "arm":
            arm = node["arms"][extra]
            # first-match semantics: the earlier arms must be disjoint from the all-`Some` arm (each names a `None`)
            earlier = all("guard" not in a and all("None" in alt for alt in self.nz._pat_key(a["pat"])[0].split("|")) for a in node["arms"][:extra])
            return "guard" not in arm and earlier and self.all_some(arm["pat"]) and self.terms(self.nz.term(node["scrut"]))
        return False

    def show(self, rec):
        kind, node, extra = rec["kind"], rec["node"], rec["extra"]
        if kind == "if":
            return ("" if extra else "not ") + H.render(node)[:140]
        if kind == "letelse":
            return "let %s = %s else { .. }" % (H.render_pat(node["pat"]), H.render(node["init"])[:100])
        arm = node["arms"][extra]
        return "match %s { %s%s => .. }" % (H.render(node["scrut"])[:80], H.render_pat(arm["pat"]), " if <guard>" if "guard" in arm else "")


def _below(root, node, stop_chain):
    """ancestors of `node` that are not ancestors of the node whose ancestor chain is `stop_chain`"""
    chain = H.parents_of(root, node) or []
    return [p for p in chain if not any(p is d for d in stop_chain)]


def _exits(R, rid, what, nz, scope, point, conds, loop_like, skip_word):
    """Ways to leave `scope` (a loop body / an element closure) other than by an error.
    -> (ways that end the filling early, ways that skip this element without being a recognised condition), rendered.
    `conds`: the path conditions of `point` (their exit blocks are accounted for: judged as conditions)."""
    order = U.order_index(scope)
    bad, skips = [], []
    for x in H.walk(scope, into_closures=False):
        k = x.get("k")
        if k not in ("ret", "break", "continue"):
            continue
        if k == "ret" and H.is_err_exit(x):
            continue
        inner = [p for p in (H.parents_of(scope, x) or []) if p.get("k") in ("for", "loop")]
        if loop_like:
            if k == "ret":
                bad.append("`%s` leaves the function with an incomplete table" % H.render(x)[:80])
                continue
            if inner and "label" not in x:
                continue                    # break / continue of a nested loop
            if k == "break":
                bad.append("`break` ends the loop before every entry was visited")
                continue
        else:
            if k in ("break", "continue"):
                if inner and "label" not in x:
                    continue
                bad.append("`%s` inside the element closure" % k)
                continue
            # `return ..` inside the element closure = skip (None) or a different entry
        if any(any(y is x for blk in (c["exit"] or []) for y in H.walk(blk)) for c in conds):
            continue                        # `if c { continue }` / `let .. else { continue }`: judged as a condition
        within = any(y is x for y in H.walk(point))          # inside the insert's own operands: evaluated before the insert happens
        if (order.get(id(x), 0) > order.get(id(point), 0) and not within) or U.exclusive_branches(scope, x, point):
            continue                        # after the entry was made, or in a branch the entry is not in
        skips.append("a `%s` before the entry is made that is not the exit of `if c { %s }` / `let .. else { %s }` / `let x = match .. { .. => %s }`"
                     % (skip_word, skip_word, skip_word, skip_word))
    return bad, skips


def _report(R, rid, what, sp, src_ok, src_got, sources, extra, bad):
    R.inst(rid, "%s:every-source-entry-visited" % what, src_ok, sp=sp, expect=" or ".join(U.show(x) for x in sources), got=src_got,
           detail="the table is filled from every entry of the source map: no filter / skip / take / rev between the map and the loop")
    R.inst(rid, "%s:skipped-only-when-a-name-is-missing" % what, not extra, sp=sp, expect="no condition besides the presence of the element's `from` and `to` names",
           got=extra, detail="an element that has a name in both namespaces must get an entry (with its member tables): an entry that is left out "
                             "makes every lookup below it fall back to the unchanged name")
    R.inst(rid, "%s:filled-to-the-end" % what, not bad, sp=sp, got=bad, detail="nothing but an error leaves the loop before the last entry")


def _complete_loop(R, rid, what, b, nz, lid, sources, present):
    root = b["body"]
    ins = [m for m in U.mutations_of(root, lid) if m.get("k") == "mcall" and m["name"] == "insert"]
    decl = [n for n in H.walk(root) if n.get("k") == "let" and any(i == lid for i, _ in H.pat_bindings(n["pat"]))]
    if not R.anchor(rid, "%s: one `let` creates the table and one insert fills it" % what, len(ins) == 1 and len(decl) == 1, b["sp"]):
        return
    point = ins[0]
    dchain = H.parents_of(root, decl[0]) or []
    between = _below(root, point, dchain)
    P = _Presence(nz, present)
    loops = [p for p in between if p.get("k") in ("for", "loop")]
    elemwise = [p for p in between if p.get("k") == "mcall" and p["name"] in ("for_each", "try_for_each") and len(p["args"]) == 1
                and H.peel(p["args"][0]).get("k") == "closure"]
    closures = [p for p in between if p.get("k") == "closure" and not any(H.peel(e["args"][0]) is p for e in elemwise)]
    for c in closures:
        R.unrecognised(rid, what, "the insert sits in a closure that is not the body of for_each / try_for_each", c.get("sp"))
    for l in loops:
        if l.get("k") == "loop":
            R.unrecognised(rid, what, "the insert sits in a `%s` loop (hand-written iteration)" % (l.get("src") or "loop"), l.get("sp"))
    fors = [l for l in loops if l.get("k") == "for"]
    if closures or len(fors) != len(loops):
        return
    if len(fors) + len(elemwise) != 1:
        _report(R, rid, what, point.get("sp"), False, "%d loops between the creation of the table and the insert" % (len(fors) + len(elemwise)), sources, [], [])
        return
    if fors:
        it, scope, loop_like, word = fors[0]["iter"], fors[0]["body"], True, "continue"
    else:
        it, scope, loop_like, word = elemwise[0]["recv"], H.peel(elemwise[0]["args"][0])["body"], False, "return"
    itt = nz.term(it)
    allc = U.path_conditions_ex(root, point)
    # conditions that arise below the block in which the table is created (an `if` / `match` on the way down, or a statement of a block on the way down)
    inner_stmts = [H.peel(st, refs=False) for p in between if p.get("k") == "block" for st in p["stmts"]]
    conds = [c for c in allc if any(c["owner"] is p for p in between) or any(c["owner"] is x for x in inner_stmts)]
    extra = [P.show(c) for c in conds if not P.cond(c)]
    bad, skips = _exits(R, rid, what, nz, scope, point, conds, loop_like, word)
    _report(R, rid, what, point.get("sp"), itt in sources, U.show(itt), sources, extra + skips, bad)


def _complete_chain(R, rid, what, b, nz, chain, sources, present):
    """`<source>.map(|x| (k, v)).collect()` (every element gives an entry) or `<source>.filter_map(|x| { ..; Some((k, v)) }).collect()`
    (the closure decides; `?` on an Option and `return None` are its ways to skip)."""
    root = b["body"]
    sp = b["sp"]
    if chain[0] == "each":
        _report(R, rid, what, sp, chain[1] in sources, U.show(chain[1]), sources, [], [])
        return
    node = None
    if chain[0] == "call" and chain[1] == "filter_map" and len(chain[2]) == 2:
        cands = [n for n in H.walk(root) if n.get("k") == "mcall" and n["name"] == "filter_map" and len(n["args"]) == 1
                 and H.peel(n["args"][0]).get("k") == "closure" and nz.term(n) == chain]
        node = cands[0] if len(cands) == 1 else None
    if node is None:
        R.unrecognised(rid, what, "the table is collected from an iterator chain other than map / filter_map(closure) over the source map: %s" % U.show(chain)[:160], sp)
        return
    clo = H.peel(node["args"][0])
    P = _Presence(nz, present)
    # the entry: the one `Some((k, v))` in value position of the closure
    somes = [n for n in H.walk(clo["body"], into_closures=False)
             if n.get("k") == "call" and (H.ctor_of(n) or (None, None))[1] == "Some" and len(n["args"]) == 1 and H.peel(n["args"][0]).get("k") == "tuple"]
    if len(somes) != 1 or not _value_position(clo["body"], somes[0]):
        R.unrecognised(rid, what, "the filter_map closure does not end in exactly one `Some((key, value))`", clo.get("sp"))
        return
    point = somes[0]
    conds = U.path_conditions_ex(clo["body"], point)
    extra = [P.show(c) for c in conds if not P.cond(c)]
    order = U.order_index(clo["body"])
    for x in H.walk(clo["body"], into_closures=False):
        # `e?` on an Option inside the closure: the element is skipped when e is None
        # (before the entry in evaluation order: an earlier statement, or an operand of the `Some((..))` itself)
        if x.get("k") == "try" and (x["e"].get("ty") or "").startswith("core::option::Option<") \
                and (order[id(x)] < order[id(point)] or any(y is x for y in H.walk(point))) \
                and not U.exclusive_branches(clo["body"], x, point) and not P.term1(nz.term(x["e"])):
            extra.append("%s?" % H.render(x["e"])[:140])
    bad, skips = _exits(R, rid, what, nz, clo["body"], point, conds, False, "return")
    itt = nz.term(node["recv"])
    _report(R, rid, what, point.get("sp"), itt in sources, U.show(itt), sources, extra + skips, bad)


def _value_position(body, node):
    """`node` is what `body` evaluates to on its path: reached through block tails, if branches, match arms only."""
    chain = (H.parents_of(body, node) or []) + [node]
    for p, nxt in zip(chain, chain[1:]):
        k = p.get("k")
        if k == "block" and p.get("tail") is nxt:
            continue
        if k == "if" and (p["then"] is nxt or p.get("else") is nxt):
            continue
        if k == "match" and any(a["body"] is nxt for a in p["arms"]):
            continue
        return False
    return True


def _rename(f, atoms):
    if f[0] == "atom":
        return ("atom", atoms.get(f[1], "?" + f[1]))
    if f[0] == "const":
        return f
    return (f[0],) + tuple(_rename(x, atoms) for x in f[1:])


def _ref_formula(j):
    if isinstance(j, str):
        return ("atom", j)
    if j[0] == "not":
        return ("not", _ref_formula(j[1]))
    out = _ref_formula(j[1])
    for x in j[2:]:
        out = (j[0], out, _ref_formula(x))
    return out


# ------------------------------------------------------------------------------------ R06.6
def r06_6(F, R):
    """The jar-derived super-class provider (dukebox OpenedJar::get_super_classes_provider): the inheritance table the member lookup walks."""
    from lib import hir as H
    rid = "R06.6"
    R.rule(rid, "the super-class provider built from a jar records, for every class and keyed by the class's own name, its super class (if any) "
                "first and then all of its interfaces, unconditionally (independent of version and access flags: interfaces extend interfaces "
                "through the same list), and declines the class body (ControlFlow::Break)")
    db = F.crate("dukebox")
    cands = [b for b in db.bodies if b.get("name") == "visit_class" and "get_super_classes_provider" in b["key"]]
    if not R.anchor(rid, "visit_class of the visitor inside OpenedJar::get_super_classes_provider", len(cands) == 1):
        return
    b = cands[0]
    params = b["params"]
    if not R.anchor(rid, "visit_class has (self, version, access, name, super_class, interfaces)", len(params) == 6, sp=b["sp"]):
        return
    ids = [[i for i, _ in H.pat_bindings(p)] for p in params]
    def mentions(idx):
        return any(H.mentions_local(b["body"], i) for i in ids[idx])
    R.inst(rid, "provider:independent-of-version-and-access", not mentions(1) and not mentions(2), sp=b["sp"],
           got={"version used": mentions(1), "access used": mentions(2)},
           detail="e.g. skipping the interface list of an interface loses interface-extends-interface edges, so a member inherited through two "
                  "interface levels is no longer found")
    inserts = [n for n in H.walk(b["body"]) if n.get("k") == "mcall" and n["name"] == "insert" and H.place_root(n["recv"])[1][-1:] == ["super_classes"]]
    if R.anchor(rid, "single insert into super_classes", len(inserts) == 1, sp=b["sp"]):
        ins = inserts[0]
        key = H.local_of(ins["args"][0])
        R.inst(rid, "provider:keyed-by-own-name", bool(key) and ids[3] and key[0] == ids[3][0], sp=ins["sp"], got=H.render(ins["args"][0]))
        R.inst(rid, "provider:insert-unconditional", H.path_conditions(b["body"], ins) == [], sp=ins["sp"])
    # both sources flow into the recorded set, the super class first
    order = []
    for n in H.walk(b["body"]):
        l = H.local_of(n) if n.get("k") == "path" else None
        if l and ids[4] and l[0] == ids[4][0] and "super" not in order:
            order.append("super")
        if l and ids[5] and l[0] == ids[5][0] and "interfaces" not in order:
            order.append("interfaces")
    R.inst(rid, "provider:super-class-then-interfaces", order == ["super", "interfaces"], sp=b["sp"], got=order,
           detail="declaration order: the super class is searched before the interfaces")
    # the interfaces are consumed unconditionally (a `for` over them / a chain), not under a condition
    uses = [n for n in H.walk(b["body"]) if n.get("k") == "path" and H.local_of(n) and ids[5] and H.local_of(n)[0] == ids[5][0]]
    conds = [H.path_conditions(b["body"], u) for u in uses]
    R.inst(rid, "provider:all-interfaces-recorded", len(uses) == 1 and conds == [[]], sp=b["sp"], got=[[c[0] for c in cs] for cs in conds],
           detail="the interface list is consumed once, outside any condition")
    tail = H.peel(b["body"])
    brk = [n for n in H.walk(b["body"]) if H.ctor_of(n) and H.ctor_of(n)[1] == "Break"]
    R.inst(rid, "provider:declines-class-body", len(brk) == 1, sp=b["sp"], nontrivial=False)
    R.floor(rid, 6)


def thorough(F, R, repo):
    """thorough tier only: rustc's own verdict that Namespace<N> cannot be constructed outside quill (compile-fail witness with twin)."""
    from lib import witness as W
    R.rule("R06.7", "witness compiled by rustc from an external crate: the tuple constructor of quill's Namespace<N> is private (E0603), "
                    "Namespace::new compiles")
    s = W.run(F, R, "R06.7", want_prefix=["quill::"])
    R.floor("R06.7", 1)
    return s
