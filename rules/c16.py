"""C16 — parsers never crash: A1 panic / overflow / allocation / recursion obligations over the monomorphic MIR."""
import re, os

from lib import mir as M
from lib import loops as LP

CLAIM = {
 "text": "For every workspace function instance reachable (monomorphic call-graph walk with resolved trait calls and closures) from the parser entry "
         "points read_class, read_class_multi(()), read_class+write_class, tiny_v2::read<2|3|4>, tiny_v2_diff::read_file, enigma_file::read_into, "
         "Nests::read and the three descriptor parse() functions, decides by forward interval analysis on MIR (value sets for matched bytes and enum "
         "discriminants, comparison refinement, overflow-flag semantics, return summaries through Result/Option/`?`, parameter joins) that each abort site "
         "is unreachable or cannot fire: every Assert terminator (arithmetic overflow, division by zero, array bounds), every call of a panicking std "
         "leaf (explicit panic!/unreachable!/assert!, unwrap/expect, Index::index, split_at, remove, ...), every allocation request (with_capacity, "
         "vec![x; n], reserve) whose size is not bounded by a small constant or by the length of data already held, and every cycle of the instance-level "
         "call graph (unbounded recursion). R16.5 (`loop forever`): every natural loop (70) of the MIR control-flow graph of every reachable function "
         "passes, on every cycle through its head, the success edge of a step that consumes from a finite object created outside the loop: next/next_if* "
         "of a finite std iterator (type built from source and adaptor constructors of a frozen table; Some edge) or a call whose bottom-up summary says "
         "that every successful return has consumed input through the same object (base: Read::read_exact into a fixed non-empty buffer; Ok resp. "
         "Some(Ok) edge, located by following the result through `?`, context, is_some/is_none, match); relative seeks have a proved non-negative "
         "argument, the one absolute seek pair (with_pos) saves and restores the position. Sites that cannot be discharged are violations unless listed by exact key as a recorded finding "
         "(known_findings.json) or as reviewed-safe with a reason (reviewed_safe.json; a reviewed site that moved into another function of the crate - helper, "
         "nested fn, closure - is recognised by its unchanged obligation text, one reviewed entry per moved site and only entries whose own function lost the site). (R16.6) every Err item of BufRead::lines() is propagated (no flatten/filter_map/.ok() on line results: a persistently failing reader would loop forever); integer Iterator::sum/product are overflow leaves. Premises evaluated with it: C02 R02.5/R02.6 (progress of the writer's jump-rewrite loop).",
 "note": "Not decided: termination of loops inside external crates and of the write_code retry loop beyond the reviewed set-growth argument (its two premises "
         "are C02 R02.5/R02.6), stack depth of non-recursive call chains, panics inside external crates other than the frozen "
         "list of panicking std/indexmap leaves, behaviour of const-generic instances other than the first one dumped per function (N only changes array "
         "lengths guarded by the Namespace newtype). A discharged site is a proof under the interval abstraction; an undischarged site is reported, so the "
         "check can be stricter than the property but is never silent about a new abort site. Trusted: rustc MIR (opt-level 0, overflow checks on), "
         "Instance::try_resolve.",
 "technique": "static analysis: interprocedural forward interval/value-set analysis on monomorphic MIR (abstract interpretation), call-graph SCC "
              "detection, frozen panicking-leaf and allocation-sink tables",
}

ENTRY_FLOOR = 12
FN_FLOOR = 800
ASSERT_FLOOR = 100


def short(path):
    return M.fn_key(path)


_KEY_RE = re.compile(r"^((?:[^:]|::)+):(.*)$")


_ARG_RE = re.compile(r"\barg(\d+)\b")


def _site_what(fn, what):
    """`what` of an obligation, independent of whether the enclosing function is a closure or a fn item: MIR gives a closure its
    environment as parameter 1, so the written parameters are arg2.. in a closure and arg1.. in a fn item with the same parameter list."""
    if not fn.endswith("{closure}"):
        return what
    return _ARG_RE.sub(lambda m: "env" if m.group(1) == "1" else "arg%d" % (int(m.group(1)) - 1), what)


class Reviewed:
    """Lookup of reviewed-safe entries.  Exact key first.  If the code of a reviewed site was moved into another function (helper
    extraction / inlining / closure <-> nested fn: the site's `what` - panic message, operand description - is unchanged up to the
    parameter numbering of closures, only the function part of the key is new) the entry is found by its `what`.  Soundness of the
    moved-site lookup: an entry can only be taken if it is *free*, i.e. the function it names has fewer obligations with that `what`
    in this tree than there are reviewed entries for it (keys `fn:what`, `fn:what#2`, ...: the first L of them belong to the L
    obligations that still exist there, the others lost their site); every free entry is handed out at most once, to an obligation
    of the same crate, so n moved sites need n free entries and a duplicated site stays reported."""

    def __init__(self, R, live_whats):
        self.R = R
        self.live = live_whats          # fn -> {what: number of obligations with the key base `fn:what` in this tree}
        self.free = {}                  # (crate, normalised what) -> [reviewed key, ...] entries whose site no longer exists in their function
        self.given = {}                 # obligation key -> reviewed key (stable answer for repeated lookups)
        groups = {}
        for k in R.reviewed:
            m = _KEY_RE.match(k)
            if not m or "::" not in m.group(1):
                continue
            fn, what = m.group(1), m.group(2)
            n = 1
            mm = re.search(r"#(\d+)$", what)
            if mm:
                n, what = int(mm.group(1)), what[:mm.start()]
            groups.setdefault((fn, what), []).append((n, k))
        for (fn, what), es in sorted(groups.items()):
            nlive = self.live.get(fn, {}).get(what, 0)
            for n, k in sorted(es):
                if n > nlive:
                    self.free.setdefault((fn.split("::", 1)[0], _site_what(fn, what)), []).append(k)

    def get(self, key):
        if key in self.R.reviewed:
            return key
        if key in self.given:
            return self.given[key]
        m = _KEY_RE.match(key)
        if not m or "::" not in m.group(1):
            return None
        fn, what = m.group(1), re.sub(r"#\d+$", "", m.group(2))
        pool = self.free.get((fn.split("::", 1)[0], _site_what(fn, what)))
        if not pool:
            return None
        self.given[key] = pool.pop(0)
        return self.given[key]


def block_state(f, bi):
    st = f.in_states[bi]
    if st is None:
        return None
    st = st.copy()
    for s in f.blocks[bi]["s"]:
        if s["k"] == "assign":
            f.assign(st, s)
        elif s["k"] == "setdiscr":
            k = f.resolve(st, s["p"])
            if k is not None:
                f.kill(st, k)
                st.vals[("D",) + k] = M.const(s["v"])
    return st


REPO_PREFIX = ["/repo/"]


def norm_sp(sp):
    return (sp or "").replace(REPO_PREFIX[0], "")


# rules of sibling properties that decide code on this property's own call path: "the class writer handles whatever the reader accepts": the jump-rewrite loop of the writer must make progress (C02 R02.5/R02.6)
PREMISES = [("C02", ["R02.5", "R02.6"])]

def run(F, R, tier):
    mono = F.mono()
    REPO_PREFIX[0] = F.repo.rstrip("/") + "/"
    R.rule("R16.0", "the monomorphic walk covers the parser entry points and resolves every call")
    R.inst("R16.0", "entries", len(mono["entries"]) >= ENTRY_FLOOR, got=[e["name"] for e in mono["entries"]], expect=">= %d harness entries" % ENTRY_FLOOR)
    R.inst("R16.0", "unresolved-calls", len(mono["unresolved"]) == 0, got=mono["unresolved"][:5],
           detail="every call in a reachable instance must resolve to an instance (otherwise reachability is incomplete)")
    P = M.load_program(F)
    R.inst("R16.0", "functions-analysed", len(P.fns) >= FN_FLOOR, got=len(P.fns), expect=">= %d" % FN_FLOOR, nontrivial=False)
    must = ["duke::class_reader::read", "duke::class_reader::read_code", "duke::simple_class_writer::write_code", "quill::tiny_v2::read",
            "quill::tiny_v2_diff::read", "quill::enigma_file::read_into", "duke::tree::descriptor::read_field_type"]
    paths = set(f.path for f in P.fns.values())
    for mname in must:
        R.anchor("R16.0", "reachable fn " + mname, any(p == mname or p.startswith(mname + "::") for p in paths))
    nests = any("Nests" in p and "read" in p for p in paths)
    R.anchor("R16.0", "reachable fn dukenest Nests::read", nests)

    r16_6(F, R)
    R.rule("R16.1", "every Assert terminator (overflow of + - * << >>, negation, division/remainder by zero, array bounds) in a reachable function "
                    "instance is dead or proved not to fire by the interval analysis (or by the wide-counter rule for 64-bit quantities bounded by "
                    "memory/iteration count)")
    R.rule("R16.2", "no reachable call of a panicking leaf: explicit panic!/unreachable!/todo!/assert!, Option/Result::unwrap/expect, Index::index, "
                    "split_at, copy_from_slice, Vec::remove/insert/drain/..., RefCell::borrow*, unless the call site is dead under the value-set analysis "
                    "or its critical argument is a suitable constant (windows/chunks/step_by > 0, radix in 2..=36)")
    R.rule("R16.3", "every allocation request (with_capacity, vec![x; n], reserve, resize) has a size that is at most 2^20 elements or is derived from "
                    "the length of data already in memory; a size that is a parameter is checked at every call site instead")
    R.rule("R16.4", "the instance-level call graph has no cycle (unbounded recursion driven by input) other than recorded findings / reviewed structural "
                    "recursion over an owned tree")
    counts = {"assert": 0, "assert_dead": 0, "assert_interval": 0, "assert_wide": 0, "panic": 0, "panic_dead": 0, "alloc": 0}
    seen_keys = {}

    def ukey(base):
        n = seen_keys.get(base, 0) + 1
        seen_keys[base] = n
        return base if n == 1 else "%s#%d" % (base, n)

    # how many panic / assert obligations exist per (function, what) in this tree (for the moved-site lookup of reviewed entries)
    live_whats = {}
    for f in P.fns.values():
        fn = short(f.path)
        for bi, b in enumerate(f.blocks):
            if b["cleanup"]:
                continue
            t = b["t"]
            if t["k"] == "assert" and not t["ak"].startswith("ptr"):
                w = "%s:%s" % (t["ak"], " ".join(f.stable_describe(o) for o in t["ops"]))
                live_whats.setdefault(fn, {}).setdefault(w, 0)
                live_whats[fn][w] += 1
            elif t["k"] == "call":
                seen_paths = set()          # one obligation per callee path and call site, as in the loop below
                for ce in f.calls.get(bi, []):
                    if ce["key"] in P.fns:
                        continue
                    info = P.callees.get(ce["key"]) or {}
                    path = info.get("path") or ce.get("full") or ce["key"]
                    if path in seen_paths:
                        continue
                    seen_paths.add(path)
                    cls = M.classify_callee(path)
                    if cls and cls[0] in ("panic", "constarg"):
                        w = panic_what(f, t, M.strip_generics(path).rsplit("::", 1)[-1], path)
                        live_whats.setdefault(fn, {}).setdefault(w, 0)
                        live_whats[fn][w] += 1
    RV = Reviewed(R, live_whats)

    # --- per function obligations, in a deterministic order (by span)
    sink_params = {}          # fn key -> set of param indices that reach an allocation sink unchanged
    alloc_sites = []          # (f, bi, callee path, arg operand)
    for f in sorted(P.fns.values(), key=lambda f: f.path):
        fn = short(f.path)
        for bi, b in enumerate(f.blocks):
            if b["cleanup"]:
                continue
            t = b["t"]
            if t["k"] == "assert":
                ak = t["ak"]
                if ak.startswith("ptr"):
                    continue
                counts["assert"] += 1
                descr = " ".join(f.stable_describe(o) for o in t["ops"])
                key = ukey("%s:%s:%s" % (fn, ak, descr))
                st = block_state(f, bi)
                if st is None:
                    counts["assert_dead"] += 1
                    R.inst("R16.1", key, True, sp=norm_sp(t["sp"]), detail="dead under the value-set analysis", nontrivial=False)
                    continue
                vals = [f.operand(st, o)[0] for o in t["ops"]]
                ok, why = check_assert(f, ak, t, vals)
                if not ok:
                    cv = f.operand(st, t["cond"])[0]
                    if cv[0] is not None and cv[0] == cv[1] == (1 if t["expected"] else 0):
                        ok, why = True, "asserted condition is constant under the analysis"
                if ok and why == "wide-counter":
                    counts["assert_wide"] += 1
                elif ok:
                    counts["assert_interval"] += 1
                if not ok:
                    # per call site: the joined parameter values may have lost the correlation between parameters of a helper
                    ctxs = M.contexts_of(P, f)
                    if ctxs:
                        all_ok = True
                        for vec in ctxs:
                            states = M.states_in_context(f, vec)
                            saved_states = f.in_states
                            f.in_states = states
                            try:
                                st2 = block_state(f, bi)
                                if st2 is None:
                                    continue            # the site is dead in this context
                                vals2 = [f.operand(st2, o)[0] for o in t["ops"]]
                                ok2, _w = check_assert(f, ak, t, vals2)
                                if not ok2:
                                    cv2 = f.operand(st2, t["cond"])[0]
                                    ok2 = cv2[0] is not None and cv2[0] == cv2[1] == (1 if t["expected"] else 0)
                            finally:
                                f.in_states = saved_states
                            if not ok2:
                                all_ok = False
                                break
                        if all_ok:
                            ok, why = True, "holds under the parameter values of each of the %d call sites" % len(ctxs)
                            counts["assert_interval"] += 1
                rk = RV.get(key) if not ok else None
                if rk:
                    R.used_reviewed.append({"key": rk, "reason": R.reviewed[rk]["reason"]})
                    ok, why = True, "reviewed-safe: " + R.reviewed[rk]["reason"]
                R.inst("R16.1", key, ok, sp=norm_sp(t["sp"]),
                       detail=("discharged: " + why) if ok else "cannot exclude: %s with operands %s" % (ak, ", ".join(
                           "%s ∈ %s" % (f.describe(o), M.show(v)) for o, v in zip(t["ops"], vals))))
            elif t["k"] == "call":
                seen_paths = set()
                for ce in f.calls.get(bi, []):
                    if ce["key"] in P.fns:
                        continue
                    info = P.callees.get(ce["key"]) or {}
                    path = info.get("path") or ce.get("full") or ce["key"]
                    if path in seen_paths:
                        continue        # the same generic callee, instantiated differently by several instances of this function
                    seen_paths.add(path)
                    cls = M.classify_callee(path)
                    if cls is None:
                        rng = collect_from_range(P, f, bi, ce.get("full") or path)
                        if rng is not None and block_state(f, bi) is not None:
                            rb, ro = rng
                            rst = block_state(f, rb)
                            if rst is not None:
                                alloc_sites.append((f, rb, path, ro, rst))
                        continue
                    name = M.strip_generics(path).rsplit("::", 1)[-1]
                    st = block_state(f, bi)
                    if cls[0] in ("panic", "constarg"):
                        counts["panic"] += 1
                        what = panic_what(f, t, name, path)
                        key = ukey("%s:%s" % (fn, what))
                        if st is None:
                            counts["panic_dead"] += 1
                            R.inst("R16.2", key, True, sp=norm_sp(t["sp"]), detail="dead under the value-set analysis", nontrivial=False)
                            continue
                        ok, why = False, "reachable call of %s" % path
                        if cls[0] == "constarg":
                            lo, hi = M.CONST_ARG_METHODS[name]
                            idx = 1 if len(t["args"]) > 1 else 0
                            v = f.operand(st, t["args"][-1] if name in ("from_str_radix",) else t["args"][idx])[0]
                            if v[0] is not None and v[1] is not None and v[0] >= lo and (hi is None or v[1] <= hi):
                                ok, why = True, "argument %s within the non-panicking range" % M.show(v)
                        rk = RV.get(key) if not ok else None
                        if rk:
                            R.used_reviewed.append({"key": rk, "reason": R.reviewed[rk]["reason"]})
                            ok, why = True, "reviewed-safe: " + R.reviewed[rk]["reason"]
                        R.inst("R16.2", key, ok, sp=norm_sp(t["sp"]), detail=why)
                    elif cls[0] == "alloc":
                        if st is None:
                            continue
                        ai = cls[1]
                        if ai < len(t["args"]):
                            alloc_sites.append((f, bi, path, t["args"][ai], st))

    # --- allocation sinks: local discharge or transfer to the call sites of the enclosing function
    def param_of(f, st, o):
        """index of the parameter whose value the operand carries unchanged, else None."""
        p = o.get("cp") or o.get("mv")
        if p is None:
            return None
        k = f.resolve(st, p)
        for _ in range(6):
            if k is None:
                return None
            if len(k) == 1 and 1 <= k[0] <= f.argc:
                return k[0] - 1
            k = st.eqs.get(k)
        return None

    pending = []          # (fn key, param idx)
    for f, bi, path, o, st in alloc_sites:
        counts["alloc"] += 1
        v = f.operand(st, o)[0]
        fn = short(f.path)
        name = M.strip_generics(path).rsplit("::", 1)[-1]
        pi = param_of(f, st, o)
        key = ukey("%s:alloc:%s(%s)" % (fn, name, f.stable_describe(o)))
        if small_or_phys(v):
            R.inst("R16.3", key, True, sp=norm_sp(f.blocks[bi]["t"]["sp"]), detail="size %s" % M.show(v))
        elif pi is not None and not f.is_closure:
            sink_params.setdefault(f.key, set()).add(pi)
            pending.append((f.key, pi))
            R.inst("R16.3", key, True, sp=norm_sp(f.blocks[bi]["t"]["sp"]), detail="size is parameter #%d: checked at every call site" % pi, nontrivial=False)
        else:
            ok = False
            why = "allocation of %s elements (%s) is not bounded by a small constant or by data already held" % (M.show(v), f.describe(o))
            big = size_sources(P, f, o)
            if big:
                why += "; the size is returned by: " + ", ".join(big)
            if key in R.reviewed:
                R.used_reviewed.append({"key": key, "reason": R.reviewed[key]["reason"]})
                ok, why = True, "reviewed-safe: " + R.reviewed[key]["reason"]
            R.inst("R16.3", key, ok, sp=norm_sp(f.blocks[bi]["t"]["sp"]), detail=why)
    done = set()
    while pending:
        ck, pi = pending.pop()
        if (ck, pi) in done:
            continue
        done.add((ck, pi))
        callee = P.fns[ck]
        for f in sorted(P.fns.values(), key=lambda f: f.path):
            for bi, cs in sorted(f.calls.items()):
                if not any(c["key"] == ck for c in cs) or f.blocks[bi]["cleanup"]:
                    continue
                st = block_state(f, bi)
                if st is None:
                    continue
                t = f.blocks[bi]["t"]
                if pi >= len(t["args"]):
                    continue
                o = t["args"][pi]
                v = f.operand(st, o)[0]
                key = ukey("%s:alloc-arg:%s(%s)" % (short(f.path), callee.path.rsplit("::", 1)[-1], f.stable_describe(o)))
                counts["alloc"] += 1
                if small_or_phys(v):
                    R.inst("R16.3", key, True, sp=norm_sp(t["sp"]), detail="size %s" % M.show(v))
                    continue
                p2 = param_of(f, st, o)
                if p2 is not None and not f.is_closure:
                    pending.append((f.key, p2))
                    R.inst("R16.3", key, True, sp=norm_sp(t["sp"]), detail="size is parameter #%d of the caller: checked at its call sites" % p2, nontrivial=False)
                    continue
                ok = False
                why = "allocation size %s passed to %s (%s) is read from the input without a bound" % (M.show(v), callee.path, f.describe(o))
                if key in R.reviewed:
                    R.used_reviewed.append({"key": key, "reason": R.reviewed[key]["reason"]})
                    ok, why = True, "reviewed-safe: " + R.reviewed[key]["reason"]
                R.inst("R16.3", key, ok, sp=norm_sp(t["sp"]), detail=why)

    # --- recursion
    A = LP.Analysis(P, mono)
    R.rule("R16.7", "a recursion that is bounded only by a depth counter does not multiply: if a call that stays on the cycle sits inside a loop "
                    "of its caller (fan-out per level), every function entered that way consumes at least one unit of input on every successful "
                    "return (so the number of invocations is bounded by the input size); otherwise time and memory grow as fan-out^depth, "
                    "unrelated to the size of the input")
    nodes = {n["i"]: n for n in mono["inst_nodes"]}
    g = {i: set() for i in nodes}
    for a, b in mono["inst_edges"]:
        if a in g and b in g:
            g[a].add(b)
    sccs = tarjan(g)
    keypath = {f.key: f.path for f in P.fns.values()}
    cyc = set()
    comp_of = {}
    for comp in sccs:
        if len(comp) > 1 or comp[0] in g[comp[0]]:
            # closures are folded into the function they are written in: turning a loop into `iter().map(|x| ..)` does not change
            # which functions recurse, and must not rename the cycle
            members = tuple(sorted(set(re.sub(r"(::\{closure\})+$", "", short(keypath.get(nodes[x]["key"], nodes[x]["key"]))) for x in comp)))
            cyc.add(members)
            comp_of.setdefault(members, []).extend(comp)
    for members in sorted(cyc):
        key = "cycle:" + " <-> ".join(sorted(m.split("::", 1)[1] if "::" in m else m for m in members))
        ok = False
        why = "recursive cycle in the instance graph: %s" % ", ".join(members)
        member_keys = sorted(set(nodes[x]["key"] for x in comp_of[members]))
        bounded = bounded_cycle(P, member_keys)
        if bounded[0]:
            ok, why = True, "bounded recursion: " + bounded[1]
            amplification(R, P, A, key, member_keys)
        elif key in R.reviewed:
            R.used_reviewed.append({"key": key, "reason": R.reviewed[key]["reason"]})
            ok, why = True, "reviewed-safe: " + R.reviewed[key]["reason"]
        R.inst("R16.4", key, ok, detail=why)
    R.inst("R16.4", "instance-graph", len(nodes) >= 1000, got=len(nodes), expect=">= 1000 workspace instances", nontrivial=False)

    # --- R16.5 loop progress
    r16_5(F, R, P, mono, A)

    R.floor("R16.1", ASSERT_FLOOR)
    R.floor("R16.2", 8)
    R.floor("R16.3", 10)
    R.extra["a1"] = dict(counts, functions=len(P.fns), instances=mono["n_instances"], entries=[e["name"] for e in mono["entries"]],
                         recursion_cycles=len(cyc))
    R.assume("external crates (std, indexmap, java_string, anyhow) do not panic outside the frozen panicking-leaf list")
    R.assume("std iterators over in-memory data, Lines/Bytes over the given finite input and Read::read_exact on a non-empty buffer consume a finite "
             "resource; loops inside external crates terminate when the closures they are given return")
    return ("A1: interval/value-set abstract interpretation of the MIR of %d reachable workspace functions (%d instances) from %d entry points; "
            "%d Assert obligations (%d dead, %d by intervals, %d by the wide-counter rule), %d panicking-leaf call sites (%d dead), %d allocation "
            "obligations, %d recursion cycles" % (len(P.fns), mono["n_instances"], len(mono["entries"]), counts["assert"], counts["assert_dead"],
                                                  counts["assert_interval"], counts["assert_wide"], counts["panic"], counts["panic_dead"],
                                                  counts["alloc"], len(cyc)))



LOOP_FLOOR = 60


UINT_REF = re.compile(r"^&mut (u8|u16|u32|u64|usize)$")


def _budget_params(f):
    return [i for i in range(1, f.argc + 1) if UINT_REF.match(f.local_ty(i) or "")]


def _passes_budget(f, bi, k):
    """index of the argument of the call in block bi that is (a reborrow of) the `&mut uN` parameter local k of f, else None"""
    t = f.blocks[bi]["t"]
    reborrows = set()
    for b in f.blocks:
        if b["cleanup"]:
            continue
        for st in b["s"]:
            if st["k"] == "assign" and len(st["p"]) == 1 and st["rv"]["k"] == "ref" and st["rv"].get("mut") and st["rv"]["p"] == [k, "*"]:
                reborrows.add(st["p"][0])
            if st["k"] == "assign" and len(st["p"]) == 1 and st["rv"]["k"] == "use" and (st["rv"]["a"].get("mv") == [k] or st["rv"]["a"].get("cp") == [k]):
                reborrows.add(st["p"][0])
    for ai, a in enumerate(t.get("args", [])):
        p = a.get("mv") or a.get("cp")
        if p and len(p) == 1 and (p[0] == k or p[0] in reborrows):
            return ai
    return None


def _decrement_sites(P, A, f, k):
    """blocks of f whose terminator is `checked_sub(*param_k, c)` with c >= 1, and the blocks that store into *param_k"""
    subs, stores = [], []
    for bi, b in enumerate(f.blocks):
        if b["cleanup"]:
            continue
        for st in b["s"]:
            if st["k"] == "assign" and st["p"] == [k, "*"]:
                stores.append(bi)
        t = b["t"]
        if t["k"] == "call" and "checked_sub" in (t.get("fty") or "") and len(t.get("args", [])) == 2:
            a0, a1 = t["args"]
            src = a0.get("mv") or a0.get("cp")
            from_budget = False
            if src and len(src) == 1:
                for st in b["s"]:
                    if st["k"] == "assign" and st["p"] == src and st["rv"]["k"] == "use" and (st["rv"]["a"].get("cp") == [k, "*"] or st["rv"]["a"].get("mv") == [k, "*"]):
                        from_budget = True
            c = (a1.get("c") or {}).get("v")
            if from_budget and isinstance(c, int) and c >= 1:
                subs.append(bi)
    return subs, stores


def budget_discharge(P, A, f, bi, gk, members):
    """(ii) of R16.7: the in-loop recursive call is paid for from a budget: f has a `&mut uN` parameter whose pointee is decremented by a
    checked_sub (Err on underflow) in a block that dominates the call, the same reference is handed to the callee, every function on the
    cycle passes it on and writes it only that way, and the functions that enter the cycle initialise it with a constant."""
    g = P.fns.get(gk)
    if g is None:
        return False, "callee not analysed"
    dom = A.graph(f).dominators()
    for k in _budget_params(f):
        ai = _passes_budget(f, bi, k)
        if ai is None or ai + 1 not in _budget_params(g):
            continue
        subs, stores = _decrement_sites(P, A, f, k)
        dsubs = [c for c in subs if c in dom.get(bi, set())]
        dstores = [s for s in stores if s in dom.get(bi, set()) and any(c in dom.get(s, set()) for c in dsubs)]
        if not dsubs or not dstores:
            continue
        # the reference travels round the cycle unchanged and is written only by decrement stores
        ok = True
        pos = {f.key: k}
        work = [(g, ai + 1)]
        seen = set()
        while work and ok:
            h, hk = work.pop()
            if (h.key, hk) in seen:
                continue
            seen.add((h.key, hk))
            hsubs, hstores = _decrement_sites(P, A, h, hk)
            hdom = A.graph(h).dominators()
            for sblk in hstores:
                if not any(c in hdom.get(sblk, set()) for c in hsubs):
                    ok = False
            for hbi, cs in sorted(h.calls.items()):
                if h.blocks[hbi]["cleanup"]:
                    continue
                for ce in cs:
                    if ce["key"] in members:
                        nxt = P.fns.get(ce["key"])
                        na = _passes_budget(h, hbi, hk)
                        if nxt is None or na is None or na + 1 not in _budget_params(nxt):
                            ok = False
                        else:
                            work.append((nxt, na + 1))
        if not ok:
            continue
        # entries: a function outside the cycle hands in `&mut <local initialised with a constant>`
        inits = []
        for e in P.fns.values():
            if e.key in members:
                continue
            for ebi, cs in sorted(e.calls.items()):
                if e.blocks[ebi]["cleanup"]:
                    continue
                for ce in cs:
                    if ce["key"] in members:
                        tgt = P.fns.get(ce["key"])
                        bps = _budget_params(tgt) if tgt else []
                        t = e.blocks[ebi]["t"]
                        for bp in bps:
                            if bp - 1 >= len(t["args"]):
                                continue
                            a = t["args"][bp - 1]
                            src = a.get("mv") or a.get("cp")
                            val = None
                            if src and len(src) == 1:
                                target = None
                                cur = src[0]
                                for _ in range(6):           # `&mut *(&mut local)`: follow the reborrows down to the local
                                    nxt = None
                                    for b2 in e.blocks:
                                        for st in b2["s"]:
                                            if st["k"] == "assign" and st["p"] == [cur] and st["rv"]["k"] == "ref":
                                                rp = st["rv"]["p"]
                                                if len(rp) == 1:
                                                    target = rp[0]
                                                elif len(rp) == 2 and rp[1] == "*":
                                                    nxt = rp[0]
                                    if target is not None or nxt is None:
                                        break
                                    cur = nxt
                                if target is None and e.is_closure:
                                    # the call sits in a closure (`.map(|&a| pool.get_loadable_nested(a, .., &mut budget))`): the budget is a
                                    # captured variable - upvar k of the closure = operand k of the closure aggregate in the parent function
                                    upk = None
                                    for b2 in e.blocks:
                                        for st in b2["s"]:
                                            if st["k"] == "assign" and st["p"] == [cur] and st["rv"]["k"] in ("ref", "use", "copy_for_deref"):
                                                rv = st["rv"]
                                                rp = rv.get("p") or (rv.get("a") or {}).get("cp") or (rv.get("a") or {}).get("mv") or []
                                                if rp and rp[0] == 1:
                                                    fk = [x["f"] for x in rp if isinstance(x, dict) and "f" in x]
                                                    if len(fk) == 1:
                                                        upk = fk[0]
                                    parent_key = re.sub(r"::\{closure#\d+\}$", "", e.key)
                                    par = P.fns.get(parent_key)
                                    if upk is not None and par is not None:
                                        src_local = None
                                        for b2 in par.blocks:
                                            for st in b2["s"]:
                                                if st["k"] == "assign" and st["rv"]["k"] == "agg" and st["rv"].get("closure") == e.key:
                                                    ops = st["rv"].get("ops") or st["rv"].get("fields") or []
                                                    if upk < len(ops):
                                                        o2 = ops[upk]
                                                        p2 = o2.get("mv") or o2.get("cp")
                                                        if p2 and len(p2) == 1:
                                                            src_local = p2[0]
                                        cur2 = src_local
                                        for _ in range(6):
                                            if cur2 is None:
                                                break
                                            nxt2, tgt2 = None, None
                                            for b2 in par.blocks:
                                                for st in b2["s"]:
                                                    if st["k"] == "assign" and st["p"] == [cur2] and st["rv"]["k"] == "ref":
                                                        rp = st["rv"]["p"]
                                                        if len(rp) == 1:
                                                            tgt2 = rp[0]
                                                        elif len(rp) == 2 and rp[1] == "*":
                                                            nxt2 = rp[0]
                                            if tgt2 is not None:
                                                vals = []
                                                for b2 in par.blocks:
                                                    for st in b2["s"]:
                                                        if st["k"] == "assign" and st["p"] == [tgt2]:
                                                            c = st["rv"]["a"].get("c") if st["rv"]["k"] == "use" else None
                                                            vals.append(c.get("v") if c and isinstance(c.get("v"), int) else None)
                                                if vals and all(v is not None for v in vals):
                                                    val = max(vals)
                                                break
                                            cur2 = nxt2
                                if target is not None:
                                    vals = []
                                    for b2 in e.blocks:
                                        for st in b2["s"]:
                                            if st["k"] == "assign" and st["p"] == [target]:
                                                c = st["rv"]["a"].get("c") if st["rv"]["k"] == "use" else None
                                                vals.append(c.get("v") if c and isinstance(c.get("v"), int) else None)
                                    if vals and all(v is not None for v in vals):
                                        val = max(vals)
                            inits.append((short(e.path), val))
        if not inits or any(v is None or v > 2 ** 24 for _, v in inits):
            continue
        return True, "paid from a budget: %s decrements *%s by checked_sub before the call, the reference is passed round the cycle, initial value %s" % (
            short(f.path), f.names.get(k, "arg%d" % k) if hasattr(f, "names") else "arg%d" % k, sorted(set(v for _, v in inits)))
    return False, "no budget parameter"


def amplification(R, P, A, cycle_key, member_keys):
    members = set(member_keys)
    fan = []
    for k in sorted(members):
        f = P.fns.get(k)
        if f is None:
            continue
        g = A.graph(f)
        in_loop = set()
        for h, body in g.loops().items():
            in_loop |= set(body)
        for bi, cs in sorted(f.calls.items()):
            if f.blocks[bi]["cleanup"] or bi not in in_loop:
                continue
            for ce in cs:
                if ce["key"] in members:
                    fan.append((f, bi, ce["key"]))
    key = "amplify:" + cycle_key.split(":", 1)[1]
    if not fan:
        R.inst("R16.7", key, True, detail="no call that stays on the cycle sits inside a loop (fan-out 1 per level)", nontrivial=False)
        return
    # every function on the cycle that is entered from inside a loop - or any function every trip round the cycle must pass - consumes input
    bad = []
    paid = []
    for f, bi, gk in fan:
        g = P.fns.get(gk)
        consuming = [k for k in members if A.consumes.get(k)]
        # a trip round the cycle from g back to f: it is enough that the callee itself consumes (each invocation = one unit of input)
        if not A.consumes.get(gk):
            okb, whyb = budget_discharge(P, A, f, bi, gk, members)
            if okb:
                paid.append(whyb)
                continue
            bad.append("%s calls %s inside a loop; %s does not consume input on every successful return" % (
                short(f.path), short(g.path) if g else gk, short(g.path) if g else gk))
    ok = not bad
    why = ("every in-loop recursive call enters a function that consumes input" + ((" or is " + "; ".join(sorted(set(paid)))) if paid else "")) \
        if ok else "; ".join(sorted(set(bad)))
    if not ok and key in R.reviewed:
        R.used_reviewed.append({"key": key, "reason": R.reviewed[key]["reason"]})
        ok, why = True, "reviewed-safe: " + R.reviewed[key]["reason"]
    sp = norm_sp(fan[0][0].blocks[fan[0][1]]["t"].get("sp"))
    R.inst("R16.7", key, ok, sp=sp, detail=why)


def r16_5(F, R, P, mono, A=None):
    """loop progress: every natural loop of every reachable workspace function consumes a finite resource on every cycle."""
    R.rule("R16.5", "no reachable loop can run forever: in the MIR control-flow graph of every reachable workspace function, every cycle through a "
                    "loop head passes the success edge of a step that consumes from a finite object created outside the loop - `next`/`next_if*` "
                    "of a finite std iterator (Some edge) or a call that, by its bottom-up summary, consumes at least one unit of input on every "
                    "successful return (Ok / Some(Ok) edge; base: Read::read_exact into a non-empty fixed buffer); cursors are only moved forwards "
                    "(relative seeks have a non-negative argument) or restored to a saved mark")
    A = A or LP.Analysis(P, mono)
    n_loops = 0
    n_iter = 0
    for f in sorted(P.fns.values(), key=lambda f: f.path):
        rep = A.loop_report(f)
        if not rep:
            continue
        fn = short(f.path)
        # ordinal of the loop in source order (span of the head block's terminator), stable under edits elsewhere in the function
        rep.sort(key=lambda r: (_sp_key(f.blocks[r[0]]["t"].get("sp")), r[0]))
        for n, (h, body, ok, why, drivers) in enumerate(rep, 1):
            n_loops += 1
            key = "loop:%s#%d" % (fn, n)
            sp = norm_sp(f.blocks[h]["t"].get("sp"))
            if ok:
                if drivers and all(d.startswith("step of finite iterator") for d in drivers):
                    n_iter += 1
                R.inst("R16.5", key, True, sp=sp, detail="driven by: " + "; ".join(drivers[:4]))
                continue
            if key in R.reviewed:
                R.used_reviewed.append({"key": key, "reason": R.reviewed[key]["reason"]})
                R.inst("R16.5", key, True, sp=sp, detail="reviewed-safe: " + R.reviewed[key]["reason"])
                continue
            R.inst("R16.5", key, False, sp=sp, detail="loop without a progress argument in %s: %s" % (f.path, why))
    R.floor("R16.5", LOOP_FLOOR)

    # --- cursor discipline: who moves a cursor other than by reading, and how
    rel, absolute = {}, {}
    for f in sorted(P.fns.values(), key=lambda f: f.path):
        seeks = False
        variants = set()
        for bi, b in enumerate(f.blocks):
            if b["cleanup"]:
                continue
            for st in b["s"]:
                if st["k"] == "assign" and st["rv"]["k"] == "agg" and "SeekFrom" in (st["rv"].get("adt") or ""):
                    variants.add(st["rv"].get("vname"))
            if b["t"]["k"] == "call":
                for key, full, ws in A.callee_infos(f, bi):
                    if not ws and LP.method_name(full) in LP.SEEK_NAMES:
                        seeks = True
        if seeks:
            if variants == {"Current"}:
                rel[f.key] = f
            else:
                absolute[f.key] = f
    repositioning = {}
    for f in sorted(P.fns.values(), key=lambda f: f.path):
        for bi, b in enumerate(f.blocks):
            if b["cleanup"] or b["t"]["k"] != "call":
                continue
            t = b["t"]
            for key, full, ws in A.callee_infos(f, bi):
                if key in rel:
                    st = block_state(f, bi)
                    if st is None:
                        continue
                    v = f.operand(st, t["args"][1])[0] if len(t["args"]) > 1 else (None, None)
                    ok = v[0] is not None and v[0] >= 0
                    R.inst("R16.5", ukey_simple(R, "forward-skip:%s:%s" % (short(f.path), f.stable_describe(t["args"][1]) if len(t["args"]) > 1 else "?")),
                           ok, sp=norm_sp(t["sp"]), detail="relative seek by %s" % M.show(v) if ok else
                           "the cursor may be moved backwards: %s(%s) with %s" % (rel[key].path, f.describe(t["args"][1]) if len(t["args"]) > 1 else "?", M.show(v)),
                           nontrivial=False)
                if key in absolute and f.key not in absolute:
                    repositioning.setdefault(f.key, (f, []))[1].append(bi)
    for k, (f, sites) in sorted(repositioning.items()):
        ok, why = restores_mark(A, f, sites, absolute)
        R.inst("R16.5", "absolute-seek-restored:%s" % short(f.path), ok, sp=norm_sp(f.blocks[sites[0]]["t"]["sp"]), detail=why)
        # a repositioning function is not a progress step, and must not be used inside a loop
    for f in sorted(P.fns.values(), key=lambda f: f.path):
        g = A.graph(f)
        for h, body in sorted(g.loops().items()):
            for bi in sorted(body):
                if f.blocks[bi]["t"]["k"] != "call":
                    continue
                for key, full, ws in A.callee_infos(f, bi):
                    if key in absolute or key in repositioning:
                        k2 = "seek-in-loop:%s:%s" % (short(f.path), LP.method_name(full))
                        ok = k2 in R.reviewed
                        if ok:
                            R.used_reviewed.append({"key": k2, "reason": R.reviewed[k2]["reason"]})
                        R.inst("R16.5", k2, ok, sp=norm_sp(f.blocks[bi]["t"]["sp"]),
                               detail="a loop body repositions the cursor absolutely (%s): progress by reading is not monotone" % full)
    R.inst("R16.5", "seek-primitives", True, got={"relative": sorted(x.path for x in rel.values()), "absolute": sorted(x.path for x in absolute.values()),
                                                  "repositioning": sorted(x[0].path for x in repositioning.values())}, nontrivial=False)
    for k in repositioning:
        A.consumes.pop(k, None)
    R.extra["loops"] = {"loops": n_loops, "iterator_only": n_iter, "summaries": len([k for k, v in A.consumes.items() if v]),
                        "summary_rounds": A.rounds}


def ukey_simple(R, base):
    seen = getattr(R, "_c16_seen", None)
    if seen is None:
        seen = R._c16_seen = {}
    n = seen.get(base, 0) + 1
    seen[base] = n
    return base if n == 1 else "%s#%d" % (base, n)


def _sp_key(sp):
    m = re.search(r":(\d+):(\d+)-", sp or "")
    return (int(m.group(1)), int(m.group(2))) if m else (1 << 30, 0)


def restores_mark(A, f, sites, absolute):
    """the last absolute seek of a repositioning function goes back to a position saved (stream_position) before the first one."""
    g = A.graph(f)
    dom = g.dominators()
    sites = sorted(sites)
    if len(sites) < 2:
        return False, "%s seeks to an absolute position and never returns to the position it started from" % f.path
    last = [b for b in sites if all(b == o or o in dom.get(b, ()) for o in sites)]
    if len(last) != 1:
        return False, "cannot order the absolute seeks of %s" % f.path
    last = last[0]
    first = [b for b in sites if all(b == o or b in dom.get(o, ()) for o in sites)]
    if len(first) != 1:
        return False, "cannot order the absolute seeks of %s" % f.path
    t = f.blocks[last]["t"]
    if len(t["args"]) < 2:
        return False, "absolute seek without a position argument"
    origin = origin_calls(A, f, t["args"][1])
    if origin is None:
        return False, "the position of the last absolute seek in %s is not the result of a call" % f.path
    ob, names = origin
    if not (names & {"stream_position", "position", "marker"}):
        return False, "the last absolute seek in %s goes to the result of %s, not to a saved stream position" % (f.path, sorted(names))
    if ob not in dom.get(first[0], ()):
        return False, "the position restored at the end of %s is not saved before the first seek" % f.path
    # every successful return passes the restoring seek
    fail = A.failure_blocks(f)
    seen, st = set(), [0]
    while st:
        v = st.pop()
        if v in seen or v in fail or v == last:
            continue
        seen.add(v)
        if f.blocks[v]["t"]["k"] == "return":
            return False, "%s can return successfully without restoring the saved position" % f.path
        st.extend(g.succ[v])
    return True, "saves the position (block %d), seeks, and restores it on every successful return" % ob


def origin_calls(A, f, o, depth=0):
    """(block, {callee method names}) of the call whose result an operand carries (through moves, casts, `?`, context)."""
    p = o.get("mv") or o.get("cp")
    seen = set()
    while p is not None and len(seen) < 30:
        l = p[0]
        if l in seen:
            return None
        seen.add(l)
        defs = []
        for bi, b in enumerate(f.blocks):
            if b["cleanup"]:
                continue
            for s in b["s"]:
                if s["k"] == "assign" and s["p"] == [l]:
                    defs.append(("s", bi, s))
            t = b["t"]
            if t["k"] == "call" and t.get("dest") == [l]:
                defs.append(("c", bi, t))
        if len(defs) != 1:
            return None
        kind, bi, d = defs[0]
        if kind == "c":
            names = set(LP.method_name(full) for _, full, _ in A.callee_infos(f, bi))
            if names & {"branch", "context", "with_context", "map_err", "from", "into"}:
                p = (d["args"][0].get("mv") or d["args"][0].get("cp")) if d.get("args") else None
                continue
            return bi, names
        rv = d["rv"]
        if rv["k"] in ("use", "cast") and ("mv" in rv["a"] or "cp" in rv["a"]):
            p = rv["a"].get("mv") or rv["a"].get("cp")
            continue
        return None
    return None


COLLECT_NAMES = ("collect", "from_iter", "extend", "to_vec", "collect_vec")


def collect_from_range(P, f, bi, path):
    """`(a..b).map(f).collect()` (no fallible shunt in between) pre-allocates b-a elements from the iterator's size hint: an allocation
    sink whose size is the end of the range.  -> (block of the Range aggregate, end operand) or None."""
    name = LP.method_name(path)
    if name not in COLLECT_NAMES or "Range" not in path:
        return None
    ty = LP._strip_closures(path)
    if "GenericShunt" in ty or "Result<" in ty.split(" as ")[0] and name == "collect" and "Result<alloc::vec" in ty:
        return None
    t = f.blocks[bi]["t"]
    if not t.get("args"):
        return None
    # the iterator argument is the last one for extend(vec, iter), the first for collect/from_iter
    o = t["args"][-1] if name == "extend" else t["args"][0]
    p = o.get("mv") or o.get("cp")
    seen = set()
    while p is not None and len(seen) < 20:
        l = p[0]
        if l in seen:
            return None
        seen.add(l)
        defs = []
        for b2, b in enumerate(f.blocks):
            if b["cleanup"]:
                continue
            for st in b["s"]:
                if st["k"] == "assign" and st["p"] == [l]:
                    defs.append(("s", b2, st))
            tt = b["t"]
            if tt["k"] == "call" and tt.get("dest") == [l]:
                defs.append(("c", b2, tt))
        if len(defs) != 1:
            return None
        kind, b2, d = defs[0]
        if kind == "c":
            p = (d["args"][0].get("mv") or d["args"][0].get("cp")) if d.get("args") else None
            continue
        rv = d["rv"]
        if rv["k"] == "agg" and "Range" in (rv.get("adt") or ""):
            ops = rv.get("ops") or []
            return (b2, ops[1]) if len(ops) >= 2 else None
        if rv["k"] in ("use", "cast") and ("mv" in rv["a"] or "cp" in rv["a"]):
            p = rv["a"].get("mv") or rv["a"].get("cp")
            continue
        return None
    return None


def size_sources(P, f, o):
    """workspace callees whose return value (an allocation size in the caller) is not small: names the offending producer"""
    p = o.get("cp") or o.get("mv")
    if p is None:
        return []
    if f.defs is None:
        f.build_defs()
    out = []
    seen = set()
    work = [p[0]]
    while work and len(seen) < 20:
        l = work.pop()
        if l in seen:
            continue
        seen.add(l)
        for rv in f.defs.get(l, []):
            if rv["k"] == "call":
                for ce in f.calls.get(rv["bb"], []):
                    f2 = P.fns.get(ce["key"])
                    if f2 is not None and f2.ret:
                        for proj, v in f2.ret.items():
                            if proj and proj[0] != "D" and not small_or_phys(v) and v[1] is not None:
                                out.append("%s -> %s" % (short(f2.path), M.show(v)))
                t = f.blocks[rv["bb"]]["t"]
                for a in t["args"]:
                    q = a.get("cp") or a.get("mv")
                    if q:
                        work.append(q[0])
            else:
                for a in ([rv.get("a"), rv.get("b")] + list(rv.get("ops", []))):
                    if isinstance(a, dict):
                        q = a.get("cp") or a.get("mv")
                        if q:
                            work.append(q[0])
    return sorted(set(out))[:6]


def bounded_cycle(P, keys):
    """Rule (iv): a recursion cycle is bounded if every function on it has an integer `depth` parameter such that every call inside the
    cycle passes <caller's depth> + c with c >= 0 (affine facts of the MIR analysis), every call with c > 0 passes a value whose
    interval has an upper bound below the type maximum (i.e. a comparison against a constant guards it), and the calls with c = 0 alone
    form no cycle.  Then each trip round any cycle increases depth by at least 1 and depth is bounded: finitely many trips."""
    import itertools
    fns = [P.fns.get(k) for k in keys]
    if any(f is None for f in fns) or any(f.is_closure for f in fns):
        return False, "a member is a closure or was not analysed"
    cands = {f.key: [i for i in range(f.argc) if f.local_ty(i + 1) in M.INT] for f in fns}
    if any(not c for c in cands.values()):
        return False, "a member has no integer parameter"
    edges = []
    for f in fns:
        for bi, cs in sorted(f.calls.items()):
            if f.blocks[bi]["cleanup"]:
                continue
            for ce in cs:
                if ce["key"] in cands:
                    edges.append((f, bi, ce["key"]))
    combos = itertools.product(*[[(f.key, i) for i in cands[f.key]] for f in fns])
    for combo in itertools.islice(combos, 200):
        d = dict(combo)
        ok = True
        zero = {k: set() for k in d}
        descr = []
        for (f, bi, gk) in edges:
            st = block_state(f, bi)
            if st is None:
                continue
            t = f.blocks[bi]["t"]
            if d[gk] >= len(t["args"]):
                ok = False
                break
            o = t["args"][d[gk]]
            v, ak = f.operand(st, o)
            af = st.aff.get(ak) if ak is not None else None
            if af is None or af[0] != d[f.key] or af[1] < 0:
                ok = False
                break
            if af[1] == 0:
                zero[f.key].add(gk)
            else:
                ty = P.fns[gk].local_ty(d[gk] + 1)
                if v[1] is None or v[1] >= M.INT[ty][1]:
                    ok = False
                    break
                descr.append("%s -> %s passes depth+%d <= %d" % (short(f.path).split("::")[-1], short(P.fns[gk].path).split("::")[-1], af[1], v[1]))
        if not ok:
            continue
        # zero-weight edges must be acyclic
        color = {}
        def dfs(v):
            color[v] = 1
            for w in zero[v]:
                if color.get(w) == 1 or (color.get(w) is None and dfs(w)):
                    return True
            color[v] = 2
            return False
        if any(color.get(k) is None and dfs(k) for k in zero):
            continue
        if not descr:
            continue
        return True, "; ".join(sorted(set(descr)))
    return False, "no consistent bounded depth parameter"


def small_or_phys(v):
    if v[1] is not None and v[1] <= M.ALLOC_OK and (v[0] is None or v[0] >= 0 or True):
        return True
    return bool(v[3])


def check_assert(f, ak, t, vals):
    if ak.startswith("overflow:"):
        op = ak.split(":", 1)[1]
        if op == "Neg":
            v = vals[0]
            ty = operand_ty(f, t["ops"][0])
            r = M.INT.get(ty)
            if r and v[0] is not None and v[0] > r[0]:
                return True, "operand %s is not the minimum" % M.show(v)
            return False, ""
        a, b = vals
        ty = operand_ty(f, t["ops"][0])
        if op in ("Shl", "Shr"):
            bits = {"u8": 8, "i8": 8, "u16": 16, "i16": 16, "u32": 32, "i32": 32, "u64": 64, "i64": 64, "usize": 64, "isize": 64, "u128": 128, "i128": 128}.get(ty)
            if bits and b[0] is not None and b[1] is not None and 0 <= b[0] and b[1] < bits:
                return True, "shift amount %s < %d" % (M.show(b), bits)
            return False, ""
        ex = M.arith(op, a, b, ty)
        if ty and M.fits(ex, ty):
            return True, "result %s fits %s" % (M.show(ex), ty)
        if ty in M.WIDE and op == "Add":
            if (a[3] and b[3]) or (a[3] and b[1] is not None and b[1] <= M.PHYS_SMALL and (b[0] or 0) >= 0) or \
               (b[3] and a[1] is not None and a[1] <= M.PHYS_SMALL and (a[0] or 0) >= 0):
                return True, "wide-counter"
        return False, ""
    if ak in ("divzero", "remzero"):
        v = vals[0]
        if (v[0] is not None and v[0] > 0) or (v[1] is not None and v[1] < 0) or (v[2] is not None and 0 not in v[2]):
            return True, "divisor %s excludes zero" % M.show(v)
        return False, ""
    if ak == "bounds":
        ln, ix = vals
        if ln[0] is not None and ix[1] is not None and ix[1] < ln[0] and (ix[0] is None or ix[0] >= 0 or True):
            return True, "index %s < length %s" % (M.show(ix), M.show(ln))
        return False, ""
    return False, ""


def operand_ty(f, o):
    if "c" in o:
        return o["c"].get("ty")
    p = o.get("cp") or o.get("mv")
    if p is None:
        return None
    k = M.pkey(p)
    return f.key_ty(k) if k else None


def panic_what(f, t, name, path):
    if path.startswith("core::panicking") or "panic" in name:
        msg = None
        for a in t["args"]:
            if "c" in a and a["c"].get("str"):
                msg = a["c"]["str"]
        mac = [m for m in (t.get("mac") or []) if not m.startswith("desugar")]
        tag = (mac[-1] if mac else "panic")
        if msg:
            msg = re.sub(r"[^A-Za-z0-9 _:!<>=.-]", "", msg)[:40].strip()
            return "%s!(%s)" % (tag, msg)
        return "%s!" % tag
    args = ", ".join(f.stable_describe(a) for a in t["args"][:3])
    return "%s(%s)" % (name, args)


def tarjan(g):
    idx, low, st, on, out = {}, {}, [], set(), []
    c = [0]
    import sys
    sys.setrecursionlimit(100000)

    def sc(v):
        idx[v] = low[v] = c[0]
        c[0] += 1
        st.append(v)
        on.add(v)
        for w in sorted(g[v]):
            if w not in idx:
                sc(w)
                low[v] = min(low[v], low[w])
            elif w in on:
                low[v] = min(low[v], idx[w])
        if low[v] == idx[v]:
            comp = []
            while True:
                w = st.pop()
                on.discard(w)
                comp.append(w)
                if w == v:
                    break
            out.append(comp)
    for v in sorted(g):
        if v not in idx:
            sc(v)
    return out


# ------------------------------------------------------------------------------------ R16.6
IO_RESULT = "core::result::Result<alloc::string::String, std::io::error::Error>"


def r16_6(F, R):
    from lib import hir as H
    """`BufRead::lines()` yields Err again and again for a reader that keeps failing (a directory opened as a file, a broken pipe): an
    adaptor or pattern that discards the Err items instead of propagating the first one never reaches the end of the iterator (seed C16-8;
    the shape clippy calls lines_filter_map_ok).  Decided on the typed HIR: every value of type Result<String, io::Error> that comes out of
    lines() is propagated (`?`, with_context()?, map into a Result) - never `.ok()`, `.flatten()`, `filter_map`, `is_ok`, `unwrap_or*`,
    nor an `if let Ok(..)` without an error exit."""
    rid = "R16.6"
    R.rule(rid, "an I/O error delivered by BufRead::lines() ends the parse with that error: no site drops Err items of the line iterator "
                "(flatten / flat_map / filter_map / filter over the lines, .ok() / is_ok() / unwrap_or*() on a line result, `if let Ok(..)` "
                "without an error exit) - on a reader that fails persistently such a loop never terminates")
    DROP_ADAPTORS = ("flatten", "flat_map", "filter_map", "filter", "skip_while", "map_while", "take_while", "scan")
    DROP_METHODS = ("ok", "is_ok", "is_err", "err", "unwrap_or_default", "unwrap_or", "unwrap_or_else", "map_or", "map_or_else", "iter", "into_iter", "and_then")
    n_sites = 0
    for cn in ("quill", "dukenest", "duke", "dukebox", "feather_build_rs"):
        c = F.crate(cn)
        for b in c.bodies:
            if not isinstance(b.get("body"), dict):
                continue
            sites = [n for n in H.walk(b["body"]) if n.get("k") == "mcall" and n["name"] == "lines"
                     and "BufRead::lines" in ((n.get("callee") or {}).get("path") or "")]
            if not sites:
                continue
            for site in sites:
                n_sites += 1
                bad = []
                chain = H.parents_of(b["body"], site) or []
                # adaptors applied to the line iterator before the first element-wise `map`
                cur = site
                for p in reversed(chain):
                    if p.get("k") == "mcall" and H.peel(p["recv"]) is cur:
                        if p["name"] in ("map", "for_each", "try_for_each", "try_fold", "fold", "collect"):
                            break
                        if p["name"] in DROP_ADAPTORS:
                            bad.append(".%s(..) over the line iterator" % p["name"])
                        cur = p
                    elif p.get("k") in ("ref", "paren", "cast") or H.peel(p) is cur:
                        cur = p
                    else:
                        break
                # uses of a line result that discard the error
                for n in H.walk(b["body"]):
                    if n.get("k") == "mcall" and n["name"] in DROP_METHODS:
                        rt = (H.peel(n["recv"]).get("ty") or "").replace("&", "").replace("mut ", "").strip()
                        if rt == IO_RESULT:
                            bad.append("%s on a line result" % H.render(n)[:60])
                    if n.get("k") == "letexpr" or (n.get("k") == "let" and "els" in n):
                        init = n.get("init")
                        it = (H.peel(init).get("ty") or "").replace("&", "").replace("mut ", "").strip() if isinstance(init, dict) else ""
                        if it == IO_RESULT:
                            els_ok = n.get("k") == "let" and H.is_err_exit(n["els"])
                            if not els_ok:
                                bad.append("pattern `%s` on a line result without an error exit" % H.render_pat(n["pat"])[:40])
                R.inst(rid, "lines:%s" % b["key"], not bad, sp=site.get("sp"), expect="every Err item of lines() is propagated", got=bad,
                       detail="BufRead::lines() repeats the error of a persistently failing reader; dropping it loops forever")
    R.floor(rid, 4)
