"""C12 — Enigma files / directories round trip.

Static necessary conditions: writer/reader agreement on tag, indentation and column->field per row kind (incl. optional
target name), sorted emission (order taint + key totality), pre-order nesting, prefix strip <=> re-attachment, comment
split <=> join, placement of every class in exactly one file, token flow split -> fields without loss (R12.6), directory walk that
lets every mapping file reach the file reader (R12.7).
"""
import json
import os

from lib import hir as H
from lib import c03_util as U
from lib import c12_util as U12
from lib import boolform as B

SPEC = os.path.join(os.path.dirname(os.path.dirname(os.path.abspath(__file__))), "spec", "enigma.json")
EF = "quill::enigma_file::"

CLAIM = {
    "text": "Enigma (quill::enigma_file, enigma_dir): R12.1 tag constants = the literal tags of the write! templates = spec/enigma.json; per "
            "row kind (CLASS, FIELD, METHOD, ARG and the four COMMENT rows) relative indentation, blank separator and, for every arity the "
            "writer can produce, the column->field assignment equal the reader's unguarded slice-pattern arm of that arity (absent target "
            "name <=> None); nested classes one level deeper on both sides; R12.2 write_class sorts fields, methods, parameters with a key "
            "containing the map key; figure_out_files sorts file_map and every child list after filling them; write_all/_for_each walk the "
            "sorted file_map; nested classes are emitted in pre-order (pop_front / push_front of reversed children); the directory is read "
            "with sort_by_file_name; R12.3 inner-name stripping on write <=> `parent$name` re-attachment on read for source and target, "
            "the recursion hands the full names on, `<init>` target suppressed, comment split('\\n') <=> push('\\n') + join(separator), "
            "COMMENT lines exempt from # stripping and trimming, tokeniser white space that is not the join separator; R12.4 every class "
            "goes either under its parent (parent is in the set) or into its own file, the node carries key and value of the same entry, "
            "file names collide => error, file extension equal on both sides; R12.5 no Result discarded, insertion only through add_*; "
            "R12.6 token flow of EnigmaLine::new: the row is cut by one `split(<set>)` (empty pieces kept), only the leading tag is taken "
            "off, every adaptor/consumer between the split and `fields` keeps all pieces unchanged and in order (map(to_owned-like), "
            "collect, ..; filter/dedup/split_whitespace/.. are reported by name), callers pass the row text as read; R12.7 directory "
            "walk: WalkDir rooted at the path argument, only non-restricting walk options, every iterator stage up to the reading loop "
            "accounted for, `not a directory and extension == mapping` implies the entry reaches read_file_into (truth table over "
            "is_dir / extension / opaque atoms, iterator chain or for loop, helper predicates inlined), no directory is read, a "
            "filter_entry predicate holds for all directories and mapping files, the writer sets the extension unconditionally. Also: (R12.1 written-unconditionally) no row of the class writer stands behind a successful early exit (`if <test of the content> { return Ok(()) }`, continue, break), rows under a condition other than `if let Some(..) = <field>` are reported; (R12.2 nesting:every-node-written) the tree walk calls the class writer for every node it takes from the queue, unconditionally; (R12.2) a sort must be executed whenever the loop it feeds is (`len() > 1` apart); (R12.3 comment-join:stored) every COMMENT row the helper accepts is stored, whatever its text; the comment line separator may be an argument of the helper (evaluated per call site).",
    "note": "Not decided: round-trip equality of contents, target names that do not follow the nesting, file-system effects. Known "
            "findings: inner-class prefix stripped for a class written at the top of a file (outer class absent); two classes with the "
            "same file name overwrite each other; tab/VT/FF/CR inside a comment become a blank. Trusted: rustc HIR/typeck/const-eval, "
            "FormatArgs templates, spec/enigma.json, std/indexmap/walkdir semantics of the named calls.",
    "technique": "static analysis: text-layout extraction from write! templates vs. slice-pattern arms (typed place provenance), order "
                 "taint, structural decision tables, guard dominance, sequence-adaptor classification of the tokeniser, boolean "
                 "keep-condition of the directory walk",
}


def run(F, R, tier):
    with open(SPEC) as f:
        spec = json.load(f)
    q = F.crate("quill")
    cx = extract(q, R, spec)
    r12_1(q, R, cx, spec)
    r12_2(q, R, cx, spec)
    r12_3(q, R, cx, spec)
    r12_4(q, R, cx, spec)
    r12_5(q, R, cx)
    r12_6(q, R, spec)
    r12_7(q, R, spec)
    return ("text-layout extraction: write_class's write!/writeln! templates are cut into rows/columns with every hole traced to the "
            "(ADT, field) it prints and every optional column to its condition; read_into/parse_class are abstracted to indentation "
            "levels, tag dispatch over the evaluated constants and, per slice-pattern arm, the column each struct field is taken from; "
            "compared with each other and spec/enigma.json. Plus order taint and sort-key totality, queue discipline of the nesting "
            "walk, prefix strip/re-attach provenance, comment split/join, placement table of figure_out_files. Token flow of the line "
            "tokeniser (which adaptors touch the pieces between split and fields) and the keep-condition of the directory walk as a "
            "boolean formula compared by truth table with `!is_dir && extension == mapping`.")


class Cx:
    pass


# ------------------------------------------------------------------------------------------------ extraction
def extract(q, R, spec):
    R.rule("R12.1", "tags, relative indentation and column->field per row kind and arity agree between write_class's templates, the "
                    "slice-pattern arms of read_into/parse_class and the Enigma layout table; nested classes are one level deeper "
                    "on both sides; `ACC:` modifier arms are read-side only")
    cx = Cx()
    cx.ok = False
    cx.key_eq, cx.key_parts = U.key_equivalences(q)
    cx.leaves, cx.maps, cx.info_of = U.model_tables(q)
    W = U.Writer(q)
    cx.W = W
    roles = resolve_roles(q, W)
    cx.roles = roles
    wc, pc, ri = roles.get("write_class"), roles.get("parse_class"), roles.get("read_into")
    if not (R.anchor("R12.1", "fn enigma_file::read_into", ri)
            and R.anchor("R12.1", "class writer (the writing function called by the tree walk of write_all)", wc)
            and R.anchor("R12.1", "class parser (the function read_into's top level hands CLASS lines to)", pc)):
        return cx
    cx.wc, cx.pc, cx.ri = wc, pc, ri
    sep = spec["separator"]
    # ---- writer rows of the class writer
    wfn = U.Fn(q, wc)
    cx.wfn = wfn
    try:
        rows = U.rows_of(U.flatten_term(W.term(wfn, wfn.root)))
    except U.Unrec as e:
        R.unrecognised("R12.1", "enigma_file::write_class", e.what, e.sp)
        return cx
    cx.wrows = {}
    tags = dict((v, k) for k, v in spec["tags"].items())
    for r in rows:
        d = writer_row(q, cx, r, sep, spec)
        key = d["key"]
        if key in cx.wrows:
            d["problems"].append("second writer row of the same kind")
        cx.wrows.setdefault(key, d)
    # ---- reader rows
    RD = U.Reader(q, line_types=("EnigmaLine",))
    cx.RD = RD
    pfn = RD.mkfn(pc)
    cx.pfn = pfn
    levels, probs = RD.levels(pfn)
    for p in probs:
        R.unrecognised("R12.1", "parse_class", p[2], p[1].get("sp"))
    cx.levels = levels
    cx.rrows = {}
    for lv in levels:
        for pr in lv.problems:
            R.unrecognised("R12.1", "parse_class level %s" % "/".join(lv.path()), pr, lv.closure.get("sp"))
        if lv.depth is None or lv.depth[0] != "rel":
            R.unrecognised("R12.1", "parse_class level %s" % "/".join(lv.path()), "indentation depth not derivable from "
                           "<iterator parameter>.next_level() nesting", lv.call.get("sp"))
            continue
        for tag, body in lv.branches:
            path = ["CLASS"] + lv.path() + [tag]
            cx.rrows["/".join(path)] = reader_row(q, cx, pfn, lv, tag, body, lv.depth[1])
    # the CLASS row itself: the part of parse_class outside the levels, on its line parameter
    lids = [i for p in pc["params"] for (i, nm) in H.pat_bindings(p)
            if U.is_line_ty(pfn.binds[i].ty, ("EnigmaLine",))]
    if not R.anchor("R12.1", "EnigmaLine parameter of parse_class", len(lids) == 1, sp=pc["sp"]):
        return cx
    cx.class_line = lids[0]
    cx.rrows["CLASS"] = reader_row(q, cx, pfn, None, spec["tags"]["class"], pfn.root, 0, line_id=lids[0])
    # ---- top level of read_into
    rfn = RD.mkfn(ri)
    cx.rfn = rfn
    tl, probs = RD.levels(rfn)
    cx.top_levels = tl
    cx.ok = True
    return cx


def resolve_roles(q, W):
    """The private functions of the Enigma module by role, starting from the public entry points (which are anchored by name):
    write_all -> placement function (its result's `file_map` is walked), tree walk (the writing function called in that loop),
    class writer (the writing function the tree walk calls); read_into -> class parser (gets the line of a top-level row)."""
    out = {}
    out["read_into"] = q.fn("read_into", within=EF + "read_into")
    for name in ("write_all", "write_all_for_each", "write_one"):
        out[name] = q.fn(name, within=EF + name)
    wa = out.get("write_all")
    if wa:
        fn = U.Fn(q, wa)
        for n in H.walk(fn.root):
            if n.get("k") == "for":
                ch = fn.trace(n["iter"])
                calls = [h for h in ch.hops if h[0] == "call" and len(h) > 3 and h[3] in q.by_key]
                if calls and [h for h in ch.hops if h[0] == "f"][-1:] and U.is_map_ty(n.get("iter_ty")):
                    out["placement"] = q.by_key[calls[0][3]]
                for x in H.walk(n["body"]):
                    if x.get("k") == "call":
                        key = (x.get("callee") or {}).get("key")
                        if key in q.by_key and W.fn_emits(key):
                            out["tree_walk"] = q.by_key[key]
    tw = out.get("tree_walk")
    if tw:
        keys = set()
        for x in H.walk(tw["body"]):
            if x.get("k") == "call":
                key = (x.get("callee") or {}).get("key")
                if key in q.by_key and key != tw["key"] and W.fn_emits(key):
                    keys.add(key)
        if len(keys) == 1:
            out["write_class"] = q.by_key[list(keys)[0]]
    ri = out.get("read_into")
    if ri:
        RD = U.Reader(q, line_types=("EnigmaLine",))
        rfn = RD.mkfn(ri)
        levels, _ = RD.levels(rfn)
        keys = set()
        for lv in levels:
            if lv.depth == ("abs", 0):
                for tag, body in lv.branches:
                    for kind, n, f in RD.row_ops(rfn, body, lv.line_id):
                        if kind == "helper":
                            keys.add(f.body["key"])
        if len(keys) == 1:
            out["parse_class"] = q.by_key[list(keys)[0]]
    return out


def dir_read_worker(q):
    """enigma_dir::read, or the function of the crate it calls, whichever builds the WalkDir."""
    b = q.fn("read", within="quill::enigma_dir::read")
    seen = 0
    while b is not None and seen < 3:
        if any(x.get("k") == "call" and "WalkDir" in ((x.get("callee") or {}).get("path") or "") for x in H.walk(b["body"])):
            return b
        ks = set((x.get("callee") or {}).get("key") for x in H.walk(b["body"]) if x.get("k") == "call") & set(q.by_key)
        b = q.by_key[list(ks)[0]] if len(ks) == 1 else None
        seen += 1
    return None


def lit_of(chain_root):
    """Literal value of a chain root that is a literal or an (evaluated) constant."""
    if chain_root[0] == "lit":
        return chain_root[1]
    if chain_root[0] == "const":
        return chain_root[2]
    return None


def indent_of_hole(hole):
    """("repeat", literal, count chain) when a leading hole is `"<lit>".repeat(n)`."""
    ch = hole[2].trace(hole[1])
    if isinstance(lit_of(ch.root), str) and len(ch.hops) == 1 and ch.hops[0][0] == "call" and ch.hops[0][1] == "repeat":
        return ("repeat", lit_of(ch.root), ch.hops[0][2][0] if ch.hops[0][2] else None)
    return None


def writer_row(q, cx, row, sep, spec):
    d = {"row": row, "problems": [], "path": [], "owner": None, "variants": [], "loops": [], "indent": None, "split": None}
    for c in row.ctx:
        if c[0] == "rep":
            m = U.loop_map(c[2], c[1])
            d["loops"].append((c[1], c[2], m))
            if m:
                d["path"].append(m)
            else:
                # a loop over something that is not a map: the pieces of a comment
                ch = c[2].trace(c[1]["iter"]) if c[1].get("k") == "for" else None
                d["split"] = (c[1], c[2], ch)
        elif c[0] == "opt":
            cn = H.peel(c[1]["cond"], refs=False)
            if cn.get("k") == "letexpr" and c[2]:
                r = U.role_of(c[3].trace(cn["init"]), q, cx.key_eq)
                d["owner"] = U.role_str(r[0]) if r else "?"
            else:
                d["problems"].append("row under a condition that is not `if let Some(..) = <field>`")
        elif c[0] == "after-exit":
            pass            # reported per row by R12.1 (written-unconditionally)
        else:
            d["problems"].append("row in unsupported context %s" % c[0])
    tag = None
    depth = None
    for choices, items in row.variants():
        ih, n_ind, cols = U.split_columns(items, sep)
        ind = indent_of_hole(ih[0]) if ih else None
        if ih and ind is None:
            d["problems"].append("leading hole is not `\"\\t\".repeat(indent)`")
        if ind is not None:
            d["indent"] = ind
        t = cols[0][0][1] if cols and len(cols[0]) == 1 and cols[0][0][0] == "lit" else None
        if t is None:
            d["problems"].append("first column is not a literal tag")
        tag = tag or t
        if depth not in (None, n_ind) or t != tag:
            d["problems"].append("variants differ in tag or depth")
        depth = n_ind
        vcols = []
        for c in cols[1:]:
            if len(c) == 1 and c[0][0] == "hole":
                ch = c[0][2].trace(c[0][1])
                r = U.role_of(ch, q, cx.key_eq)
                vcols.append({"role": U.role_str(r[0]) if r else None, "rest": r[1] if r else ch.hops, "chain": ch, "trait": c[0][3],
                              "hole": c[0]})
            else:
                vcols.append({"role": None, "rest": [], "chain": None, "trait": None, "hole": None, "text": repr(c)})
        # the condition of each inline choice: role of the tested place, and whether it is Some in this variant
        conds = []
        for (n, pol, fn) in choices:
            cn = H.peel(n["cond"], refs=False)
            if cn.get("k") == "letexpr" and H.pat_variant(cn["pat"]) and H.pat_variant(cn["pat"])[1] == "Some":
                ch = fn.trace(cn["init"])
                r = U.role_of(ch, q, cx.key_eq)
                conds.append({"role": U.role_str(r[0]) if r else None, "some": pol, "rest": r[1] if r else ch.hops, "chain": ch})
            else:
                conds.append({"role": None, "some": pol, "rest": [], "chain": None})
        d["variants"].append({"cols": vcols, "conds": conds})
    d["tag"], d["depth"] = tag, depth
    # key: CLASS / CLASS/FIELD / CLASS/FIELD/COMMENT ...
    names = {"ClassNowodeMapping.fields": spec["tags"]["field"], "ClassNowodeMapping.methods": spec["tags"]["method"],
             "MethodNowodeMapping.parameters": spec["tags"]["parameter"]}
    path = ["CLASS"] + [names.get(m, m) for m in d["path"]]
    if not (d["owner"] is None and d["split"] is None and ((not d["path"] and tag == spec["tags"]["class"]) or (path and path[-1] == tag))):
        path = path + [tag or "?"]
    d["key"] = "/".join(path)
    return d


def col_index(chain):
    """Column of the current line a value is taken from: (index, calls) / ("none",) / ("format", fa, fn) / None."""
    if chain.root[0] == "none":
        return ("none",)
    if chain.root[0] == "never":
        return ("none",)
    if chain.root[0] == "format":
        return ("format", chain.root[1], chain.root[2])
    hops = chain.hops
    for i, h in enumerate(hops):
        if h[0] == "f" and h[1] == "EnigmaLine" and h[2] == "fields" and i + 1 < len(hops) and hops[i + 1][0] == "idx":
            return (hops[i + 1][1], [x[1] for x in hops[i + 2:] if x[0] == "call"])
    return None


def reader_row(q, cx, fn, lv, tag, body, rel_depth, line_id=None):
    RD = cx.RD
    line_id = line_id if line_id is not None else lv.line_id
    d = {"tag": tag, "depth": rel_depth, "problems": [], "arms": [], "adds": None, "comment": None, "recurse": None, "body": body,
         "level": lv, "default_err": None, "match": None}
    ops = RD.row_ops(fn, body, line_id)
    d["ops"] = ops
    for k, n, f in ops:
        if k == "recurse":
            d["recurse"] = n
        if k in ("moved",) + U.LINE_OPS:
            d["problems"].append("line used through `%s`, not covered by the Enigma column model" % k)
    adds = RD.add_calls(fn, body)
    if lv is None:
        adds = [a for a in adds if not any(a[0] is x for l in cx.levels for x in H.walk(l.closure))]
    if len(adds) > 1:
        d["problems"].append("more than one add_* call in one row")
    if adds:
        d["adds"] = "%s.%s" % adds[0][1]
        d["add_call"] = adds[0][0]
    for k, n, f in ops:
        if k == "helper":
            d["comment"] = comment_helper(q, cx, fn, n, f)
    m, arms = RD.arity_match(fn, body, line_id)
    d["match"] = m
    if m is not None:
        lits_all = RD.struct_lits(fn, body, U.MODEL_INFO)
        if lv is None:
            lits_all = [s for s in lits_all if not any(s is x for l in cx.levels for x in H.walk(l.closure))]
        for ai, arity, guarded, is_default in arms:
            a = m["arms"][ai]
            if is_default:
                d["default_err"] = H.is_err_exit(a["body"]) or any(x.get("k") == "ret" and H.macro_of(x, "bail") for x in H.walk(a["body"]))
                continue
            if arity is None:
                d["problems"].append("arm %d is not a fixed-length slice pattern" % ai)
                continue
            arm = {"arity": arity, "guarded": guarded, "index": ai, "roles": {}, "guard": a.get("guard")}
            sels = [{id(m): ai}]
            # in the CLASS row the names also depend on `if let Some(..) = parent`: evaluate the parent-less side here
            extra = U.option_value_branches(fn, [x for x in RD.walk_row(fn, body) if x is not m])
            sel = dict(sels[0])
            for x, sel_some, sel_none, scrut in extra:
                sel.update(sel_none)
            f2 = fn.with_sel(sel)
            for st in lits_all:
                for f in st["fields"]:
                    role = "%s.%s" % (U.short(st["adt"]), f["name"])
                    ch = f2.trace(f["e"])
                    if ch.root[0] == "array" and not [h for h in ch.hops if h[0] != "call"]:
                        for i, el in enumerate(ch.root[1]["es"]):
                            arm["roles"]["%s[%d]" % (role, i)] = col_index(f2.trace(el))
                    else:
                        arm["roles"][role] = col_index(ch)
            d["arms"].append(arm)
    return d


def comment_helper(q, cx, fn, call, callee):
    """insert_comment(&mut X.javadoc, line): owner, join separator, first/next handling."""
    owner = None
    for a in H.call_args(call):
        r = U.role_of(fn.trace(a), q, cx.key_eq)
        if r and r[0][1] == "javadoc" and not r[1]:
            owner = U.role_str(r[0])
    out = {"owner": owner, "join": None, "first": None, "push_char": None, "push_str": None, "callee": callee, "problems": []}
    pids = H.param_ids(callee.body)
    for n in H.walk(callee.root):
        if n.get("k") == "assign":
            loc = H.local_of(H.peel(n["l"]))
            if loc and pids and loc[0] == pids[0]:
                ch = callee.trace(n["r"])
                out["first"] = ch
                out.setdefault("store_nodes", []).append(n)
                # assignment only when the javadoc is still None
                out["first_when_none"] = U.option_conditions(callee.root, n, pids[0]) == {"none"}
        if n.get("k") == "mcall" and n["name"] in ("push", "push_str"):
            under_some = U.option_conditions(callee.root, n, pids[0]) == {"some"}
            tgt = callee.trace(n["recv"])
            on_payload = [h for h in tgt.hops if h[0] == "f"][-1:] == [("f", "JavadocMapping", "0")]
            if not (under_some and on_payload):
                out["problems"].append("push outside `if let Some(javadoc) = javadoc` or not on javadoc.0")
            if n["name"] == "push":
                v = H.const_value(n["args"][0])
                if v is None:
                    # the separator handed in by the caller (`insert_comment(&mut x.javadoc, line, '\n')`): the constant of this call site
                    ch = callee.trace(n["args"][0])
                    if ch.root[0] in ("lit", "const") and not ch.hops:
                        v = ch.root[-1]
                out["push_char"] = (out["push_char"] or []) + [v]
            else:
                out["push_str"] = (out["push_str"] or []) + [callee.trace(n["args"][0])]
                out.setdefault("store_nodes", []).append(n)
    return out


# ------------------------------------------------------------------------------------------------ R12.1
ALLOWED_WRITER_CALLS = {"filter", "split"}


def wrole(cx, col):
    """Role of a writer column; the class key parameter of write_class counts as the class's first name."""
    if col["role"]:
        return col["role"]
    ch = col["chain"]
    if ch is not None and ch.root[0] == "param" and ch.root[1] == 0 and ch.root[4] == cx.wc["key"]:
        return "ClassMapping.names[0]"
    return None


def r12_1(q, R, cx, spec):
    if not cx.ok:
        R.floor("R12.1", 30)
        return
    tags = spec["tags"]
    # ---- tag constants
    consts = q.const_values("quill::enigma_file")
    want = {"CLASS": tags["class"], "FIELD": tags["field"], "METHOD": tags["method"], "PARAMETER": tags["parameter"], "COMMENT": tags["comment"]}
    for cn, v in sorted(want.items()):
        R.inst("R12.1", "tag-const:%s" % cn, consts.get(cn) == v, sp=(q.consts.get(EF + cn) or {}).get("sp"), expect=v, got=consts.get(cn))
    # ---- every row is written for every entry: no successful early exit (`if <content test> { return Ok(()) }`, continue, break)
    #      ahead of a write! (seed C12-10: a class without target name and members writes no CLASS row, its inner classes follow the
    #      previous top-level class in the text and are re-attached there by the reader)
    seen_exits = set()
    for key, wr in cx.wrows.items():        # in emission order
        ex = U.exits_before(wr["row"], seen_exits)
        R.inst("R12.1", "written-unconditionally:%s" % key, not ex, sp=(wr["loops"][-1][0].get("sp") if wr["loops"] else cx.wc["sp"]),
               expect="the row is written for every entry of its map (CLASS: for every class handed to the class writer; COMMENT rows: for "
                      "every Some(comment)): no `return Ok(..)`/continue/break before it",
               got=ex or "no early exit before the row",
               detail="the reader attaches every row to the nearest row one level up; a row that is skipped for some content is lost, and "
                      "the rows of its sub-section are attached to another entry")
    # ---- rows
    for key in sorted(spec["rows"]):
        srow = spec["rows"][key]
        wr, rr = cx.wrows.get(key), cx.rrows.get(key)
        if not R.anchor("R12.1", "writer row %s" % key, wr is not None, sp=cx.wc["sp"]):
            continue
        if not R.anchor("R12.1", "reader row %s" % key, rr is not None, sp=cx.pc["sp"]):
            continue
        sp = (wr["loops"][-1][0].get("sp") if wr["loops"] else cx.wc["sp"])
        want_tag = key.rsplit("/", 1)[-1]
        ind = wr["indent"]
        ind_ok = bool(ind) and ind[1] == spec["indent"] and ind[2] is not None and ind[2].root[0] == "param" and not ind[2].hops \
            and ind[2].root[4] == cx.wc["key"]
        R.inst("R12.1", "layout:%s" % key,
               wr["tag"] == want_tag == rr["tag"] and wr["depth"] == rr["depth"] == srow["rel_depth"] and ind_ok and not wr["problems"] and not rr["problems"],
               sp=sp, expect={"tag": want_tag, "rel_depth": srow["rel_depth"], "indent": "\"\\t\".repeat(indent) + rel_depth tabs"},
               got={"writer": (wr["tag"], wr["depth"]), "reader": (rr["tag"], rr["depth"]), "indent_ok": ind_ok,
                    "problems": wr["problems"] + rr["problems"]})
        if key.endswith("/COMMENT"):
            cols = [wrole(cx, c) for c in wr["variants"][0]["cols"]] if len(wr["variants"]) == 1 else None
            c = rr["comment"]
            ok = cols == srow["columns"] and wr["owner"] == srow["columns"][0] and c is not None and c["owner"] == srow["columns"][0] \
                and all(x["trait"] == "Display" for x in wr["variants"][0]["cols"])
            R.inst("R12.1", "columns:%s" % key, ok, sp=sp, expect=srow["columns"],
                   got={"writer": cols, "writer_guard": wr["owner"], "reader": c["owner"] if c else None})
            continue
        # entity rows: per writer variant
        all_roles = [c.rstrip("?") for c in srow["columns"]]
        optional = set(c.rstrip("?") for c in srow["columns"] if c.endswith("?"))
        seen_arity = set()
        for v in wr["variants"]:
            roles = [wrole(cx, c) for c in v["cols"]]
            arity = len(roles)
            absent = set(c["role"] for c in v["conds"] if not c["some"])
            present_conds = set(c["role"] for c in v["conds"] if c["some"])
            ikey = "columns:%s/%d" % (key, arity)
            problems = []
            if arity in seen_arity:
                problems.append("two writer variants with the same number of columns")
            seen_arity.add(arity)
            want_cols = [c for c in all_roles if c not in absent]
            if roles != want_cols or not absent <= optional or (absent | present_conds) != optional:
                problems.append("writer columns %s, layout table %s (optional %s)" % (roles, want_cols, sorted(optional)))
            for c in v["cols"]:
                calls = set(h[1] for h in c["rest"] if h[0] == "call")
                if key == "CLASS":
                    calls = set()        # which part of a class name is printed is decided by R12.3 (strip:*), not here
                if not calls <= ALLOWED_WRITER_CALLS:
                    problems.append("column %s printed through %s" % (wrole(cx, c), sorted(calls)))
                if c["trait"] != "Display":
                    problems.append("column %s printed with %s" % (wrole(cx, c), c["trait"]))
                # a present optional column must be the payload of the tested place
                if wrole(cx, c) in present_conds and ("some",) not in c["rest"] and not any(h == ("some",) for h in c["chain"].hops):
                    problems.append("optional column %s is not the Some payload" % wrole(cx, c))
            arms = [a for a in rr["arms"] if a["arity"] == arity and not a["guarded"]]
            if len(arms) != 1:
                problems.append("reader has %d unguarded arms for %d columns" % (len(arms), arity))
            else:
                a = arms[0]
                rcols = {}
                for role, ci in a["roles"].items():
                    if ci is None:
                        problems.append("reader field %s is not taken from a column" % role)
                    elif ci[0] == "none":
                        if role in roles:
                            problems.append("reader sets %s = None but the writer prints it" % role)
                    elif ci[0] == "format":
                        problems.append("reader builds %s with format! outside the nested case" % role)
                    else:
                        rcols[ci[0]] = role
                        extra = [x for x in ci[1] if x not in ("parse",)]
                        if extra:
                            problems.append("reader passes %s through %s" % (role, extra))
                got_r = [rcols.get(i) for i in range(arity)]
                if got_r != roles:
                    problems.append("reader column use %s" % got_r)
            R.inst("R12.1", ikey, not problems, sp=sp, expect={"columns": want_cols, "absent => None": sorted(absent)},
                   got={"writer": roles, "problems": problems},
                   detail="writer template and the reader's slice-pattern arm of the same arity")
        # guarded arms exist only on the read side (modifier handling) and the catch-all arm is an error
        R.inst("R12.1", "surplus-columns-rejected:%s" % key, rr["default_err"] is True, sp=rr["body"].get("sp"),
               expect="slice => bail!(illegal number of arguments)")
        for a in rr["arms"]:
            if a["guarded"]:
                g = H.peel(a["guard"])
                okg = g.get("k") == "call" and H.callee_name(g) == "is_modifier"
                R.inst("R12.1", "guarded-arm-is-modifier:%s/%d" % (key, a["arity"]), okg, sp=rr["body"].get("sp"), got=H.render(g)[:60],
                       expect="guard is_modifier(last column)", nontrivial=False)
    # ---- nesting: CLASS inside a class body recurses with the level's own iterator and line, one level deeper
    nr = cx.rrows.get("CLASS/CLASS")
    if R.anchor("R12.1", "reader row CLASS/CLASS (nested class)", nr is not None and nr["recurse"] is not None, sp=cx.pc["sp"]):
        call = nr["recurse"]
        lv = nr["level"]
        a = call["args"]
        ok = nr["depth"] == spec["nested_class_rel_depth"] and len(a) == 4 and H.local_of(a[1]) and H.local_of(a[1])[0] == lv.iter_id \
            and H.local_of(a[2]) and H.local_of(a[2])[0] == lv.line_id
        R.inst("R12.1", "nested-class:reader", bool(ok), sp=call.get("sp"), expect="parse_class(mappings, <level iterator>, <level line>, Some(..)) at relative depth 1",
               got=H.render(call)[:100])
    # ---- top level of read_into: CLASS -> parse_class(.., None), anything else is an error
    tl = [l for l in cx.top_levels if l.depth == ("abs", 0)]
    if R.anchor("R12.1", "top level of read_into", len(tl) == 1, sp=cx.ri["sp"]):
        lv = tl[0]
        br = dict(lv.branches)
        body = br.get(tags["class"])
        ok = False
        got = None
        if body is not None and set(br) == {tags["class"]}:
            calls = [n for n in H.walk(body) if n.get("k") == "call" and (n.get("callee") or {}).get("key") == cx.pc["key"]]
            if len(calls) == 1:
                a = calls[0]["args"]
                got = H.render(calls[0])[:100]
                ok = len(a) == 4 and H.local_of(a[1]) and H.local_of(a[1])[0] == lv.iter_id and H.local_of(a[2]) and H.local_of(a[2])[0] == lv.line_id \
                    and H.ctor_of(H.peel(a[3])) and H.ctor_of(H.peel(a[3]))[1] == "None"
        R.inst("R12.1", "top-level:reader", bool(ok) and lv.default and lv.default[0] == "error", sp=lv.closure.get("sp"),
               expect="CLASS => parse_class(mappings, iter, line, None); other tags => Err", got=got)
    R.floor("R12.1", 30)


def _struct_field_local(fn, adt_short, field):
    """(struct literal, local id) of `Adt { field: <local>, .. }` in a function."""
    for n in H.walk(fn.root):
        if n.get("k") == "struct" and U.short(n.get("adt")) == adt_short:
            for f in n["fields"]:
                if f["name"] == field:
                    loc = H.local_of(f["e"])
                    return n, (loc[0] if loc else None)
    return None, None


def r12_2(q, R, cx, spec):
    R.rule("R12.2", "sorted, deterministic output: write_class walks sorted copies of fields, methods, parameters (sort key contains the "
                    "map key); figure_out_files sorts file_map by key and every child list after the filling loop; write_all and "
                    "write_all_for_each walk that file_map as it is; write_one_tree_starting_at emits a class, then its children in "
                    "sorted order, depth first, one level deeper; enigma_dir::read_ walks the directory sorted by file name")
    if not cx.ok:
        R.floor("R12.2", 14)
        return
    # ---- write_class loops
    seen = set()
    for key, wr in sorted(cx.wrows.items()):
        for node, fn, m in wr["loops"]:
            if id(node) in seen:
                continue
            seen.add(id(node))
            if node.get("k") != "for":
                R.unrecognised("R12.2", "write_class", "rows written in a loop that is not a `for`", node.get("sp"))
                continue
            o = U.order_of_loop(fn, node)
            if not o["tainted"]:
                continue
            ikey = "loop:%s" % ("%s.%s" % o["map"] if o["map"] else "unknown-map")
            R.inst("R12.2", ikey, o["sorted"] is not None, sp=node.get("sp"), expect="<collected>.sort*(..) before the loop",
                   got=("sorted by " + H.render(o["sorted"])[:80]) if o["sorted"] else (o.get("sort_problem") or "no sort"),
                   detail="IndexMap iteration order is insertion order; it must not reach the output")
            if o["sorted"] is not None:
                U.sort_key_total(q, R, "R12.2", cx, fn, o, ikey.replace("loop:", "sortkey:"))
    # ---- figure_out_files
    fo = cx.roles.get("placement")
    if R.anchor("R12.2", "placement function (its file_map is walked by write_all)", fo):
        ffn = U.Fn(q, fo)
        cx.ffn = ffn
        lit, fm = _struct_field_local(ffn, "Placement", "file_map")
        _, cm = _struct_field_local(ffn, "Placement", "child_map")
        cx.file_map_local, cx.child_map_local, cx.placement_lit = fm, cm, lit
        if R.anchor("R12.2", "Placement { file_map: <local>, child_map: <local> } in figure_out_files", lit is not None and fm is not None and cm is not None, sp=fo["sp"]):
            srt = U.sort_call_before(ffn, fm, lit)
            ok = srt is not None and srt["name"] in ("sort_keys", "sort_unstable_keys")
            # the sort must come after the loop that fills the map
            fills = [n for n in H.walk(ffn.root) if n.get("k") == "for" and any(x.get("k") == "mcall" and x["name"] in ("insert", "entry")
                     and H.local_of(x["recv"]) and H.local_of(x["recv"])[0] == fm for x in H.walk(n))]
            after = srt is not None and all(not any(x is srt for x in H.walk(l)) for l in fills)
            R.inst("R12.2", "file_map-sorted", ok and after and len(fills) >= 1, sp=(srt or fo).get("sp"), expect="file_map.sort[_unstable]_keys() after the filling loop",
                   got=H.render(srt) if srt else None)
            # child lists: child_map.values_mut().for_each(|x| x.sort*_by_key(|x| x.src)) (or a for loop doing the same), after the fill
            ok_c, got = False, None
            order = list(H.walk(ffn.root))
            pos = {id(n): i for i, n in enumerate(order)}
            fill_end = max([pos[id(x)] for l in fills for x in H.walk(l)] or [0])
            for n in order:
                if n.get("k") == "mcall" and n["name"] in U.SORTS and pos[id(n)] > fill_end and pos[id(n)] < pos[id(lit)]:
                    ch = ffn.trace(n["recv"])
                    # receiver: an element of the values of child_map
                    vals = [h for h in ch.hops if h[0] == "mapiter"]
                    if vals and vals[-1][1] == "v" and ch.hops[-1] == ("elem",):
                        # rooted in the child_map local?
                        base = None
                        for x in H.walk(ffn.root):
                            if x.get("k") == "mcall" and x["name"] in ("values_mut", "iter_mut") and H.local_of(x["recv"]) and H.local_of(x["recv"])[0] == cm \
                                    and any(y is n for y in H.walk(ffn.parent.get(id(x), x))):
                                base = x
                        keys, problems = U.sort_key_fields(ffn, n)
                        kf = [[h for h in k.hops if h[0] == "f"][-1:] for k, _ in (keys or [])]
                        got = {"sort": H.render(n)[:90], "key": kf, "problems": problems}
                        if base is not None and keys and kf == [[("f", "Node", "src")]] and not problems:
                            ok_c = True
            R.inst("R12.2", "child-lists-sorted", ok_c, sp=fo["sp"], expect="after the filling loop: for every list in child_map: sort*_by_key(|x| x.src)", got=got,
                   detail="children are pushed in IndexMap iteration order; the class key (Node.src) is unique, so it is a total key")
    # ---- write_all / write_all_for_each walk the file_map of figure_out_files unchanged
    for name in ("write_all", "write_all_for_each"):
        b = q.fn(name, within=EF + name)
        if not R.anchor("R12.2", "fn %s" % name, b):
            continue
        fn = U.Fn(q, b)
        tw_key = (cx.roles.get("tree_walk") or {}).get("key")
        pl_key = (cx.roles.get("placement") or {}).get("key")
        tw_calls = lambda n: [x for x in H.walk(n) if x.get("k") == "call" and (x.get("callee") or {}).get("key") == tw_key]
        loops = [n for n in H.walk(fn.root) if n.get("k") == "for" and tw_calls(n["body"])]
        ok, got = False, None
        if len(loops) == 1 and tw_key and pl_key:
            ch = fn.trace(loops[0]["iter"])
            got = ch.show()
            steps = [(h[0], h[3] if h[0] == "call" and len(h) > 3 else h[1:3]) for h in ch.hops if h[0] in ("f", "call")]
            ok = steps == [("call", pl_key), ("f", ("Placement", "file_map"))]
            # the child map handed on is the one of the same placement
            calls = tw_calls(loops[0]["body"])
            if len(calls) == 1:
                c2 = fn.trace(calls[0]["args"][1])
                n2 = fn.trace(calls[0]["args"][0])
                ok = ok and [h for h in c2.hops if h[0] == "f"] == [("f", "Placement", "child_map")] and c2.root == ch.root and \
                    [h[3] for h in c2.hops if h[0] == "call" and len(h) > 3] == [pl_key] and n2.sig()[-2:] == [("elem",), ("idx", 1)] and \
                    n2.sig()[:len(ch.sig())] == ch.sig()
            else:
                ok = False
        R.inst("R12.2", "walk:%s" % name, ok, sp=b["sp"], expect="for (file_name, node) in figure_out_files(mappings)?.file_map { .. write_one_tree_starting_at(node, &f.child_map, ..) }", got=got)
    # ---- write_one_tree_starting_at: pre-order, children in list order, one level deeper
    wt = cx.roles.get("tree_walk")
    if R.anchor("R12.2", "tree walk (the writing function called for every file_map entry)", wt):
        fn = U.Fn(q, wt)
        ops = []
        for n in H.walk(fn.root):
            if n.get("k") == "mcall" and n["name"] in ("pop_front", "pop_back", "pop", "push_front", "push_back", "push", "rev", "extend", "insert", "append"):
                ops.append(n["name"])
        disc = sorted(set(ops))
        ok_q = disc in (["pop_front", "push_front", "rev"], ["pop_back", "push_back", "rev"], ["pop", "push", "rev"]) and ops.count("rev") == 1
        R.inst("R12.2", "nesting:pre-order", ok_q, sp=wt["sp"], expect="stack discipline: pop_front + push_front of children.iter().rev() (or pop/push with rev)", got=ops,
               detail="a FIFO queue would emit grandchildren after their uncles, which the reader attaches to the wrong parent")
        pushes = [n for n in H.walk(fn.root) if n.get("k") == "mcall" and n["name"] in ("push_front", "push_back", "push")]
        wcalls = [n for n in H.walk(fn.root) if n.get("k") == "call" and (n.get("callee") or {}).get("key") == cx.wc["key"]]
        ok_d, got = False, None
        if len(pushes) == 1 and len(wcalls) == 1:
            t = H.peel(pushes[0]["args"][0])
            if t.get("k") == "tuple" and len(t["es"]) == 2:
                d = H.peel(t["es"][1])
                got = H.render(d)
                dloc = H.local_of(wcalls[0]["args"][3])
                if d.get("k") == "bin" and d["op"] == "+" and dloc:
                    sides = [H.peel(d["l"]), H.peel(d["r"])]
                    ok_d = any(H.const_value(x) == spec["nested_class_rel_depth"] for x in sides) and any(H.local_of(x) and H.local_of(x)[0] == dloc[0] for x in sides)
                # the child pushed is an element of the list looked up under the parent's own key
                cch = fn.trace(t["es"][0])
                ok_d = ok_d and cch.hops[-1:] == [("elem",)] and any(h[0] == "call" and h[1] == "get" for h in cch.hops)
            # children are looked up by the src of the node just written; the node is written with its own src/class/depth
            a = wcalls[0]["args"]
            c0, c1 = fn.trace(a[0]), fn.trace(a[1])
            same = c0.sig()[:-1] == c1.sig()[:-1] and c0.hops[-1:] == [("f", "Node", "src")] and c1.hops[-1:] == [("f", "Node", "class")]
            ok_d = ok_d and same
        R.inst("R12.2", "nesting:depth+1", ok_d, sp=wt["sp"], expect="write_class(parent.src, parent.class, w, depth); children pushed with depth + 1", got=got)
        # every node taken from the queue is written: the class writer is called unconditionally in the loop (no content test around
        # the call, no continue/break/return Ok before it) - the writer side of "exactly one CLASS row per placed class" (seed C12-10)
        if len(wcalls) == 1:
            from rules import c03 as C3
            lp = next((a for a in fn.parents(wcalls[0]) if a.get("k") in ("loop", "for")), None)
            qloc = None
            if lp is not None:
                pops = [n for n in H.walk(lp) if n.get("k") == "mcall" and n["name"] in ("pop_front", "pop_back", "pop") and H.local_of(n["recv"])]
                qloc = H.local_of(pops[0]["recv"])[0] if len(pops) == 1 else None
            bad = C3.conditional_store(fn, wcalls, qloc, stop=lp) if lp is not None else [("the class writer is not called in the loop over the queue", wt["sp"])]
            R.inst("R12.2", "nesting:every-node-written", not bad, sp=(bad[0][1] if bad else wt["sp"]),
                   expect="write_class(..)? for every node popped from the queue, before its children are pushed: no condition on the "
                          "content of the class, no continue/break/return Ok before the call",
                   got=[b[0].replace("stored", "written").replace("the store", "the call of the class writer") for b in bad] or "written in every iteration",
                   detail="a class that is skipped while its inner classes are still written one level deeper leaves their rows under the "
                          "preceding class of the text")
        inits = [n for n in H.walk(fn.root) if n.get("k") == "tuple" and len(n["es"]) == 2 and H.const_value(n["es"][1]) == 0
                 and H.local_of(n["es"][0]) and H.local_of(n["es"][0])[0] == H.param_ids(wt)[0]]
        R.inst("R12.2", "nesting:root-depth-0", len(inits) == 1, sp=wt["sp"], expect="queue starts with (node, 0)")
    # ---- enigma_dir::read_
    rd = dir_read_worker(q)
    if R.anchor("R12.2", "directory reader (enigma_dir::read or the function it delegates to) with the WalkDir", rd):
        # the options set on the WalkDir before it is iterated (explicit into_iter or a `for` loop)
        chain = []
        for n in H.walk(rd["body"]):
            if n.get("k") == "call" and (H.callee_path(n) or "").endswith("WalkDir::new"):
                chain.append("WalkDir::new")
                for name, node in U12.climb(rd["body"], n)[0]:
                    if not ((node.get("callee") or {}).get("path") or "").startswith("walkdir::WalkDir::") or name == "into_iter":
                        break
                    chain.append(name)
        R.inst("R12.2", "dir-walk-sorted", "WalkDir::new" in chain and any(c in ("sort_by_file_name", "sort_by", "sort_by_key") for c in chain), sp=rd["sp"],
               expect="WalkDir::new(path).sort_by_file_name().into_iter()", got=chain)
    R.floor("R12.2", 14)


def mentions_param(fn, expr, idx, depth=0):
    """Does an expression depend on parameter `idx` of fn's function (directly or through `let` bindings)?"""
    if depth > 6:
        return False
    for n in H.walk(expr):
        if n.get("k") == "path" and n["res"].get("r") == "local":
            b = fn.binds.get(n["res"]["id"])
            if b is None:
                continue
            if b.origin[0] == "param" and b.origin[1] == idx:
                return True
            if b.origin[0] in ("let", "letexpr") and "init" in b.origin[1] and mentions_param(fn, b.origin[1]["init"], idx, depth + 1):
                return True
    return False


def nested_truth(fn, cond, pol, nest_params, fn_key, depth=0):
    """Truth value of "the class is written inside its parent" implied by `cond == pol`, or None if the condition does not speak
    about the nesting parameter.  Understands `!`, bool locals (their initialiser), helper parameters (the argument) and
    comparisons of the nesting depth with 0 / 1."""
    if depth > 8:
        return None
    e, neg = H.negate_peel(cond)
    val = (pol != neg)
    e = H.peel(e)
    if e.get("k") == "path" and e["res"].get("r") == "local":
        b = fn.binds.get(e["res"]["id"])
        if b is None:
            return None
        if b.origin[0] in ("let",) and "init" in b.origin[1] and not b.path:
            return nested_truth(fn, b.origin[1]["init"], val, nest_params, fn_key, depth + 1)
        if b.origin[0] == "param" and b.origin[1] in fn.subst and not b.path:
            cf, arg = fn.subst[b.origin[1]]
            return nested_truth(cf, arg, val, nest_params, fn_key, depth + 1)
        return None
    if e.get("k") == "bin" and e["op"] in (">", "<", ">=", "<=", "==", "!="):
        def is_depth(x):
            c = fn.trace(x)
            return c.root[0] == "param" and c.root[1] in nest_params and c.root[4] == fn_key and not c.hops
        l, r, op = e["l"], e["r"], e["op"]
        if is_depth(r) and not is_depth(l):
            l, r = r, l
            op = {">": "<", "<": ">", ">=": "<=", "<=": ">=", "==": "==", "!=": "!="}[op]
        k = H.const_value(r)
        if not is_depth(l) or not isinstance(k, int) or isinstance(k, bool):
            return None
        table = {(">", 0): True, ("!=", 0): True, (">=", 1): True, ("==", 0): False, ("<", 1): False, ("<=", 0): False}
        t = table.get((op, k))
        return None if t is None else (t == val)
    return None


def after_fields(ch):
    """Hops after the `.fields` projection of the current line."""
    for i, h in enumerate(ch.hops):
        if h[0] == "f" and h[1] == "EnigmaLine" and h[2] == "fields":
            return ch.hops[i + 1:]
    return ch.hops


def strip_shape(ch, base_sig):
    """`X.get_inner_class_name().unwrap_or(X)`: the calls after the base place, with the fallback being the same place."""
    calls = [h for h in ch.hops if h[0] == "call"]
    if [c[1] for c in calls] not in (["get_inner_class_name", "unwrap_or"], ["get_inner_class_name", "filter", "unwrap_or"]):
        return False
    alt = calls[-1][2]
    return isinstance(alt, U.Chain) and alt.root == ch.root and alt.sig() == base_sig


def format_parts(fmt):
    """("format", fa, fn) -> list of str | Chain"""
    out = []
    for p in fmt[1]["pieces"]:
        out.append(p if isinstance(p, str) else fmt[2].trace(fmt[1]["args"][p["arg"]]))
    return out


def r12_3(q, R, cx, spec):
    R.rule("R12.3", "inner-class names: write_class prints only the part after the last `$` of source key and target name, parse_class "
                    "re-attaches `parent$` for both and hands the full names to nested classes; stripping happens only for a class "
                    "written under its parent; `<init>` target names are not written; a comment is written as one COMMENT row per "
                    "line (split at the line separator) and read back by joining the tokens with the column separator and the rows "
                    "with the line separator; COMMENT rows are exempt from `#` stripping and trimming; every white-space character "
                    "the tokeniser splits at is re-created by the join")
    if not cx.ok:
        R.floor("R12.3", 20)
        return
    wfn, pfn = cx.wfn, cx.pfn
    wr = cx.wrows.get("CLASS")
    full = [v for v in (wr["variants"] if wr else []) if len(v["cols"]) == 2]
    if R.anchor("R12.3", "CLASS row with source and target column in the class writer", len(full) == 1, sp=cx.wc["sp"]):
        nest_params = [i for i, t in enumerate(cx.wc["inputs"]) if not any(x in t for x in ("ObjClassNameSlice", "ClassNowodeMapping", "impl Write", "Write"))]
        for which, col in (("src", full[0]["cols"][0]), ("dst", full[0]["cols"][1])):
            hole = col["hole"]
            alts = U.alternatives(hole[2], hole[1])
            shapes = []
            for conds, ch in alts:
                first_call = next((i for i, h in enumerate(ch.hops) if h[0] == "call"), len(ch.hops))
                base = U.Chain(ch.root, ch.hops[:first_call])
                if which == "src":
                    base_ok = base.root[0] == "param" and base.root[1] == 0 and base.root[4] == cx.wc["key"] and not base.hops
                else:
                    r = U.role_of(base, q, cx.key_eq)
                    base_ok = r is not None and r[0] == ("ClassMapping", "names", 1) and [h for h in r[1] if h != ("some",)] == []
                calls = [h for h in ch.hops if h[0] == "call"]
                if not calls:
                    kind = "full"
                elif strip_shape(ch, base.sig()):
                    kind = "inner"
                else:
                    kind = "other:" + ch.show()
                nest = set()
                for ce, pol, cfn in conds:
                    v = nested_truth(cfn, ce, pol, nest_params, cx.wc["key"])
                    if v is not None:
                        nest.add(v)
                shapes.append((kind, base_ok, tuple(sorted(nest))))
            kinds = set(k for k, _, _ in shapes)
            ok_shape = kinds <= {"full", "inner"} and "inner" in kinds and all(b for _, b, _ in shapes)
            R.inst("R12.3", "strip:%s" % which, ok_shape, sp=cx.wc["sp"],
                   expect="the printed name is X.get_inner_class_name().unwrap_or(X) (or X itself), X = %s" % ("the class key" if which == "src" else "ClassMapping.names[1]"),
                   got=[(k, n) for k, _, n in shapes])
            ok_nest = ok_shape and kinds == {"full", "inner"} and all((k == "inner" and n == (True,)) or (k == "full" and n == (False,)) for k, _, n in shapes)
            R.inst("R12.3", "strip-only-when-nested:%s" % which, ok_nest, sp=cx.wc["sp"],
                   expect="inner name exactly when the class is written inside its parent (nesting information: parameter %s), full name at the top of a file"
                          % [cx.wc["params"][i].get("name") or i for i in nest_params], got=[(k, n) for k, _, n in shapes],
                   detail="the reader re-attaches a prefix only for nested CLASS rows; a class at the top of a file (outer class not in "
                          "the mapping set) must keep its full name")
    # ---- re-attachment on read (nested case: `if let Some(..) = parent` taken)
    rr = cx.rrows.get("CLASS")
    m = rr["match"] if rr else None
    par_ids = [i for i, t in enumerate(cx.pc["inputs"]) if t.startswith("core::option::Option<(")]
    branches = []
    if len(par_ids) == 1:
        for x, sel_some, sel_none, scrut in U.option_value_branches(pfn, [y for y in cx.RD.walk_row(pfn, pfn.root) if y is not m]):
            c = pfn.trace(scrut)
            if c.root[0] == "param" and c.root[1] == par_ids[0] and not c.hops:
                branches.append((x, sel_some, sel_none))
    if R.anchor("R12.3", "two-way branch on the `parent` parameter (if let / match) in the class parser", m is not None and len(branches) == 1, sp=cx.pc["sp"]):
        pidx = par_ids[0]
        br, sel_some, sel_none = branches[0]
        R.inst("R12.3", "reattach:condition", True, sp=br.get("sp"), expect="prefix added iff parent is Some", nontrivial=False)
        lits = [s2 for s2 in cx.RD.struct_lits(pfn, pfn.root, ("ClassMapping",)) if not any(s2 is x for l in cx.levels for x in H.walk(l.closure))]
        arm2 = [a for a in rr["arms"] if a["arity"] == 2 and not a["guarded"]]
        if R.anchor("R12.3", "ClassMapping literal and the [src, dst] arm of parse_class", len(lits) == 1 and len(arm2) == 1, sp=cx.pc["sp"]):
            f2 = pfn.with_sel({**{id(m): arm2[0]["index"]}, **sel_some})
            names = [f for f in lits[0]["fields"] if f["name"] == "names"][0]
            ach = f2.trace(names["e"])
            els = ach.root[1]["es"] if ach.root[0] == "array" else []
            vals = []
            for i, want_col in ((0, 0), (1, 1)):
                ok, got = False, None
                if len(els) == 2:
                    ci = col_index(f2.trace(els[i]))
                    if ci and ci[0] == "format":
                        parts = format_parts(ci)
                        got = [x if isinstance(x, str) else x.show() for x in parts]
                        if len(parts) == 3 and parts[1] == spec["inner_class_separator"] and isinstance(parts[0], U.Chain) and isinstance(parts[2], U.Chain):
                            a, b = parts[0], parts[2]
                            ok = a.root[0] == "param" and a.root[1] == pidx and [h for h in a.hops if h[0] in ("some", "idx")] == [("some",), ("idx", i)] \
                                and col_index(b) is not None and col_index(b)[0] == want_col
                        vals.append(ci[1])
                R.inst("R12.3", "reattach:%s" % ("src", "dst")[i], ok, sp=names["e"].get("sp"),
                       expect="format!(\"{parent_%s}$%s{column %d}\")" % (("src", "dst")[i], "", want_col), got=got)
            # arity 1: no target name -> None also in the nested case
            arm1 = [a for a in rr["arms"] if a["arity"] == 1 and not a["guarded"]]
            if arm1:
                f1 = pfn.with_sel({**{id(m): arm1[0]["index"]}, **sel_some})
                els1 = f1.trace(names["e"]).root[1]["es"] if f1.trace(names["e"]).root[0] == "array" else []
                ok = len(els1) == 2 and col_index(f1.trace(els1[1])) == ("none",)
                R.inst("R12.3", "reattach:no-dst-stays-none", ok, sp=names["e"].get("sp"), expect="CLASS src  ->  names[1] = None")
            # recursion hands on the full names
            nr = cx.rrows.get("CLASS/CLASS")
            if nr and nr["recurse"] is not None and len(nr["recurse"]["args"]) == 4:
                a3 = H.peel(nr["recurse"]["args"][3])
                tup = H.peel(a3["args"][0]) if a3.get("k") == "call" and H.ctor_of(a3) and H.ctor_of(a3)[1] == "Some" and a3.get("args") else {}
                ok_s = ok_d = False
                got = H.render(a3)[:80]
                if tup.get("k") == "tuple" and len(tup["es"]) == 2 and len(vals) == 2:
                    c0 = f2.trace(tup["es"][0])
                    c1 = f2.trace(tup["es"][1])
                    ok_s = c0.root[0] == "format" and c0.root[1]["sp"] == vals[0]["sp"] and not [h for h in c0.hops if h[0] == "call"]
                    calls = [h for h in c1.hops if h[0] == "call"]
                    ok_d = c1.root[0] == "format" and c1.root[1]["sp"] == vals[1]["sp"] and len(calls) == 1 and calls[0][1] == "unwrap_or" and \
                        isinstance(calls[0][2], U.Chain) and calls[0][2].root[0] == "format" and calls[0][2].root[1]["sp"] == vals[0]["sp"]
                    got = [c0.show(), c1.show()]
                R.inst("R12.3", "recursion:parent-src", ok_s, sp=nr["recurse"].get("sp"), expect="the nested class gets this class's full source name", got=got)
                R.inst("R12.3", "recursion:parent-dst", ok_d, sp=nr["recurse"].get("sp"), expect="this class's full target name, or its source name if it has none", got=got)
    # ---- <init>
    mr = cx.wrows.get("CLASS/METHOD")
    if R.anchor("R12.3", "METHOD row", mr is not None, sp=cx.wc["sp"]):
        ok, got = False, None
        for v in mr["variants"]:
            for c in v["conds"]:
                if c["role"] == "MethodMapping.names[1]":
                    fl = [h for h in c["rest"] if h[0] == "call"]
                    got = [h[1] for h in fl]
                    if len(fl) == 1 and fl[0][1] == "filter" and isinstance(fl[0][2], dict) and fl[0][2].get("k") == "closure":
                        b = H.peel(fl[0][2]["body"])
                        pid = [i for p in fl[0][2]["params"] for (i, _) in H.pat_bindings(p)]
                        if b.get("k") == "bin" and b["op"] == "!=":
                            sides = [b["l"], b["r"]]
                            ok = any(H.const_value(x) == spec["constructor_name"] for x in sides) and any(H.local_of(x) and H.local_of(x)[0] in pid for x in sides)
                        got = H.render(b)
        R.inst("R12.3", "init-dst-suppressed", ok, sp=cx.wc["sp"], expect="target name written only if it is != %r" % spec["constructor_name"], got=got)
        fr = cx.wrows.get("CLASS/FIELD")
        okf = fr is not None and all(not [h for h in c["rest"] if h[0] == "call"] for v in fr["variants"] for c in v["conds"])
        R.inst("R12.3", "field-dst-unfiltered", okf, sp=cx.wc["sp"], expect="field target names are written whenever present")
    # ---- comments
    nl = spec["comment_line_separator"]
    for key in sorted(k for k in spec["rows"] if k.endswith("/COMMENT")):
        wr, rr = cx.wrows.get(key), cx.rrows.get(key)
        if wr is None or rr is None or rr["comment"] is None:
            continue
        sp = wr["split"][0].get("sp") if wr["split"] else cx.wc["sp"]
        col = wr["variants"][0]["cols"][0] if wr["variants"] and wr["variants"][0]["cols"] else None
        okw = False
        got = None
        if wr["split"] and col is not None:
            calls = [h for h in col["rest"] if h[0] == "call"]
            got = col["chain"].show()
            okw = len(calls) == 1 and calls[0][1] == "split" and calls[0][2] and calls[0][2][0].root == ("lit", nl) and col["rest"][-1:] == [("elem",)] \
                and [h for h in col["rest"] if h[0] == "f"] == [("f", "JavadocMapping", "0")]
        R.inst("R12.3", "comment-split:%s" % key, okw, sp=sp, expect="one COMMENT row per element of javadoc.0.split(%r)" % nl, got=got)
    anyc = [r for r in cx.rrows.values() if r.get("comment")]
    hk = set(r["comment"]["callee"].body["key"] for r in anyc)
    ic = q.by_key.get(list(hk)[0]) if len(hk) == 1 else None
    if R.anchor("R12.3", "the one comment helper all COMMENT rows hand their line to", ic, sp=cx.pc["sp"]):
        same_helper = True
        c = anyc[0]["comment"]
        first = c["first"]
        jn = [h for h in after_fields(first) if h[0] == "call"] if first else []
        ok_join = bool(first) and len(jn) == 1 and jn[0][1] == "join" and jn[0][2] and jn[0][2][0].root == ("lit", spec["separator"]) and \
            [h for h in first.hops if h[0] == "f"][-1:] == [("f", "EnigmaLine", "fields")] and first.hops[-1][0] == "mk"
        R.inst("R12.3", "comment-join:separator", ok_join and same_helper, sp=ic["sp"], expect="JavadocMapping(line.fields.join(%r))" % spec["separator"],
               got=first.show() if first else None)
        R.inst("R12.3", "comment-join:first-line", bool(c.get("first_when_none")), sp=ic["sp"], expect="*javadoc = Some(..) only when there is no comment yet")
        ps = c["push_str"] or []
        # (the separator may be an argument of the helper: it is evaluated per call site, every COMMENT row must pass the same one)
        ok_next = all(r["comment"]["push_char"] == [nl] for r in anyc) and len(ps) == 1 and first is not None and ps[0].sig() == first.sig()[:-1] and not c["problems"]
        R.inst("R12.3", "comment-join:next-lines", ok_next, sp=ic["sp"], expect="javadoc.0.push(%r); javadoc.0.push_str(&<the same joined text>)" % nl,
               got={"push": sorted(set(repr(r["comment"]["push_char"]) for r in anyc)), "push_str": [x.show() for x in ps], "problems": c["problems"]})
        # every accepted COMMENT row is stored: nothing but the test of the javadoc slot (and error exits) stands before the
        # assignment / push_str (the Tiny v2 counterpart is R03.6 comment-stored, seed C03-11)
        if c.get("store_nodes"):
            from rules import c03 as C3
            bad = C3.conditional_store(c["callee"], c["store_nodes"], H.param_ids(ic)[0])
            R.inst("R12.3", "comment-join:stored", not bad, sp=(bad[0][1] if bad else ic["sp"]),
                   expect="every COMMENT row the helper accepts is stored (first line: assignment, further lines: push_str), whatever its text",
                   got=[b[0] for b in bad] or "stored on every successful path",
                   detail="the writer emits one COMMENT row per line of the text, also for an empty line; a row that is accepted without being "
                          "stored changes the comment on write -> read")
        # order: push(sep) before push_str
        seq = [n["name"] for n in H.walk(ic["body"]) if n.get("k") == "mcall" and n["name"] in ("push", "push_str")]
        R.inst("R12.3", "comment-join:order", seq == ["push", "push_str"], sp=ic["sp"], expect=["push", "push_str"], got=seq)
    # ---- tokeniser
    nw = q.fn("new", impl_ty="EnigmaLine")
    if R.anchor("R12.3", "fn EnigmaLine::new", nw):
        nfn = U.Fn(q, nw)
        splits = [n for n in H.walk(nw["body"]) if n.get("k") == "mcall" and n["name"] == "split" and n.get("args")]
        ok_ex, got = False, None
        ws = None
        if len(splits) == 1:
            sp_arg = H.peel(splits[0]["args"][0])
            cname = H.const_name(sp_arg)
            for b in q.bodies:
                if cname and b["path"] == cname and H.peel(b["body"]).get("k") == "array":
                    ws = [H.const_value(x) for x in H.peel(b["body"])["es"]]
            if ws is None and sp_arg.get("k") == "array":
                ws = [H.const_value(x) for x in sp_arg["es"]]
            if ws is None and isinstance(H.const_value(sp_arg), str):
                ws = [H.const_value(sp_arg)]
            # the tokenised text under `starts_with(COMMENT)`
            loc = H.local_of(splits[0]["recv"])
            init = H.let_init_of(nw["body"], loc[0]) if loc else None
            e = H.peel(init) if init is not None else {}
            if e.get("k") == "if":
                c = H.peel(e["cond"], refs=False)
                th = H.peel(e["then"])
                got = H.render(c)[:80]
                is_sw = c.get("k") == "mcall" and c["name"] == "starts_with" and H.const_value(c["args"][0]) == spec["tags"]["comment"]
                untouched = H.local_of(th) is not None and H.local_of(c["recv"]) is not None and H.local_of(th)[0] == H.local_of(c["recv"])[0]
                ok_ex = is_sw and untouched
                # the other side strips from the line-comment character and trims
                el = e.get("else") or {}
                so = [n for n in H.walk(el) if n.get("k") == "mcall" and n["name"] == "split_once" and H.const_value(n["args"][0]) == spec["line_comment"]]
                R.inst("R12.3", "hash-strip:other-rows", len(so) == 1, sp=e.get("sp"), expect="everything after %r ignored on non-COMMENT rows" % spec["line_comment"])
        R.inst("R12.3", "hash-strip:comment-exempt", ok_ex, sp=nw["sp"], expect="if line.starts_with(COMMENT) { line (unchanged) } else { strip # / trim }", got=got)
        ind = []
        for n in H.walk(nw["body"]):
            if n.get("k") == "mcall" and n["name"] == "take_while" and n.get("args"):
                cl = H.peel(n["args"][0])
                b = H.peel(cl["body"]) if cl.get("k") == "closure" else {}
                if b.get("k") == "bin" and b["op"] == "==":
                    ind.append(H.const_value(b["r"]) if H.const_value(b["r"]) is not None else H.const_value(b["l"]))
        R.inst("R12.3", "indent-char", ind == [spec["indent"]], sp=nw["sp"], expect=[spec["indent"]], got=ind)
        if R.anchor("R12.3", "white-space set of the tokeniser", ws is not None and all(isinstance(x, str) for x in ws), sp=nw["sp"]):
            R.inst("R12.3", "separator-is-token-separator", spec["separator"] in ws, sp=nw["sp"], expect="%r in the split set" % spec["separator"], got=ws)
            names = {" ": "space", "\t": "tab", "\n": "line-feed", "\x0b": "vertical-tab", "\x0c": "form-feed", "\r": "carriage-return"}
            for ch in ws:
                # a character the tokeniser splits at inside a COMMENT row survives only if the join re-creates it, or it cannot occur
                ok = ch == spec["separator"] or ch == nl
                R.inst("R12.3", "comment-whitespace:%s" % names.get(ch, repr(ch)), ok, sp=nw["sp"],
                       expect="split character is the join separator (or the line separator, which the writer never puts into a row)",
                       got="%r is replaced by %r when a comment is read back" % (ch, spec["separator"]) if not ok else None,
                       detail="COMMENT text is tokenised like every other row and re-joined with one separator")
    R.floor("R12.3", 20)


def r12_4(q, R, cx, spec):
    R.rule("R12.4", "placement: in figure_out_files every class of mappings.classes goes either into the child list of its inner-class "
                    "parent (only if that parent is a key of the same map) or into file_map under its target name (source name if it has "
                    "none) - exactly one of the two; a node carries key and value of the same map entry; two classes with the same file "
                    "name are an error, not an overwrite; children are looked up under the written class's own key; the directory writer "
                    "and reader use the same file extension")
    fo = cx.roles.get("placement") if cx.ok else None
    if not (cx.ok and R.anchor("R12.4", "placement function (its file_map is walked by write_all)", fo)):
        R.floor("R12.4", 9)
        return
    fn = getattr(cx, "ffn", None) or U.Fn(q, fo)
    fm, cm = getattr(cx, "file_map_local", None), getattr(cx, "child_map_local", None)
    loops = [n for n in H.walk(fn.root) if n.get("k") == "for"]
    loops = [n for n in loops if U.loop_map(fn, n) == "Mappings.classes"]
    if not R.anchor("R12.4", "for (src, class) in &mappings.classes", len(loops) == 1 and fm is not None and cm is not None, sp=fo["sp"]):
        R.floor("R12.4", 9)
        return
    loop = loops[0]
    elem = fn.trace(loop["iter"]).plus(("mapiter", "kv"), ("elem",)) if not any(h[0] == "mapiter" for h in fn.trace(loop["iter"]).hops) \
        else fn.trace(loop["iter"]).plus(("elem",))
    key_sig, val_sig = elem.plus(("idx", 0)).sig(), elem.plus(("idx", 1)).sig()
    # nodes: every Node literal of the loop pairs the key and the value of the current entry; what is pushed / inserted is such a node
    nodes = [n for n in H.walk(loop["body"]) if n.get("k") == "struct" and U.short(n.get("adt")) == "Node"]
    okn = len(nodes) >= 1
    for n in nodes:
        fs = {f["name"]: fn.trace(f["e"]).sig() for f in n["fields"]}
        okn = okn and fs.get("src") == key_sig and fs.get("class") == val_sig
    # child placement
    pushes = [n for n in H.walk(loop["body"]) if n.get("k") == "mcall" and n["name"] == "push" and H.recv_root(n["recv"]) and H.recv_root(n["recv"])[0] == cm]
    inserts = [n for n in H.walk(loop["body"]) if n.get("k") == "mcall" and n["name"] in ("insert", "insert_full", "entry") and H.local_of(n["recv"]) and H.local_of(n["recv"])[0] == fm]
    if R.anchor("R12.4", "one child_map push and one file_map insert in the loop", len(pushes) == 1 and len(inserts) == 1, sp=loop.get("sp")):
        push, ins = pushes[0], inserts[0]
        stored = [fn.trace(push["args"][0]), fn.trace(ins["args"][-1])]
        okn = okn and all(c.root[0] == "struct" and any(c.root[1] is n for n in nodes) and not c.hops for c in stored)
        R.inst("R12.4", "node:key-and-value-of-same-entry", okn, sp=loop.get("sp"), expect="Node { src, class } from the (key, value) pair of the loop, stored as it is",
               got=[c.show() for c in stored])
        conds = H.path_conditions(loop["body"], push)
        loop_map = fn.trace(loop["iter"])

        def norm(sig):
            return [h for h in sig if h[:2] != ("call", "filter")]
        parent_sig = norm(key_sig + [("call", "get_inner_class_parent"), ("some",)])

        def parent_like(e):
            sg = norm([h[:2] if h[0] == "call" else h for h in fn.trace(e).sig()])
            return sg == parent_sig

        def is_contains(e):
            e = H.peel(e, refs=False)
            if e.get("k") == "block" and not e["stmts"] and "tail" in e:
                e = H.peel(e["tail"], refs=False)
            if e.get("k") != "mcall" or e["name"] != "contains_key" or len(e["args"]) != 1:
                return False
            rc = fn.trace(e["recv"])
            return rc.sig() == loop_map.sig() and rc.root == loop_map.root and parent_like(e["args"][0])
        parent_bind, has_parent, in_set = None, False, False
        # `match e { Some(p) if g => .. }` establishes the same as `if let Some(p) = e { if g { .. } }`
        conds_n = []
        for kind, cn, pol in conds:
            if kind == "arm":
                arm = cn["arms"][pol]
                conds_n.append(("iflet", {"k": "letexpr", "pat": arm["pat"], "init": cn["scrut"], "sp": arm.get("sp")}, True))
                if "guard" in arm:
                    conds_n.append(("if", arm["guard"], True))
            else:
                conds_n.append((kind, cn, pol))
        for kind, cn, pol in conds_n:
            if kind == "iflet" and pol is True:
                c = fn.trace(cn["init"])
                names = [h[1] for h in c.hops if h[0] == "call"]
                if c.sig()[:len(key_sig)] == key_sig and names in (["get_inner_class_parent"], ["get_inner_class_parent", "filter"]) \
                        and H.pat_variant(cn["pat"]) and H.pat_variant(cn["pat"])[1] == "Some":
                    has_parent = True
                    b = H.pat_bindings(cn["pat"])
                    parent_bind = b[0][0] if len(b) == 1 else None
                    for h in c.hops:
                        if h[:2] == ("call", "filter") and isinstance(h[2], dict) and h[2].get("k") == "closure" and is_contains(h[2]["body"]):
                            in_set = True
            if kind == "if" and pol is True and is_contains(cn):
                in_set = True
        ent = [x for x in H.walk(push["recv"]) if x.get("k") == "mcall" and x["name"] in ("entry", "get_mut", "get")]
        keyed = len(ent) == 1 and H.local_of(ent[0]["args"][0]) is not None and H.local_of(ent[0]["args"][0])[0] == parent_bind
        R.inst("R12.4", "child:only-if-parent-in-set", has_parent and in_set, sp=push.get("sp"),
               expect="the class is listed as a child only if src.get_inner_class_parent() is Some(parent) and mappings.classes.contains_key(parent)",
               got=[(k, H.render(c)[:60], p) for k, c, p in conds])
        R.inst("R12.4", "child:listed-under-parent-key", keyed, sp=push.get("sp"), expect="child_map.entry(parent)...push(node)")
        # exactly one of the two: the insert happens exactly when the push does not (the push branch leaves the iteration, or the
        # insert sits in the complementary branches of the same conditions)
        blk = None
        for a in fn.parents(push):
            if a.get("k") == "block":
                blk = a
                break
        cont = False
        if blk is not None:
            items = blk["stmts"] + ([blk["tail"]] if "tail" in blk else [])
            seen = False
            for st in items:
                if any(x is push for x in H.walk(st)):
                    seen = True
                    continue
                if seen:
                    cont = H.peel(st).get("k") == "continue"
                    break
        ic = H.path_conditions(loop["body"], ins)
        complement = all(any(c2 is cn and p2 is True for k2, c2, p2 in conds) and pol is False for kind, cn, pol in ic)
        order = [id(x) for x in H.walk(loop["body"])]
        after = order.index(id(ins)) > order.index(id(push))
        in_else = bool(ic) and not cont
        R.inst("R12.4", "exactly-one-place", complement and ((cont and after) or (in_else and len(ic) == len(conds))), sp=push.get("sp"),
               expect="push(child) followed by `continue` (or the insert in the else branch); file_map.insert for exactly the other classes",
               got={"continue_after_push": cont, "insert_conditions": [(k, H.render(c)[:50], p) for k, c, p in ic]})
        # file name
        kch = fn.trace(ins["args"][0])
        # the file name computed by a private helper (`file_name_of(src, class)?`): traced inside the helper, its parameters standing for
        # the arguments
        for _ in range(2):
            hs = [h for h in kch.hops if h[0] == "call" and len(h) > 3 and h[3] in q.by_key]
            if len(hs) != 1 or kch.hops[-1] is not hs[0] and kch.hops[-1][0] != "some":
                break
            init = ins["args"][0]
            l0 = H.local_of(init)
            if l0:
                init = H.let_init_of(fn.root, l0[0]) or init
            call = next((x for x in H.walk(init) if x.get("k") == "call" and ((x.get("callee") or {}).get("inst_key") or (x.get("callee") or {}).get("key")) == hs[0][3]), None)
            cb = q.by_key.get(hs[0][3])
            if call is None or not isinstance(cb.get("body"), dict) or len(cb.get("params") or []) != len(call["args"]):
                break
            hfn = U.Fn(q, cb, subst={i: (fn, a) for i, a in enumerate(call["args"])})
            kch = hfn.trace(hfn.root)
        r = U.role_of(kch, q, cx.key_eq)
        calls = [h for h in kch.hops if h[0] == "call"]
        okf = r is not None and r[0] == ("ClassMapping", "names", 1) and len(calls) == 1 and calls[0][1] == "unwrap_or" and isinstance(calls[0][2], U.Chain) \
            and calls[0][2].sig()[:len(key_sig)] == key_sig and not [h for h in calls[0][2].hops if h[0] == "call"]
        R.inst("R12.4", "file-name:dst-or-src", okf, sp=ins.get("sp"), expect="file name = target name, or the source key if there is none", got=kch.show())
        # collision
        par = fn.parent.get(id(ins))
        checked = par is not None and par.get("k") not in ("semi",) and not (par.get("k") == "let" and par["pat"].get("k") == "wild")
        if ins["name"] == "entry":
            checked = True
        R.inst("R12.4", "file-name-collision-rejected", checked, sp=ins.get("sp"),
               expect="the result of file_map.insert(..) is inspected (Some(_) = a second class with the same file name => Err)",
               got="result discarded: the later class silently replaces the earlier one",
               detail="IndexMap::insert overwrites; every class must land in exactly one file")
    # children looked up under the written class's own key
    wt = cx.roles.get("tree_walk")
    if R.anchor("R12.4", "tree walk (the writing function called for every file_map entry)", wt):
        tfn = U.Fn(q, wt)
        gets = [n for n in H.walk(tfn.root) if n.get("k") == "mcall" and n["name"] == "get" and U.is_map_ty(H.peel(n["recv"]).get("tya") or H.peel(n["recv"]).get("ty"))]
        wcalls = [n for n in H.walk(tfn.root) if n.get("k") == "call" and (n.get("callee") or {}).get("key") == cx.wc["key"]]
        ok = len(gets) == 1 and len(wcalls) == 1 and tfn.trace(gets[0]["args"][0]).sig() == tfn.trace(wcalls[0]["args"][0]).sig() and \
            tfn.trace(gets[0]["recv"]).root[:2] == ("param", 1)
        R.inst("R12.4", "children:looked-up-by-own-key", ok, sp=wt["sp"], expect="child_map.get(parent.src) for the node just written")
    # write_one: lookup by file name in the same file_map
    wo = q.fn("write_one", within=EF + "write_one")
    if R.anchor("R12.4", "fn write_one", wo):
        ofn = U.Fn(q, wo)
        gets = [n for n in H.walk(ofn.root) if n.get("k") == "mcall" and n["name"] == "get"]
        ok = len(gets) == 1 and [h for h in ofn.trace(gets[0]["recv"]).hops if h[0] == "f"] == [("f", "Placement", "file_map")] and \
            ofn.trace(gets[0]["args"][0]).root[:2] == ("param", 1)
        R.inst("R12.4", "write_one:by-file-name", ok, sp=wo["sp"], expect="f.file_map.get(dst_class_name)")
    # directory: same extension on both sides
    dw, dr = q.fn("write", within="quill::enigma_dir::write"), dir_read_worker(q)
    if R.anchor("R12.4", "fn enigma_dir::write", dw) and R.anchor("R12.4", "directory reader with the WalkDir", dr):
        # writer and reader may delegate to private functions of the crate (path construction, mapping-file predicate)
        skip = set(b["key"] for b in cx.roles.values() if b)
        wscopes = U12.with_helpers(q, dw, skip=skip)
        wext = [H.const_name(n["args"][0]) for sc, _, _ in wscopes for n in H.walk(sc["body"])
                if n.get("k") == "mcall" and n["name"] in ("set_extension", "with_extension") and len(n["args"]) == 1]
        rext = []
        for sc, _, _ in U12.with_helpers(q, dr, depth=1, skip=skip):
            if sc is not dr and sc.get("output") != "bool":
                continue
            for n in H.walk(sc["body"]):
                if n.get("k") == "bin" and n["op"] in ("==", "!="):
                    for x in H.walk(n):
                        if H.const_name(x):
                            rext.append((H.const_name(x), H.const_value(x)))
        ok = len(wext) == 1 and len(rext) == 1 and wext[0] == rext[0][0] and rext[0][1] == spec["file_extension"]
        R.inst("R12.4", "dir:extension", ok, sp=dw["sp"], expect="set_extension(MAPPING_EXTENSION) / extension == MAPPING_EXTENSION == %r" % spec["file_extension"],
               got={"write": wext, "read": rext})
        # the target path is built from the file name handed to the closure (directly, or in a function the closure calls with it)
        dfn = U.Fn(q, dw)
        joins = []
        for sc, call, caller in wscopes:
            for n in H.walk(sc["body"]):
                if n.get("k") == "mcall" and n["name"] == "join" and "path::Path" in U12.ty_of(n["recv"]):
                    joins.append((n, sc, call, caller))
        okj, gotj = False, [H.render(j[0])[:60] for j in joins]
        if len(joins) == 1:
            jn, sc, call, caller = joins[0]
            site = jn
            if sc is dw:
                a = dfn.trace(jn["args"][0])
            elif caller is dw:
                args = U12.call_args_positional(call)
                a = U.Fn(q, sc, subst={i: (dfn, x) for i, x in enumerate(args)}).trace(jn["args"][0])
                site = call
            else:
                a = None
            cl = [n for n in H.walk(dw["body"]) if n.get("k") == "closure" and any(x is site for x in H.walk(n))]
            pid = [i for c in cl[:1] for p in c["params"] for (i, _) in H.pat_bindings(p)]
            okj = a is not None and bool(pid) and a.root[0] == "cparam" and a.root[1] == pid[0]
            gotj = a.show() if a is not None else gotj
        R.inst("R12.4", "dir:path-from-file-name", okj, sp=dw["sp"], expect="path.join(file_name) with the closure's file name", got=gotj)
    R.floor("R12.4", 9)


def r12_5(q, R, cx):
    R.rule("R12.5", "no Result is discarded in the Enigma reader/writer functions; parse_class inserts only through add_* and "
                    "propagates their error (duplicate source keys are rejected, never merged); each node is built from its own row")
    roles = getattr(cx, "roles", None) or resolve_roles(q, U.Writer(q))
    targets = [("enigma_file::read_into", roles.get("read_into")), ("enigma_file::class-parser", roles.get("parse_class")),
               ("enigma_file::class-writer", roles.get("write_class")), ("enigma_file::placement", roles.get("placement")),
               ("enigma_file::write_all", roles.get("write_all")), ("enigma_file::write_all_for_each", roles.get("write_all_for_each")),
               ("enigma_file::write_one", roles.get("write_one")), ("enigma_file::tree-walk", roles.get("tree_walk")),
               ("enigma_file::read_file_into", q.fn("read_file_into", within=EF)),
               ("enigma_dir::read", q.fn("read", within="quill::enigma_dir::read")),
               ("enigma_dir::write", q.fn("write", within="quill::enigma_dir::write"))]
    helpers = {}
    if cx.ok:
        for rr in cx.rrows.values():
            if rr.get("comment"):
                helpers[rr["comment"]["callee"].body["key"]] = rr["comment"]["callee"].body
    targets.append(("enigma_file::comment-helper", list(helpers.values())[0] if len(helpers) == 1 else None))
    dr = targets[-3][1]
    inner = None
    if dr:
        ks = set((x.get("callee") or {}).get("key") for x in H.walk(dr["body"]) if x.get("k") == "call") & set(q.by_key)
        inner = q.by_key[list(ks)[0]] if len(ks) == 1 else None
    targets.append(("enigma_dir::read-worker", inner))
    for name, b in targets:
        if R.anchor("R12.5", "fn %s" % name, b):
            bad = U.discarded_results(U.Fn(q, b))
            R.inst("R12.5", "no-discarded-result:%s" % name, not bad, sp=(bad[0].get("sp") if bad else b["sp"]),
                   got=[H.render(x)[:80] for x in bad], expect="every Result is propagated with `?`, returned or matched")
    b = q.fn("new", impl_ty="EnigmaLine")
    if b:
        bad = U.discarded_results(U.Fn(q, b))
        R.inst("R12.5", "no-discarded-result:EnigmaLine::new", not bad, sp=b["sp"], got=[H.render(x)[:80] for x in bad])
    if cx.ok:
        pfn = cx.pfn
        direct = [n for n in H.walk(pfn.root) if n.get("k") == "mcall" and n["name"] in ("insert", "entry", "extend", "insert_full", "shift_insert")
                  and U.is_map_ty(H.peel(n["recv"]).get("tya") or H.peel(n["recv"]).get("ty"))]
        R.inst("R12.5", "read:no-direct-insert", not direct, sp=cx.pc["sp"], got=[H.render(n)[:60] for n in direct])
        for key, rr in sorted(cx.rrows.items()):
            if not rr.get("adds"):
                continue
            call = rr["add_call"]
            par = pfn.parent.get(id(call))
            R.inst("R12.5", "read:add-propagates:%s" % rr["adds"], par is not None and par.get("k") == "try", sp=call.get("sp"),
                   expect="%s(..)?" % H.callee_name(call), got=H.render(par)[:80] if par else None)
            arg = call["args"][0] if call.get("k") == "mcall" else call["args"][-1]
            ch = pfn.trace(arg)
            info = cx.info_of.get(cx.maps[rr["adds"]][1])
            built = ch.root[0] == "struct" and U.short(ch.root[1].get("adt")) == info and any(x is ch.root[1] for x in H.walk(rr["body"]))
            R.inst("R12.5", "read:adds-own-row:%s" % rr["adds"], built, sp=call.get("sp"), expect="node built from the %s literal of the same row" % info, got=ch.show())
    R.floor("R12.5", 14 + 9)


# ------------------------------------------------------------------------------------------------ R12.6
def r12_6(q, R, spec):
    R.rule("R12.6", "the text of a row reaches the line record piece by piece: EnigmaLine::new cuts the row with `split(<set>)` (one "
                    "piece between every two separators, empty pieces included), exactly the first piece (the tag) is taken off, and "
                    "every other piece arrives in `fields` unchanged and in order - no adaptor in between that can drop, merge, rewrite "
                    "or reorder pieces; every caller hands the row text over as it was read.  COMMENT rows are rebuilt by joining the "
                    "pieces with the separator (R12.3), so a dropped empty piece is a lost blank of the comment")
    nw = q.fn("new", impl_ty="EnigmaLine")
    if not R.anchor("R12.6", "fn EnigmaLine::new", nw):
        R.floor("R12.6", 6)
        return
    root = nw["body"]
    lits = [n for n in H.walk(root) if n.get("k") == "struct" and U.short(n.get("adt")) == "EnigmaLine"]
    fl = {f["name"]: f["e"] for f in lits[0]["fields"]} if len(lits) == 1 else {}
    if not R.anchor("R12.6", "the one EnigmaLine { first_field, fields, .. } literal of EnigmaLine::new", "fields" in fl and "first_field" in fl, sp=nw["sp"]):
        R.floor("R12.6", 6)
        return
    ops = U12.token_ops(root, fl["fields"])
    seen = {}
    for o in ops:
        seen[o["name"]] = seen.get(o["name"], 0) + 1
        key = "tokens:%s:%s" % ("source" if o["cls"] == "source" else "op", o["name"]) + ("" if seen[o["name"]] == 1 else "#%d" % seen[o["name"]])
        R.inst("R12.6", key, o["cls"] in ("source", "keep", "front"), sp=o["node"].get("sp"),
               expect="split(<separator set>) as the source; afterwards only adaptors that keep every piece (map(to_owned), collect, ..) "
                      "and the removal of the leading tag",
               got=o["why"] or H.render(o["node"])[:100],
               detail="every piece of a COMMENT row, empty ones included, is part of the comment text: `a  b` is cut into [a, \"\", b] "
                      "and joined back with the separator")
    srcs = [o for o in ops if o["cls"] == "source"]
    front = sum(o["n"] for o in ops if o["cls"] == "front")
    unknown = [o for o in ops if o["cls"] == "unknown"]
    R.inst("R12.6", "tokens:one-split-source", len(srcs) == 1 and ops and ops[0] is srcs[0] and not unknown, sp=nw["sp"],
           expect="`fields` is fed by exactly one `<row text>.split(..)`", got=[(o["name"], o["cls"]) for o in ops])
    R.inst("R12.6", "tokens:only-the-tag-removed", front == 1, sp=nw["sp"], expect="exactly one leading piece (the tag) is taken off the sequence",
           got="%d leading pieces removed" % front)
    org = U12.first_piece_origin(root, fl["first_field"])
    taken = [o["node"] for o in ops if o["cls"] == "front" and o["name"] != "skip"]
    ok_tag = org is not None and any(org is t for t in taken)
    if not ok_tag and org is not None and [o for o in ops if o["name"] == "skip" and o["n"] == 1]:
        # `first_field` from its own `split(..).next()` over the same text, `fields` from `split(..).skip(1)`
        o2 = U12.token_ops(root, org["recv"])
        ok_tag = len(o2) >= 1 and o2[0]["cls"] == "source" and srcs and H.local_of(o2[0]["node"]["recv"]) == H.local_of(srcs[0]["node"]["recv"]) \
            and H.render(o2[0]["node"]["args"][0]) == H.render(srcs[0]["node"]["args"][0]) and all(o["cls"] in ("source", "keep") for o in o2)
    R.inst("R12.6", "tokens:tag-is-the-removed-piece", ok_tag, sp=nw["sp"], expect="first_field is the piece taken off the front of the same sequence",
           got=H.render(org)[:80] if org else None)
    # callers
    n_call = 0
    for b in q.bodies:
        for n in H.walk(b["body"]):
            if n.get("k") == "call" and (n.get("callee") or {}).get("key") == nw["key"] and len(n["args"]) == 2:
                n_call += 1
                ok, calls = U12.raw_text_arg(n["args"][1])
                R.inst("R12.6", "row-text-unchanged:%s" % b["path"].replace("quill::", "", 1), ok, sp=n.get("sp"),
                       expect="EnigmaLine::new(n, &<the line as read>)", got=calls or H.render(n["args"][1])[:60])
    R.anchor("R12.6", "a caller of EnigmaLine::new", n_call >= 1, sp=nw["sp"])
    R.floor("R12.6", 6)


# ------------------------------------------------------------------------------------------------ R12.7
def r12_7(q, R, spec):
    R.rule("R12.7", "directory walk: the reader walks the tree below the path it is given without restriction (no depth limit, no "
                    "entry filter, no skipped or truncated prefix); between WalkDir::new and the call that reads a file an entry is "
                    "kept whenever it is not a directory and its extension is the mapping extension, and never when it is a directory; a filter_entry predicate "
                    "holds for every directory and every mapping file; the writer puts that extension on every file it creates")
    rd = dir_read_worker(q)
    if not R.anchor("R12.7", "directory reader (enigma_dir::read or the function it delegates to) with the WalkDir", rd):
        R.floor("R12.7", 4)
        return
    root = rd["body"]
    news = [n for n in H.walk(root) if n.get("k") == "call" and (H.callee_path(n) or "").endswith("WalkDir::new")]
    if not R.anchor("R12.7", "exactly one WalkDir::new(..) in the directory reader", len(news) == 1, sp=rd["sp"]):
        R.floor("R12.7", 4)
        return
    new = news[0]
    # ---- root of the walk: the path parameter
    pids = H.param_ids(rd)
    a = H.peel(new["args"][0], tries=True)
    calls = []
    for _ in range(6):
        if a.get("k") == "mcall" and not a["args"]:
            calls.append(a["name"])
            a = H.peel(a["recv"], tries=True)
        elif H.local_of(a) and H.local_of(a)[0] not in pids and H.let_init_of(root, H.local_of(a)[0]) is not None:
            a = H.peel(H.let_init_of(root, H.local_of(a)[0]), tries=True)
        else:
            break
    loc = H.local_of(a)
    R.inst("R12.7", "dir-walk:root-is-the-given-path", loc is not None and loc[0] in pids and all(c in U12.PATH_CONV for c in calls), sp=new.get("sp"),
           expect="WalkDir::new(<path parameter>)", got=H.render(new["args"][0])[:80])
    # ---- stages
    M = U12.WalkModel(q, spec["file_extension"])
    stages, term = U12.climb(root, new)
    keep = []                 # conjuncts of "the entry reaches the reading call"
    terminal = None
    seen = {}
    readers = set(b["key"] for b in [q.fn("read_file_into", within=EF), q.fn("read_into", within=EF + "read_into")] if b)

    def closure_arg(node):
        cls = [H.peel(x) for x in node["args"] if H.peel(x).get("k") == "closure"]
        return cls[-1] if cls else None

    for name, node in stages:
        if terminal is not None:
            break
        seen[name] = seen.get(name, 0) + 1
        key = "dir-walk:stage:%s" % name + ("" if seen[name] == 1 else "#%d" % seen[name])
        cp = (node.get("callee") or {}).get("path") or ""
        sp = node.get("sp")
        if cp.startswith("walkdir::WalkDir::") and name != "into_iter":
            ok = name in U12.WALK_BUILDER_OK or (name == "min_depth" and isinstance(H.const_value(node["args"][0]), int) and H.const_value(node["args"][0]) <= 1)
            R.inst("R12.7", key, ok, sp=sp, expect="walk options that do not restrict the set of entries (sort_by*, follow_links, max_open, ..)",
                   got=H.render(node)[-70:], detail="classes live in packages at any depth; every file below the root has to be visited")
        elif name == "filter_entry":
            cl = closure_arg(node)
            f = M.F(cl["body"]) if cl else M.opaque(node)
            keep.append(f)
            ok1, cex1 = U12.implies(("atom", "is_dir"), f, U12.entry_constraint)
            ok2, cex2 = U12.implies(("and", ("not", ("atom", "is_dir")), ("atom", "ext")), f, U12.entry_constraint)
            ok = ok1 and ok2
            R.inst("R12.7", "dir-walk:filter_entry-keeps-directories-and-mapping-files", ok, sp=sp,
                   expect="predicate true for every directory (filter_entry also prunes the subtree, and it is applied to the root) and every mapping file",
                   got={"predicate": B.show(f), "directory that is pruned (with everything below it)": cex1, "mapping file that is skipped": cex2},
                   detail="WalkDir::filter_entry skips the entry and, for a directory, everything below it; depth 0 (the path handed to read) is filtered too")
        elif name == "filter":
            cl = closure_arg(node)
            f = M.F(cl["body"]) if cl else M.opaque(node)
            keep.append(f)
            R.inst("R12.7", key, True, sp=sp, nontrivial=False, got=B.show(f))
        elif name == "filter_map":
            cl = closure_arg(node)
            f = M.Y(cl["body"]) if cl else M.opaque(node)
            keep.append(f)
            R.inst("R12.7", key, True, sp=sp, nontrivial=False, got=B.show(f))
        elif name in U12.ITER_TERMINAL:
            terminal = ("closure", closure_arg(node), node)
            R.inst("R12.7", key, terminal[1] is not None, sp=sp, nontrivial=False)
        elif name in U12.ITER_PASS:
            R.inst("R12.7", key, True, sp=sp, nontrivial=False)
        else:
            R.inst("R12.7", key, False, sp=sp, expect="between WalkDir::new and the reading loop only sort/into_iter/map/inspect and filters that are "
                   "accounted for in dir-walk:every-mapping-file-read", got=H.render(node)[-70:],
                   detail="`%s` can remove entries from the walk" % name)
    if terminal is None and term and term[0] == "for":
        terminal = ("for", term[1]["body"], term[1])
    if R.anchor("R12.7", "reading loop of the walk (for / try_fold / try_for_each over the entries)", terminal is not None and terminal[1] is not None, sp=rd["sp"]):
        scope = terminal[1]["body"] if terminal[0] == "closure" else terminal[1]
        calls = [n for n in H.walk(scope) if n.get("k") == "call" and (n.get("callee") or {}).get("key") in readers]
        if R.anchor("R12.7", "exactly one call of enigma_file::read_file_into / read_into in the reading loop", len(calls) == 1, sp=terminal[2].get("sp")):
            keep.extend(M.reach(scope, calls[0]))
            K = U12.conj(keep)
            ref = ("and", ("not", ("atom", "is_dir")), ("atom", "ext"))
            ok, cex = U12.implies(ref, K, U12.entry_constraint)
            R.inst("R12.7", "dir-walk:every-mapping-file-read", ok, sp=calls[0].get("sp"),
                   expect="!is_dir && extension == %r  =>  the entry reaches the reading call" % spec["file_extension"],
                   got={"read when": B.show(K), "mapping file that is skipped": cex},
                   detail="the writer creates <root>/<package dirs>/<Class>.%s for every top-level class; each of them has to reach the "
                          "reader whatever its name or depth" % spec["file_extension"])
            ok, cex = U12.implies(K, ("not", ("atom", "is_dir")), U12.entry_constraint)
            R.inst("R12.7", "dir-walk:no-directory-read", ok, sp=calls[0].get("sp"), expect="a directory (the root, a package) is never handed to the file reader",
                   got={"read when": B.show(K), "directory that is read": cex})
    # ---- writer: the extension is put on every created file
    dw = q.fn("write", within="quill::enigma_dir::write")
    if R.anchor("R12.7", "fn enigma_dir::write", dw):
        scopes = U12.with_helpers(q, dw, skip=set(b["key"] for b in resolve_roles(q, U.Writer(q)).values() if b))
        creates = [(n, sc) for sc, _, _ in scopes for n in H.walk(sc["body"])
                   if n.get("k") == "call" and (H.callee_path(n) or "").endswith(("File::create", "File::create_new"))]
        ok, got = False, {"File::create calls": len(creates)}
        if len(creates) == 1:
            cr, csc = creates[0]
            bw = U12.built_where(q, csc, cr["args"][0])
            got = {"File::create of": H.render(cr["args"][0])[:40], "built in": None}
            if bw is not None:
                owner, lid, followed = bw
                # the extension is put on the local by `x.set_extension(e)` or in its initialiser `<path>.with_extension(e)`
                sets = [n for n in H.walk(owner["body"]) if n.get("k") == "mcall" and n["name"] == "set_extension"
                        and H.local_of(n["recv"]) and H.local_of(n["recv"])[0] == lid]
                init = H.let_init_of(owner["body"], lid)
                x = H.peel(init, tries=True) if init is not None else {}
                while x.get("k") == "mcall":
                    if x["name"] == "with_extension" and len(x["args"]) == 1:
                        sets.append(x)
                    x = H.peel(x["recv"], tries=True)
                got["built in"] = owner["path"]
                got["set_extension / with_extension on it"] = len(sets)
                if len(sets) == 1:
                    # unconditional where it stands, and every call that hands the path on is unconditional in its caller
                    conds = [c for c in H.path_conditions(owner["body"], sets[0]) if c[0] != "after-exit"]
                    for call, caller in followed:
                        conds += [c for c in H.path_conditions(caller["body"], call) if c[0] != "after-exit"]
                    before = True
                    if owner is csc:
                        order = [id(x) for x in H.walk(owner["body"])]
                        before = order.index(id(sets[0])) < order.index(id(cr))
                    ok = not conds and before and H.const_value(sets[0]["args"][0]) == spec["file_extension"]
                    got["conditions"] = [(k, H.render(c)[:50], p) for k, c, p in conds]
                    got["before File::create"] = before
        R.inst("R12.7", "dir-write:extension-on-every-file", ok, sp=dw["sp"],
               expect="target.set_extension(MAPPING_EXTENSION) (or <path>.with_extension(..)) unconditionally, before File::create(&target); the path may be built in a function of the crate", got=got)
    R.floor("R12.7", 4)
