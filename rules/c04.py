"""C04 — applying a mapping diff is exact; diff and apply are inverse (necessary conditions).

Handler tables per `Action` variant (pattern-matrix evaluation of the program text with lib/tables.py through
lib/c04_util.PathEval), guard dominance on the success path, level alignment of `apply_to` / `diff` /
`tiny_v2_diff::read`, and the `Action` codec tables.  Oracle: spec/c04_tables.json."""
import json
import os

from lib import hir as H
from lib import tables as T
from lib import c04_util as U

SPEC = os.path.join(os.path.dirname(os.path.dirname(os.path.abspath(__file__))), "spec", "c04_tables.json")
ACTION = "quill::tree::mappings_diff::action::Action"

# gen_diff_javadoc / gen_diff_names / TinyLine::action and apply_diff_option's old-value guards decide with `==` of the model types: that
# equality being structural (derived, or field-wise) is decided by C09 R09.1 equality-is-structural (seed C09-13: comments compared
# with trailing white space trimmed - diff(A, B) is then empty although A != B)
PREMISES = [("C09", ["R09.1:equality-is-structural"])]

CLAIM = {
    "text": "Decided for quill's diff machinery, by pattern-matrix evaluation of the type-checked HIR for every Action variant "
            "(None/Add/Remove/Edit) against spec/c04_tables.json: (R04.1) apply_diff_map handles the three key cases with the "
            "stated handler per variant (12 cells: which change_name(from,to) is issued and `?`-propagated on the target's own names in the "
            "target namespace, whether the node is stored and that the stored value is apply_child(diff,target); creation from the key "
            "for an addition, Err for every other variant on a missing target; applied diffs are consumed and the rest loop runs over "
            "the remainder); (R04.2) Names::change_name / Namespaces::change_name replace the slot only after `ns != 0` and `old == from` "
            "guards, apply_diff_option's 8 cells incl. the `target == a` guard of Remove/Edit, every direct slot store is guarded by ns != 0; "
            "(R04.3) gen_diff_javadoc / gen_diff_names (16 cells), zip_map / zip_map_combination / Combination::map side tables, "
            "diff() builds AB(a,b) in parameter order, refuses different namespaces, diffs namespace index 1; (R04.4) TinyLine::action "
            "and action_string tables (empty = absent, equal = None) agree with Action::from_tuple, to_tuple∘from_tuple = id, flip is "
            "an involution and equals from_tuple∘swap∘to_tuple, as_ref/is_diff tables; (R04.5) apply_to: at each of the 5 levels info is "
            "moved unchanged, javadoc goes through apply_diff_option(&diff.javadoc, x.javadoc) of the same level, every child map through "
            "apply_diff_map(ns, &diff.F, x.F) of the same name and level with the namespace resolved from the `namespace` argument; "
            "top-level info table; (R04.6) tiny_v2_diff::read stores the line's action as info and the comment action into the javadoc of "
            "the same level on all four levels (one comment only), MappingsDiff::diff fills info/javadoc/children from the same level; "
            "(R04.7) NodeInfo::new of the 9 node types stores info with no javadoc and empty children, FromKey::from_key puts the key's name "
            "into the first namespace only, mappings_diff::add_child refuses a duplicate key. Also: the public wrapper quill::apply_diff_option is the internal function on every path (no successful exit before the delegation); every successful return of change_name is dominated by the old-value check (no early Ok); the generated diff is returned unpruned or pruned by a predicate over info, javadoc and every child map; tiny_v2_diff::read hands the physical line to the tokeniser verbatim (closure, nested fn item or private helper). Normal forms: `while let Some(p) = it.next()` is the `for` loop it desugars from; the `match (a, b)` of TinyLine::action may live in a private helper that is inlined; further parameters of gen_diff_names / gen_diff_javadoc stand for the one constant every call site of the crate passes.",
    "note": "Not decided: apply(diff(A,B),A) = B for all A,B, equality through the textual .tinydiff form (there is no tinydiff writer "
            "in the tree), atomicity of refusal beyond the local result map, IndexMap ordering effects of swap_remove. "
            "Trusted: rustc HIR/typeck/const-eval; spec/c04_tables.json (transcribed from the property statement and doc comments).",
    "technique": "static analysis: decision/handler-table extraction by pattern-matrix evaluation, success-path guard dominance, "
                 "structure-preserving-map conformance (level alignment) on typed HIR",
}


def run(F, R, tier):
    with open(SPEC) as f:
        spec = json.load(f)
    q = F.crate("quill")
    r04_1(q, R, spec)
    r04_2(q, R, spec)
    r04_3(q, R, spec)
    r04_4(q, R, spec)
    r04_5(q, R, spec)
    r04_6(q, R, spec)
    r04_7(q, R, spec)
    return ("A5 handler tables of apply_diff_map / apply_diff_option / gen_diff_* / TinyLine::action / Action codec / node constructors by "
            "pattern-matrix evaluation over the four Action variants; A6 success-path guard dominance in change_name; A4 level alignment of "
            "apply_to, diff and tiny_v2_diff::read; oracle spec/c04_tables.json")


# ------------------------------------------------------------------------------------ helpers
def S(name):
    return T.sym("$" + name)


def action_value(variant):
    return {"None": T.V("None"), "Add": T.V("Add", S("b")), "Remove": T.V("Remove", S("a")),
            "Edit": T.V("Edit", S("a"), S("b"))}[variant]


def showv(v):
    return T.show(v) if isinstance(v, tuple) else v


def strip(s):
    """'$a' -> 'a' in rendered values (spec tables use plain a / b / t)."""
    return s.replace("$", "")


def fn_in(c, name, within=None, impl_ty=None):
    return c.fn(name, within=within, impl_ty=impl_ty)


def interesting_nodes(body, names):
    out = []
    for n in H.walk(body):
        if n.get("k") in ("call", "mcall") and (H.callee_name(n) in names or ((n.get("callee") or {}).get("name") in names)):
            out.append(n)
        elif n.get("k") == "assign":
            out.append(n)
    return out


def module_helpers(c, module, exclude):
    """Private helper functions of `module` (inlined by the evaluator, depth <= 2), except the anchored ones."""
    out = {}
    for b in c.bodies:
        if b.get("name") and b["path"].startswith(module) and b["key"] not in exclude and b.get("params") is not None and "body" in b:
            if b["path"][len(module):].count("::") == 0:
                out[b["key"]] = b
    return out


def same_term(a, b):
    """Same evaluation of the same call (nid) or structurally equal value."""
    if U.kind_of(a) == "call" and U.kind_of(b) == "call" and a[4] is not None:
        return a[4] == b[4]
    return a == b


# ------------------------------------------------------------------------------------ R04.1
REMOVERS = ("swap_remove", "shift_remove", "remove")
LOOKUPS = REMOVERS + ("get", "get_mut")


def r04_1(q, R, spec):
    rid = "R04.1"
    R.rule(rid, "apply_diff_map: key in both -> Add: change_name(None,Some(b))?+store child; Remove: change_name(Some(a),None)?, not stored; "
                "Edit: change_name(Some(a),Some(b))?+store child; None: store child; key only in target -> stored unchanged; key only in "
                "diff -> Add: created from the key with names[ns]=Some(b), child diffs applied, stored; any other action -> Err. change_name "
                "acts on the target's own names in the target namespace; the stored child is apply_child(diff, target)?; applied diffs are "
                "removed from the pending set and the second loop runs over that set; the result map is what is returned")
    r04_1.slot_store = {}
    fn = fn_in(q, "apply_diff_map", within="apply_diff")
    if not R.anchor(rid, "fn apply_diff_map", fn):
        return
    pids = H.param_ids(fn)
    if not R.anchor(rid, "apply_diff_map(target_namespace, diffs, targets, apply_child)", len(pids) == 4, sp=fn["sp"]):
        return
    anchored = {b["key"] for b in q.bodies if b.get("name") in ("apply_diff_map", "apply_diff_option", "apply_to") and "apply_diff" in b["path"]}
    helpers = module_helpers(q, "quill::action::apply_diff::", anchored)
    loops = []

    def collect(pe, n, env):
        if n.get("k") == "for" and pe.cond_depth == 0:
            loops.append((n, dict(env)))
            return T.sym("<loop>")
        return None

    pe0 = U.PathEval(for_hook=collect, inline=helpers)
    out0, env0 = pe0.run_body(fn, [S("ns"), S("diffs"), S("targets"), S("apply_child")])
    res0 = U.outcome_value(out0)
    if not R.anchor(rid, "two top-level `for` loops (targets, remaining diffs)", len(loops) == 2, sp=fn["sp"]):
        return
    # classify loops by what they iterate
    it = []
    for n, env in loops:
        v = U.PathEval().run(n["iter"], dict(env))
        it.append(v[1] if v[0] == "ok" else T.sym("?"))
    t_idx = [i for i, v in enumerate(it) if "$targets" in T.show(v)]
    d_idx = [i for i, v in enumerate(it) if "$diffs" in T.show(v) and "$targets" not in T.show(v)]
    if not R.anchor(rid, "loop over `targets` followed by loop over the pending diffs", t_idx == [0] and d_idx == [1], sp=fn["sp"]):
        return
    (l1, env1), (l2, env2) = loops
    results = res0[1] if res0[0] == "ok" else None
    R.inst(rid, "returns-result-map", results is not None and U.is_call(results, "new", "default", "with_capacity"), sp=fn["sp"],
           got=showv(results) if results else res0[0], expect="Ok(<the map the loops insert into>)")
    pending = U.peel_term(it[1], "into_iter", "iter", "drain")       # the collection loop 2 runs over

    seen = set()
    child_id = pids[3]

    def analyse(pe, out, key, diffv, targetv):
        """-> dict describing the cell."""
        d = {"outcome": "Err" if U.outcome_value(out)[0] == "err" else "ok"}
        cn = []
        for e in pe.calls_named("change_name"):
            a = e["args"]
            recv = U.peel_term(a[0], "get_names_mut", "get_node_info_mut", "get_names", "get_node_info")
            cn.append({"from_to": [strip(T.show(a[2])), strip(T.show(a[3]))] if len(a) == 4 else None,
                       "ns": T.show(a[1]) if len(a) > 1 else None, "on": T.show(recv), "tried": e["tried"], "cond": e["cond"]})
        d["change_name"] = cn
        ins = []
        for e in pe.calls_named("insert"):
            a = e["args"]
            if results is None or not same_term(a[0], results):
                continue
            val = a[2] if len(a) > 2 else None
            kind = "other"
            if val is not None and val == targetv:
                kind = "target"
            elif val is not None and U.kind_of(val) == "call":
                ce = pe.by_nid.get(val[4])
                if ce and ce.get("local") is not None and ce["name"] == "$apply_child":
                    kind = "child" if ce["tried"] else "child-unpropagated"
                    d["child_args"] = [T.show(x) for x in ce["args"]]
            ins.append({"key": T.show(a[1]) if len(a) > 1 else None, "value": kind, "cond": e["cond"]})
        d["insert"] = ins
        d["opaque"] = sum(1 for e in pe.trace if e["kind"] in ("opaque", "loop"))
        seen.update(pe.seen)
        return d

    # ---- loop 1: key in targets
    def run_l1(present, variant):
        env = dict(env1)
        T.match_pat(l1["pat"], ("t", [S("key"), S("target")]), env)
        lookups = []

        def look(args, n, pe):
            lookups.append((H.callee_name(n), args))
            return T.V("Some", S("diff")) if present else T.V("None")

        hooks = {nm: look for nm in LOOKUPS}
        hooks["get_node_info"] = lambda args, n, pe: action_value(variant) if args and args[0] == S("diff") else None
        pe = U.PathEval(hooks=hooks, inline=helpers)
        out = pe.run(l1["body"], env)
        return pe, out, lookups

    for variant in spec["actions"]:
        want = spec["apply_map_both"][variant]
        pe, out, lookups = run_l1(True, variant)
        d = analyse(pe, out, S("key"), S("diff"), S("target"))
        exp_cn = [] if want["change_name"] is None else [{"from_to": want["change_name"], "ns": "$ns", "on": "$target", "tried": True, "cond": 0}]
        exp_ins = [] if want["stored"] is None else [{"key": "$key", "value": want["stored"], "cond": 0}]
        ok = (d["outcome"] == "ok" and d["change_name"] == exp_cn and d["insert"] == exp_ins and d["opaque"] == 0
              and (want["stored"] is None or d.get("child_args") == ["$diff", "$target"]))
        R.inst(rid, "both:%s" % variant, ok, sp=l1["sp"],
               expect={"change_name": exp_cn, "insert": exp_ins, "child_args": ["$diff", "$target"] if want["stored"] else None},
               got=d, detail="key present in target and diff, diff action %s" % variant)
        if variant == "None":
            lk = [(nm, a) for nm, a in lookups]
            ok_l = (len(lk) == 1 and lk[0][0] in REMOVERS and len(lk[0][1]) == 2 and same_term(lk[0][1][0], pending)
                    and lk[0][1][1] == S("key"))
            R.inst(rid, "both:lookup-consumes-diff", ok_l, sp=l1["sp"], got=[(nm, [T.show(x) for x in a]) for nm, a in lk],
                   expect="<pending diffs>.swap_remove(&key): an applied diff must not be seen again by the only-in-diff loop",
                   detail="the lookup must remove the entry from the same collection the second loop iterates (%s)" % T.show(pending))
    pe, out, _ = run_l1(False, "None")
    d = analyse(pe, out, S("key"), S("diff"), S("target"))
    ok = d["outcome"] == "ok" and not d["change_name"] and d["insert"] == [{"key": "$key", "value": "target", "cond": 0}] and d["opaque"] == 0
    R.inst(rid, "only-in-target", ok, sp=l1["sp"], expect={"insert": [{"key": "$key", "value": "target"}]}, got=d,
           detail="no diff for the key: the entry is kept unchanged")

    # ---- loop 2: key only in diffs
    slot_store = {}
    for variant in spec["actions"]:
        want = spec["apply_map_only_diff"][variant]
        env = dict(env2)
        T.match_pat(l2["pat"], ("t", [S("key"), S("diff")]), env)
        hooks = {"get_node_info": lambda args, n, pe, variant=variant: action_value(variant) if args and args[0] == S("diff") else None}
        pe = U.PathEval(hooks=hooks, inline=helpers)
        out = pe.run(l2["body"], env)
        d = analyse(pe, out, S("key"), S("diff"), None)
        if want == "Err":
            ok = d["outcome"] == "Err" and not d["insert"] and d["opaque"] == 0
            R.inst(rid, "only-in-diff:%s" % variant, ok, sp=l2["sp"], expect="Err, nothing stored", got=d,
                   detail="no target for the key: only an addition is possible")
            continue
        # creation
        created = [e for e in pe.calls_named("from_key")]
        info = created[0].get("value") if len(created) == 1 else None
        ok_key = info is not None and [T.show(x) for x in created[0]["args"]] == ["$key"]
        # name of the target namespace := Some(b), by direct store or by change_name(None, Some(b))?
        stores = []
        for e in pe.trace:
            if e["kind"] == "assign" and U.kind_of(e["l"]) == "idx":
                base, idx = e["l"][3]
                base = U.peel_term(base, "get_names_mut", "get_node_info_mut")
                stores.append({"how": "store", "on_created": info is not None and same_term(base, info), "ns": T.show(idx),
                               "value": strip(T.show(e["r"])), "cond": e["cond"], "event": e})
        for cn in d["change_name"]:
            stores.append({"how": "change_name", "on_created": info is not None and cn["on"] == T.show(info), "ns": cn["ns"],
                           "value": cn["from_to"][1] if cn["from_to"] and cn["from_to"][0] == "None" and cn["tried"] else "?", "cond": cn["cond"]})
        ok_store = len(stores) == 1 and stores[0]["on_created"] and stores[0]["ns"] == "$ns" and stores[0]["value"] == "Some(b)" and stores[0]["cond"] == 0
        # node = Target::new(info); node = apply_child(diff, node)?; results.insert(key, node)
        news = [e for e in pe.calls_named("new") if info is not None and len(e["args"]) == 1 and same_term(e["args"][0], info)]
        node = news[0].get("value") if len(news) == 1 else None
        childs = [e for e in pe.trace if e["kind"] == "call" and e.get("local") is not None and e["name"] == "$apply_child"]
        ok_child = (len(childs) == 1 and childs[0]["tried"] and len(childs[0]["args"]) == 2 and childs[0]["args"][0] == S("diff")
                    and node is not None and same_term(childs[0]["args"][1], node))
        ok_ins = d["insert"] == [{"key": "$key", "value": "child", "cond": 0}]
        ok = d["outcome"] == "ok" and ok_key and ok_store and ok_child and ok_ins and d["opaque"] == 0
        got = dict(d)
        got.update({"from_key": [[T.show(x) for x in e["args"]] for e in created],
                    "name": [{k: v for k, v in s.items() if k != "event"} for s in stores], "new(info)": len(news), "child_ok": ok_child})
        R.inst(rid, "only-in-diff:Add", ok, sp=l2["sp"], got=got,
               expect="info = from_key(key); names(info)[ns] = Some(b); node = new(info); node = apply_child(diff, node)?; insert(key, node)",
               detail="an addition without target creates the entry from the key and applies the child diffs to it")
        slot_store["stores"] = stores
        slot_store["pe"] = pe
    # loop 2 runs over what loop 1 removed from
    R.inst(rid, "only-in-diff:iterates-pending", U.kind_of(pending) == "call" and "$diffs" in T.show(pending), sp=l2["sp"], got=T.show(pending))
    # fail closed: every insert / change_name / assignment in the function was reached by some cell
    for n in interesting_nodes(fn["body"], ("insert", "change_name", "apply_child", "from_key")):
        if id(n) not in seen and id(n) not in pe0.seen:
            R.unrecognised(rid, "apply_diff_map", "`%s` is not on any evaluated path of the handler table" % H.render(n)[:120], sp=n.get("sp"))
    R.floor(rid, 12)
    r04_1.slot_store = slot_store


# ------------------------------------------------------------------------------------ R04.2
def _no_early_success(R, rid, who, pe, fn):
    """Every *successful* return of a change_name is dominated by the old-value check: an early `return Ok(..)` / conditional success branch
    that leaves (or forks) before the comparison `self[namespace] == from` accepts a diff whose stated old value does not fit (seed C04-4)."""
    early = []
    for e in pe.trace:
        if e["kind"] == "guard" and e["cond"] == 0 and e["canon"] == ("eq", "$from", "$self[$ns]"):
            break
        if e["kind"] in ("skip", "opaque"):
            early.append(e)
    R.inst(rid, "%s:no-success-exit-before-old-value-check" % who, not early, sp=(early[0]["node"].get("sp") if early else fn["sp"]),
           expect="no branch returns successfully before `self[namespace] == from` has been checked",
           got=[H.render(e["node"])[:160] for e in early],
           detail="a diff states the old value; a path that answers Ok without comparing it applies the diff to a target it does not fit")


def r04_2(q, R, spec):
    rid = "R04.2"
    R.rule(rid, "old-value checks dominate every mutation: Names::change_name replaces the slot of `namespace` by `to` only after "
                "`namespace != 0` and `self[namespace] == from` (otherwise Err); Namespaces::change_name only after `self[namespace] == from`; "
                "apply_diff_option: None keeps the target, Add needs an absent target, Remove/Edit need a present target equal to `a`; "
                "a direct store into a names slot is guarded by namespace != 0")
    # -- Names::change_name
    fn = fn_in(q, "change_name", impl_ty="names::Names<")
    if R.anchor(rid, "fn Names::change_name", fn):
        pe = U.PathEval()
        out, env = pe.run_body(fn, [S("self"), S("ns"), S("from"), S("to")])
        reps = pe.calls_named("replace")
        ok_one = len(reps) == 1 and reps[0]["cond"] == 0 and reps[0]["path"].endswith("mem::replace")
        R.inst(rid, "Names::change_name:single-replace", ok_one and U.outcome_value(out)[0] == "ok", sp=fn["sp"],
               got=[T.show(x) for e in reps for x in e["args"]])
        if ok_one:
            g = pe.guards(before=reps[0])
            a = reps[0]["args"]
            R.inst(rid, "Names::change_name:slot", T.show(a[0]) == "$self[$ns]" and T.show(a[1]) == "$to", sp=fn["sp"],
                   expect="mem::replace(&mut self[namespace], to.cloned())", got=[T.show(x) for x in a])
            R.inst(rid, "Names::change_name:guard-first-namespace", ("ne", "$ns.0", "0") in g or ("ne", "0", "$ns.0") in g or (">", "$ns.0", "0") in g or ("<", "0", "$ns.0") in g,
                   sp=fn["sp"], expect="namespace.0 != 0 before the replace", got=g,
                   detail="namespace 0 is the key namespace and must stay in sync with the map keys")
            R.inst(rid, "Names::change_name:guard-old-value", ("eq", "$from", "$self[$ns]") in g, sp=fn["sp"],
                   expect="self[namespace].as_ref() == from before the replace", got=g,
                   detail="a stated old value that does not match the target must refuse the application")
        mut_other = [e for e in pe.trace if e["kind"] in ("assign", "assignop")]
        R.inst(rid, "Names::change_name:no-other-mutation", not mut_other, sp=fn["sp"], got=[H.render(e["node"]) for e in mut_other])
        _no_early_success(R, rid, "Names::change_name", pe, fn)
    # -- Namespaces::change_name
    fn = fn_in(q, "change_name", impl_ty="names::Namespaces<")
    if R.anchor(rid, "fn Namespaces::change_name", fn):
        pe = U.PathEval()
        out, env = pe.run_body(fn, [S("self"), S("ns"), S("from"), S("to")])
        reps = pe.calls_named("replace")
        ok_one = len(reps) == 1 and reps[0]["cond"] == 0
        R.inst(rid, "Namespaces::change_name:single-replace", ok_one and U.outcome_value(out)[0] == "ok", sp=fn["sp"])
        if ok_one:
            g = pe.guards(before=reps[0])
            a = reps[0]["args"]
            R.inst(rid, "Namespaces::change_name:slot", T.show(a[0]) == "$self[$ns]" and T.show(a[1]) == "$to", sp=fn["sp"], got=[T.show(x) for x in a])
            R.inst(rid, "Namespaces::change_name:guard-old-value", ("eq", "$from", "$self[$ns]") in g, sp=fn["sp"], got=g,
                   expect="self[namespace] == from before the replace")
        _no_early_success(R, rid, "Namespaces::change_name", pe, fn)
    # -- apply_diff_option
    fn = fn_in(q, "apply_diff_option", within="apply_diff::")
    if R.anchor(rid, "fn apply_diff::apply_diff_option", fn):
        for variant in spec["actions"]:
            for tname, tv in (("absent", T.V("None")), ("present", T.V("Some", S("t")))):
                want = spec["apply_option"]["%s/%s" % (variant, tname)]
                pe = U.PathEval(inline=module_helpers(q, "quill::action::apply_diff::", {fn["key"]}))
                out, env = pe.run_body(fn, [action_value(variant), tv])
                o = U.outcome_value(out)
                if o[0] == "err":
                    got = {"result": "Err"}
                else:
                    val = o[1]
                    txt = strip(T.show(val))
                    if val == tv:
                        txt = "target"
                    got = {"result": txt}
                    g = [x for x in pe.guards()]
                    if g:
                        got["guard"] = sorted(strip(s) for s in g[0][1:]) if len(g) == 1 and g[0][0] == "eq" else [str(x) for x in g]
                opq = [e for e in pe.trace if e["kind"] in ("opaque", "loop")]
                R.inst(rid, "apply_diff_option:%s/%s" % (variant, tname), got == want and not opq, sp=fn["sp"], expect=want, got=got,
                       detail="diff action %s on %s target" % (variant, tname))
    pub = q.body("quill::apply_diff_option")
    if R.anchor(rid, "fn quill::apply_diff_option (public wrapper)", pub):
        pe = U.PathEval()
        out, env = pe.run_body(pub, [S("diff"), S("target")])
        o = U.outcome_value(out)
        v = o[1] if len(o) > 1 else None
        ok = v is not None and U.is_call(v, "apply_diff_option") and [T.show(x) for x in U.call_args(v)] == ["$diff", "$target"]
        e = pe.calls_named("apply_diff_option")
        ok = ok and len(e) == 1 and (e[0]["path"] or "").endswith("apply_diff::apply_diff_option")
        # ... on every path: no successful exit before the delegation (seed C04-13: `if target == b { return Ok(target) }` skips the
        # old-value check for a repeated Add / a stale Edit)
        early = H.success_returns(pub["body"])
        R.inst(rid, "apply_diff_option:public-wrapper-delegates", ok and not early, sp=(early[0].get("sp") if early else pub["sp"]),
               got=showv(v) if not early else ["early success exit `%s`" % H.render(x)[:80] for x in early],
               expect="apply_diff::apply_diff_option(diff, target) on every path, nothing returned before it")
    # -- direct slot stores on the apply path are guarded by namespace != 0
    ss = getattr(r04_1, "slot_store", None) or {}
    for s in ss.get("stores", []):
        if s["how"] != "store":
            continue
        g = ss["pe"].guards(before=s["event"])
        ok = any(x[0] in ("ne", ">", "<") and "$ns.0" in x and "0" in x for x in g)
        R.inst(rid, "apply_diff_map:only-in-diff:Add:slot-store-guards-first-namespace", ok, sp=s["event"]["node"].get("sp"),
               expect="`target_namespace != 0` (or Names::change_name(ns, None, Some(b))?, which checks it) before names[ns] = Some(b)",
               got=g, detail="with the first namespace as target the created entry's names[0] is overwritten by b and no longer equals its key; "
                             "the same diff on an existing entry is refused by change_name")
    R.floor(rid, 17)


# ------------------------------------------------------------------------------------ R04.3
COMB = "Combination"


def comb_cells():
    o = lambda present, nm: T.V("Some", S(nm)) if present else T.V("None")
    cells = []
    for p in (False, True):
        cells.append(("A(%s)" % ("Some" if p else "None"), T.V("A", o(p, "a"))))
    for p in (False, True):
        cells.append(("B(%s)" % ("Some" if p else "None"), T.V("B", o(p, "b"))))
    for pa in (False, True):
        for pb in (False, True):
            cells.append(("AB(%s,%s)" % ("Some" if pa else "None", "Some" if pb else "None"), T.V("AB", o(pa, "a"), o(pb, "b"))))
    return cells


def extra_args(q, fn, first=1):
    """Abstract values for the parameters of a helper from index `first` on (a helper that was generalised by a parameter): the one
    evaluated constant that every call site of the crate passes there (literal or named constant, consts arrive evaluated) when the
    helper is not public, otherwise a symbol (the tables evaluated with it then show the symbol instead of the expected constant)."""
    sites = [n for b in q.bodies if isinstance(b.get("body"), dict) for n in H.walk(b["body"])
             if n.get("k") == "call" and fn["key"] in ((n.get("callee") or {}).get("key"), (n.get("callee") or {}).get("inst_key"))]
    out = []
    for i in range(first, len(fn.get("params") or [])):
        vs = set()
        for c in sites:
            v = H.const_value(c["args"][i]) if i < len(c["args"]) else None
            vs.add(("b", v) if isinstance(v, bool) else ("i", v) if isinstance(v, int) else ("s", v) if isinstance(v, str) else None)
        if sites and len(vs) == 1 and None not in vs and (fn.get("vis") or "Public") != "Public":
            out.append(vs.pop())
        else:
            out.append(S("arg%d" % i))
    return out


def r04_3(q, R, spec):
    rid = "R04.3"
    R.rule(rid, "diff generation: javadoc A(Some a)->Remove(a), B(Some b)->Add(b), AB->from_tuple(a,b), absent->None; names A->Remove, B->Add, "
                "AB->Edit(a,b), a missing name -> Err; the compared namespace is index 1; zip_map pairs (a.get(k), b.get(k)) into A/B/AB "
                "in that order; zip_map_combination keeps the side; Combination::map keeps the side and the order; diff() refuses different "
                "namespaces and builds AB(a, b) from its parameters in order")
    from_tuple = fn_in(q, "from_tuple", impl_ty="Action<")
    inline = {from_tuple["key"]: from_tuple} if from_tuple else {}
    for name in ("gen_diff_javadoc", "gen_diff_names"):
        fn = fn_in(q, name, within="diff_mappings")
        if not R.anchor(rid, "fn " + name, fn):
            continue
        ms = [n for n in H.walk(fn["body"], into_closures=False) if n.get("k") == "match" and COMB in (n["scrut"].get("ty") or "")]
        if not R.anchor(rid, "%s: match over Combination<Option<..>>" % name, len(ms) == 1, sp=fn["sp"]):
            continue
        extra = extra_args(q, fn)      # `gen_diff_names(ab, DIFF_NAMESPACE)`: further parameters stand for the constant every caller passes
        for cname, cv in comb_cells():
            pe = U.PathEval(inline=inline, scrut_override={id(ms[0]): cv})
            out, env = pe.run_body(fn, [S("ab")] + extra)
            o = U.outcome_value(out)
            got = "Err" if o[0] == "err" else strip(T.show(o[1]))
            R.inst(rid, "%s:%s" % (name, cname), got == spec[name][cname], sp=fn["sp"], expect=spec[name][cname], got=got)
        # the scrutinee is ab.map(<same-level projection>)
        pe = U.PathEval(hooks={"map": lambda args, n, pe: None})
        pe.run_body(fn, [S("ab")] + extra)
        maps = [e for e in pe.calls_named("map") if COMB in (e["path"] or "") and e["args"] and e["args"][0] == S("ab")]
        R.inst(rid, "%s:scrutinee-is-ab.map" % name, len(maps) == 1, sp=fn["sp"], got=[e["path"] for e in pe.calls_named("map")])
        if name == "gen_diff_names" and len(maps) == 1:
            news = [e for e in pe.calls_named("new") if "Namespace" in (e["path"] or "")]
            idx_ok = len(news) == 1 and news[0]["args"] == [("i", spec["diff_target_namespace_index"])] and news[0]["tried"]
            ns_term = news[0].get("value") if news else None
            proj = pe.apply(maps[0]["args"][1], [S("x")]) if len(maps[0]["args"]) == 2 else None
            # names(info(x))[ns]
            ok_proj = False
            if proj is not None and U.kind_of(proj) == "idx" and ns_term is not None:
                base, ix = proj[3]
                base = U.peel_term(base, "get_names", "get_node_info")
                ok_proj = base == S("x") and same_term(ix, ns_term)
            R.inst(rid, "gen_diff_names:namespace-index", idx_ok and ok_proj, sp=fn["sp"],
                   expect="names of the node indexed by Namespace::new(%d)?" % spec["diff_target_namespace_index"],
                   got={"Namespace::new": [[T.show(x) for x in e["args"]] for e in news], "projection": showv(proj)},
                   detail="a diff over Mappings<2,_> compares the second namespace (the first one is the key)")
        if name == "gen_diff_javadoc" and len(maps) == 1:
            proj = pe.apply(maps[0]["args"][1], [S("x")])
            ok_proj = U.is_call(proj, "get_node_javadoc_info") and U.call_args(proj) == [S("x")]
            R.inst(rid, "gen_diff_javadoc:projection", ok_proj, sp=fn["sp"], got=showv(proj), expect="x.get_node_javadoc_info().clone()")
    # Combination::map
    fn = fn_in(q, "map", impl_ty=COMB)
    if R.anchor(rid, "fn Combination::map", fn):
        f = T.V("F")    # applying a payload-less constructor value wraps: F(x)
        for cname, cv, want in (("A", T.V("A", S("a")), "A(F(a))"), ("B", T.V("B", S("b")), "B(F(b))"), ("AB", T.V("AB", S("a"), S("b")), "AB(F(a), F(b))")):
            pe = U.PathEval()
            out, env = pe.run_body(fn, [cv, f])
            # local-callee calls of a non-closure value: value of the call is a term `f(x)`; render
            o = U.outcome_value(out)
            got = strip(T.show(o[1])) if len(o) > 1 else o[0]
            R.inst(rid, "Combination::map:%s" % cname, got == want, sp=fn["sp"], expect=want, got=got)
    # zip_map
    fn = fn_in(q, "zip_map", within="diff_and_merge")
    if R.anchor(rid, "fn zip_map", fn):
        ms = [n for n in H.walk(fn["body"]) if n.get("k") == "match" and H.peel(n["scrut"]).get("k") == "tuple"]
        if R.anchor(rid, "zip_map: match (a.get(key), b.get(key))", len(ms) == 1, sp=fn["sp"]):
            m = ms[0]
            es = H.peel(m["scrut"])["es"]
            pids = H.param_ids(fn)
            roots = []
            for e in es:
                e0 = H.peel(e)
                rr = H.recv_root(e0["recv"]) if e0.get("k") == "mcall" and e0["name"] == "get" else None
                roots.append(rr[0] if rr else None)
            R.inst(rid, "zip_map:scrutinee-order", roots == pids[:2], sp=m["sp"], expect="(a.get(key), b.get(key)) with a, b the 1st and 2nd parameter",
                   got=H.render(m["scrut"]))
            for cname, cv, want in (("Some,None", ("t", [T.V("Some", S("a")), T.V("None")]), "A(a)"),
                                    ("None,Some", ("t", [T.V("None"), T.V("Some", S("b"))]), "B(b)"),
                                    ("Some,Some", ("t", [T.V("Some", S("a")), T.V("Some", S("b"))]), "AB(a, b)")):
                pe = U.PathEval(scrut_override={id(m): cv})
                out = pe.run(m, {})
                got = strip(T.show(out[1])) if out[0] == "ok" else out[0]
                R.inst(rid, "zip_map:%s" % cname, got == want, sp=m["sp"], expect=want, got=got)
            # result = for every key of the union of both key sets: (key, combiner(<the combination above>)?)
            # (iterator chains, one or two passes, or explicit loops: lib/c04_util.describe_collection gives one normal form)
            pe = U.PathEval()
            out, env = pe.run_body(fn, [S("a"), S("b"), S("combiner")])
            o = U.outcome_value(out)
            base, per_key = U.describe_collection(pe, o[1]) if len(o) > 1 else (None, None)
            ok_u = base is not None and U.is_call(base, "chain") and sorted(T.show(x) for x in U.call_args(base)) == ["keys($a)", "keys($b)"]
            R.inst(rid, "zip_map:key-union", ok_u, sp=fn["sp"], got=showv(base) if base else o[0], expect="a.keys().chain(b.keys())")
            ent = per_key(S("k")) if per_key else None
            ok_e = False
            if ent is not None and ent[0] == "t" and len(ent[1]) == 2 and ent[1][0] == S("k") and U.is_call(ent[1][1], "$combiner"):
                c = ent[1][1]
                ce = pe.by_nid.get(c[4])
                arg = U.call_args(c)
                ok_e = bool(ce and ce["tried"]) and len(arg) == 1 and U.kind_of(arg[0]) == "match" and arg[0][3][0] == id(m) \
                    and T.show(arg[0][3][1]) == "(get($a, $k), get($b, $k))"
            R.inst(rid, "zip_map:entry", ok_e, sp=fn["sp"], got=strip(showv(ent)) if ent else None,
                   expect="(key.clone(), combiner(match (a.get(key), b.get(key)) {..})?) for every key of the union")
    # zip_map_combination
    fn = fn_in(q, "zip_map_combination", within="diff_and_merge")
    if R.anchor(rid, "fn zip_map_combination", fn):
        for cname, cv in (("A", T.V("A", S("m"))), ("B", T.V("B", S("m")))):
            pe = U.PathEval()
            out, env = pe.run_body(fn, [cv, S("combiner")])
            o = U.outcome_value(out)
            v = o[1] if len(o) > 1 else None
            got = None
            if v is not None and U.is_call(v, "map_combine_one_side") and len(U.call_args(v)) == 2 and U.call_args(v)[0] == S("m"):
                inner = pe.apply(U.call_args(v)[1], [S("v")])
                got = strip(T.show(inner))
            want = "combiner(%s(v))" % cname
            R.inst(rid, "zip_map_combination:%s" % cname, got == want, sp=fn["sp"], expect="map_combine_one_side(m, |v| %s)" % want, got=got or showv(v))
        pe = U.PathEval()
        out, env = pe.run_body(fn, [T.V("AB", S("ma"), S("mb")), S("combiner")])
        o = U.outcome_value(out)
        v = o[1] if len(o) > 1 else None
        ok = v is not None and U.is_call(v, "zip_map") and [T.show(x) for x in U.call_args(v)] == ["$ma", "$mb", "$combiner"]
        R.inst(rid, "zip_map_combination:AB", ok, sp=fn["sp"], expect="zip_map(a, b, combiner)", got=showv(v))
    # map_combine_one_side keeps the key
    for name in ("map_combine_one_side",):
        fn = fn_in(q, name, within="diff_and_merge")
        if R.anchor(rid, "fn " + name, fn):
            pe = U.PathEval()
            out, env = pe.run_body(fn, [S("map"), S("combiner")])
            o = U.outcome_value(out)
            base, per_entry = U.describe_collection(pe, o[1]) if len(o) > 1 else (None, None)
            ent = per_entry(("t", [S("key"), S("value")])) if per_entry else None
            ok = base == S("map") and ent is not None and strip(T.show(ent)) == "(key, combiner(value))" and ent[0] == "t"
            if ok:
                ce = pe.by_nid.get(ent[1][1][4]) if U.kind_of(ent[1][1]) == "call" else None
                ok = bool(ce and ce["tried"])
            R.inst(rid, "%s:entry" % name, ok, sp=fn["sp"], expect="for every (key, value) of map: (key.clone(), combiner(value)?)",
                   got={"source": showv(base) if base else None, "entry": strip(showv(ent)) if ent else None})
    # diff()
    fn = fn_in(q, "diff", impl_ty="MappingsDiff")
    if R.anchor(rid, "fn MappingsDiff::diff", fn):
        pe = U.PathEval(hooks={"zip_map_combination": lambda args, n, pe: T.V("Ok", T.sym("classes"))})
        out, env = pe.run_body(fn, [S("A"), S("B")])
        g = pe.guards()
        R.inst(rid, "diff:namespaces-must-match", ("eq", "$A.info.namespaces", "$B.info.namespaces") in g, sp=fn["sp"], got=g,
               expect="a.info.namespaces == b.info.namespaces, otherwise Err")
        o = U.outcome_value(out)
        st = o[1] if len(o) > 1 else None
        zc = pe.calls_named("zip_map_combination")
        ab_ok = False
        got = None
        if zc:
            a0 = zc[0]["args"][0]      # ab.map(|x| &x.classes) evaluated: Combination::map is not inlined -> term map(AB(A,B), closure)
            got = T.show(a0)
            if U.is_call(a0, "map") and U.call_args(a0) and U.call_args(a0)[0] == T.V("AB", S("A"), S("B")):
                ab_ok = True
        R.inst(rid, "diff:AB-order", ab_ok, sp=fn["sp"], expect="Combination::AB(a, b) (a = old = 1st parameter, b = new = 2nd)", got=got)
        ok_info = st is not None and st[0] == "st" and st[2].get("info") == T.V("None")
        R.inst(rid, "diff:top-info-none", ok_info, sp=fn["sp"], got=showv(st[2].get("info")) if st and st[0] == "st" else showv(st),
               expect="info: Action::None (namespaces are equal by the guard above)")
        # the generated tree is returned as generated: nothing is removed from it afterwards (seed C04-7: "no-op" methods pruned together
        # with their parameter changes)
        PRUNE = ("retain", "retain_mut", "remove", "shift_remove", "swap_remove", "shift_remove_entry", "swap_remove_entry", "pop", "clear",
                 "truncate", "drain", "split_off", "shift_remove_index", "swap_remove_index", "filter", "filter_map", "take_while", "skip_while",
                 "take", "skip", "step_by")
        pruned = []
        for n in H.walk(fn["body"]):
            if n.get("k") != "mcall" or n["name"] not in PRUNE:
                continue
            # a pruning that keeps every node with a change of its own *or* a remaining child is property-preserving: accepted when the
            # `retain` predicate of a diff-node map mentions every field of the node (info, javadoc and each child map)
            why = "removes entries of the generated tree"
            if n["name"] in ("retain", "retain_mut") and n["args"] and H.peel(n["args"][0]).get("k") == "closure":
                cl = H.peel(n["args"][0])
                node_adt = None
                for prm in cl["params"]:
                    t = (prm.get("ty") or "").replace("&mut ", "").replace("&", "").strip()
                    t = t.split("<")[0]
                    if t in q.adts and t.startswith("quill::tree::mappings_diff::"):
                        node_adt = t
                if node_adt:
                    need = set(f["name"] for f in q.adts[node_adt]["variants"][0]["fields"])
                    used = set(x["name"] for x in H.walk(cl["body"]) if x.get("k") == "field" and x.get("adt") == node_adt)
                    if need <= used:
                        continue
                    why = "the predicate ignores %s of %s" % (sorted(need - used), node_adt.split("::")[-1])
            pruned.append((n, why))
        R.inst(rid, "diff:nothing-with-changes-removed-after-generation", not pruned, sp=(pruned[0][0].get("sp") if pruned else fn["sp"]),
               expect="the tree built by zip_map_combination is returned as generated (or pruned by a predicate over info, javadoc and every child map)",
               got=["%s: %s" % (H.render(n)[:110], why) for n, why in pruned[:4]],
               detail="a node without a change of its own still carries the changes of its children; pruning by the node's own action "
                      "loses them, so apply(diff(A,B), A) != B")
    R.floor(rid, 36)


# ------------------------------------------------------------------------------------ R04.4
class WatchEval(U.PathEval):
    """PathEval that remembers the (first) value of the expression nodes in `watch` (by identity), wherever they are evaluated:
    in the function itself or in a helper inlined into it."""

    def __init__(self, watch, **kw):
        super().__init__(**kw)
        self.watch = set(watch)
        self.watched = {}

    def ev(self, n, env):
        v = super().ev(n, env)
        if id(n) in self.watch and id(n) not in self.watched:
            self.watched[id(n)] = v
        return v


def r04_4(q, R, spec):
    rid = "R04.4"
    R.rule(rid, "two-column action decoding: TinyLine::action and action_string read column a then column b, an empty column is absent, "
                "(-,-)->None (-,b)->Add(b) (a,-)->Remove(a) (a,b)->Edit(a,b) unless a == b -> None, further columns -> Err; the same table as "
                "Action::from_tuple off the diagonal; to_tuple(from_tuple(x)) = x; flip(flip(x)) = x and flip = from_tuple∘swap∘to_tuple; "
                "as_ref keeps variant and order; is_diff is false exactly for None and Edit(a,a)")
    opt = lambda present, nm: T.V("Some", S(nm)) if present else T.V("None")
    cells = [("%s,%s" % ("Some" if pa else "None", "Some" if pb else "None"), opt(pa, "a"), opt(pb, "b")) for pa in (False, True) for pb in (False, True)]
    for name in ("action", "action_string"):
        fn = fn_in(q, name, impl_ty="TinyLine")
        if not R.anchor(rid, "fn TinyLine::" + name, fn):
            continue
        # columns: decided as a table over the state of the two columns (absent / empty / non-empty), evaluated through whatever
        # shape the decoding has (`.filter(|x| !x.is_empty())`, `if x.is_empty() { None } ..`, a private helper of TinyLine):
        # a is built from the 1st `self.fields.next()` only, b from the 2nd only, and an absent or empty column gives None.
        helpers = {b["key"]: b for b in q.bodies if b.get("name") and (b.get("impl_ty") or "").endswith("tiny_line::TinyLine")
                   and not b.get("impl_trait") and b["name"] not in ("action", "action_string") and "body" in b}
        # ... or a private free function of the module the impl lives in
        mod = fn["key"].split("::{impl")[0] + "::"
        helpers.update({b["key"]: b for b in q.bodies if b.get("name") and not b.get("impl_ty") and "body" in b
                        and b["key"].startswith(mod) and "::" not in b["key"][len(mod):]})

        def tuple_matches(b, depth=0):
            """the `match (a, b)` of the function, or of the private TinyLine helper it hands the decoding to (the helper is inlined
            by the evaluation below, with the conversion closure as its argument)"""
            found = [n for n in H.walk(b["body"], into_closures=False) if n.get("k") == "match" and H.peel(n["scrut"]).get("k") == "tuple"]
            if found or depth >= 2:
                return found
            for n in H.walk(b["body"], into_closures=False):
                if n.get("k") in ("call", "mcall"):
                    c = n.get("callee") or {}
                    hb = helpers.get(c.get("inst_key") or c.get("key"))
                    if hb is not None:
                        found.extend(tuple_matches(hb, depth + 1))
            return found
        ms = tuple_matches(fn)
        if not R.anchor(rid, "TinyLine::%s: match (a, b)" % name, len(ms) == 1, sp=fn["sp"]):
            continue
        m = ms[0]
        order_ok, empty_ok, got_cols = True, True, {}
        pe = None
        for st1 in ("absent", "empty", "text"):
            for st2 in ("absent", "empty", "text"):
                states = [st1, st2]
                counter = []

                def next_hook(args, n, pe_, states=states, counter=counter):
                    if not args or T.show(args[0]) != "$self.fields":
                        return None
                    i = len(counter)
                    counter.append(i)
                    if i >= 2:
                        return T.V("None")
                    return T.V("None") if states[i] == "absent" else T.V("Some", S("col%d" % (i + 1)))

                def empty_hook(args, n, pe_, states=states):
                    for i in (0, 1):
                        if args and args[0] == S("col%d" % (i + 1)):
                            return ("b", states[i] == "empty")
                    return None

                pe = WatchEval({id(m["scrut"])}, inline=helpers, hooks={"next": next_hook, "is_empty": empty_hook})
                out, env = pe.run_body(fn, [S("self")])
                sv = pe.watched.get(id(m["scrut"]))      # the value of the scrutinee where the match stands (in `fn` or in the inlined helper)
                vals = sv[1] if sv is not None and sv[0] == "t" and len(sv[1]) == 2 else [T.sym("?"), T.sym("?")]
                shown = [T.show(x) for x in vals]
                got_cols["%s,%s" % (st1, st2)] = [strip(x) for x in shown]
                for i, stt in enumerate(states):
                    mine, other = "$col%d" % (i + 1), "$col%d" % (2 - i)
                    if stt == "text":
                        if not (vals[i] != T.V("None") and mine in shown[i] and other not in shown[i]):
                            order_ok = False
                    elif vals[i] != T.V("None"):
                        if stt == "empty":
                            empty_ok = False
                        else:
                            order_ok = False
        R.inst(rid, "%s:columns-in-order" % name, order_ok, sp=fn["sp"], got=got_cols,
               expect="(a, b) = (from the 1st self.fields.next() only, from the 2nd only); an absent column is None")
        R.inst(rid, "%s:empty-is-absent" % name, empty_ok, sp=fn["sp"], expect="an empty column decodes to None (both columns)", got=got_cols)
        pe = U.PathEval(inline=helpers)
        pe.run_body(fn, [S("self")])
        g = pe.guards()
        R.inst(rid, "%s:no-further-columns" % name, any(x[0] == "atom" and "is_empty(" in x[1] and "$self.fields" in x[1] and x[2] is True for x in g),
               sp=fn["sp"], got=g, expect="remaining fields must be empty, otherwise Err")
        for cname, av, bv in cells:
            pe = U.PathEval(scrut_override={id(m): ("t", [av, bv])})
            out = pe.run(m, {})
            v = out[1] if out[0] == "ok" else None
            got = None
            if v is not None:
                if v[0] == "v" and v[1] == "if":
                    c, t, e = v[2]
                    got = "if %s then %s else %s" % ({"eq": "a == b"}.get(U.canon_guard(c, True)[0], T.show(c)) if sorted(U.canon_guard(c, True)[1:]) == ["$a", "$b"] else T.show(c),
                                                     strip(T.show(t)), strip(T.show(e)))
                else:
                    got = strip(T.show(v))
            R.inst(rid, "%s:%s" % (name, cname), got == spec["line_action"][cname], sp=m["sp"], expect=spec["line_action"][cname], got=got)
    # Action codec
    ft = fn_in(q, "from_tuple", impl_ty="Action<")
    tt = fn_in(q, "to_tuple", impl_ty="Action<")
    fl = fn_in(q, "flip", impl_ty="Action<")
    ar = fn_in(q, "as_ref", impl_ty="Action<")
    isd = fn_in(q, "is_diff", impl_ty="Action<")
    ok_anchor = all([R.anchor(rid, "fn Action::from_tuple", ft), R.anchor(rid, "fn Action::to_tuple", tt), R.anchor(rid, "fn Action::flip", fl),
                     R.anchor(rid, "fn Action::as_ref", ar), R.anchor(rid, "fn Action::is_diff", isd)])
    if ok_anchor:
        variants = T.enum_variants(q, ACTION)
        R.inst(rid, "Action:variants", variants is not None and sorted(variants) == [("Add", 1), ("Edit", 2), ("None", 0), ("Remove", 1)],
               sp=q.adts[ACTION]["sp"] if ACTION in q.adts else None, got=variants)
        run1 = lambda fn, args: U.outcome_value(U.PathEval().run_body(fn, args)[0])
        for cname, av, bv in cells:
            o = run1(ft, [av, bv])
            got = strip(T.show(o[1])) if len(o) > 1 else o[0]
            R.inst(rid, "from_tuple:%s" % cname, got == spec["from_tuple"][cname], sp=ft["sp"], expect=spec["from_tuple"][cname], got=got)
            if len(o) > 1:
                back = run1(tt, [o[1]])
                R.inst(rid, "to_tuple∘from_tuple:%s" % cname, len(back) > 1 and back[1] == ("t", [av, bv]), sp=tt["sp"],
                       expect=T.show(("t", [av, bv])), got=showv(back[1]) if len(back) > 1 else back[0])
        for variant in spec["actions"]:
            av = action_value(variant)
            o = run1(fl, [av])
            got = strip(T.show(o[1])) if len(o) > 1 else o[0]
            R.inst(rid, "flip:%s" % variant, got == spec["flip"][variant], sp=fl["sp"], expect=spec["flip"][variant], got=got)
            if len(o) > 1:
                o2 = run1(fl, [o[1]])
                R.inst(rid, "flip∘flip:%s" % variant, len(o2) > 1 and o2[1] == av, sp=fl["sp"], expect=T.show(av), got=showv(o2[1]) if len(o2) > 1 else o2[0])
                tup = run1(tt, [av])
                if len(tup) > 1 and tup[1][0] == "t":
                    sw = run1(ft, [tup[1][1][1], tup[1][1][0]])
                    R.inst(rid, "flip=from_tuple∘swap∘to_tuple:%s" % variant, len(sw) > 1 and sw[1] == o[1], sp=fl["sp"],
                           expect=showv(sw[1]) if len(sw) > 1 else None, got=T.show(o[1]))
            o = run1(ar, [av])
            R.inst(rid, "as_ref:%s" % variant, len(o) > 1 and o[1] == av, sp=ar["sp"], expect=T.show(av), got=showv(o[1]) if len(o) > 1 else o[0])
            o = run1(isd, [av])
            v = o[1] if len(o) > 1 else None
            if v is not None and v[0] == "b":
                got = "true" if v[1] else "false"
            elif v is not None and U.kind_of(v) == "cmp":
                c = U.canon_guard(v, True)
                got = "a != b" if c == ("ne", "$a", "$b") else T.show(v)
            else:
                got = showv(v)
            R.inst(rid, "is_diff:%s" % variant, got == spec["is_diff"][variant], sp=isd["sp"], expect=spec["is_diff"][variant], got=got)
    R.floor(rid, 2 * 7 + 1 + 8 + 20)


# ------------------------------------------------------------------------------------ R04.5
def unwrap_result_expr(e):
    """Strip `?` and error-decorating adaptors from `f(..).with_context(..)?`."""
    while True:
        e = H.peel(e, refs=False)
        if e.get("k") == "try":
            e = e["e"]
        elif e.get("k") == "mcall" and e["name"] in U.TRANSPARENT:
            e = e["recv"]
        else:
            return e


def through_locals(body, e, limit=4):
    """`let x = <init>; .. x ..`: the initialiser of a local that is bound exactly once by a plain `let` (local introduced / inlined)."""
    for _ in range(limit):
        e0 = H.peel(e, refs=False)
        if e0.get("k") != "path" or e0["res"].get("r") != "local":
            return e
        init = H.let_init_of(body, e0["res"]["id"])
        if init is None:
            return e
        e = init
    return e


def callable_arg(body, e):
    """The argument is a closure literal, a local bound to one (`let f = |..| ..;`), or a function item; what it builds is checked
    where its node literal stands (the type checker fixes its signature)."""
    e0 = H.peel(e)
    if e0.get("k") == "closure":
        return True
    loc = H.local_of(e0)
    if loc:
        init = H.let_init_of(body, loc[0])
        return init is not None and H.peel(init).get("k") == "closure"
    return e0.get("k") == "path" and e0["res"].get("r") == "def" and e0["res"].get("dk") in ("Fn", "AssocFn")


def short(adt):
    return (adt or "?").rsplit("::", 1)[-1]


def r04_5(q, R, spec):
    rid = "R04.5"
    R.rule(rid, "apply_to level alignment: in every rebuilt node `info` is the same-level source's info moved unchanged, `javadoc` is "
                "apply_diff_option(&diff.javadoc, x.javadoc) of the same level, each child map F is apply_diff_map(ns, &diff.F, x.F, ..) of the "
                "same level and name, ns is target.get_namespace(<namespace argument>)?; the top-level info is Err for Add/Remove, "
                "namespaces.change_name(ns, a, b)? for Edit and unchanged for None")
    fn = fn_in(q, "apply_to", impl_ty="MappingsDiff")
    if not R.anchor(rid, "fn MappingsDiff::apply_to", fn):
        return
    pids = H.param_ids(fn)      # self, target, namespace
    if not R.anchor(rid, "apply_to(&self, target, namespace)", len(pids) == 3, sp=fn["sp"]):
        return
    body = fn["body"]
    # namespace local
    ns_local = None
    for n in H.walk(body, into_closures=False):
        if n.get("k") == "let" and "init" in n and n["pat"].get("k") == "bind":
            e = unwrap_result_expr(n["init"])
            if e.get("k") == "mcall" and e["name"] == "get_namespace":
                rr = H.local_of(e["recv"])
                a = H.local_of(e["args"][0]) if e["args"] else None
                tried = H.peel(n["init"], refs=False).get("k") == "try"
                ok = bool(rr) and rr[0] == pids[1] and bool(a) and a[0] == pids[2] and tried
                R.inst(rid, "namespace-resolved-from-argument", ok, sp=n["sp"], got=H.render(n["init"]), expect="target.get_namespace(namespace)?")
                if ok:
                    ns_local = n["pat"]["id"]
    if not R.anchor(rid, "let namespace = target.get_namespace(namespace)?", ns_local is not None, sp=fn["sp"]):
        return
    lits = [n for n in H.walk(body) if n.get("k") == "struct" and short(n.get("adt")) in spec["levels"]]
    seen_levels = set()
    for lit in lits:
        lvl = short(lit["adt"])
        seen_levels.add(lvl)
        clo, cp = U.params_of_enclosing_closure(body, lit)
        if clo is None:
            diff_id, src_id = pids[0], pids[1]
        else:
            if len(cp) != 2:
                R.unrecognised(rid, "apply_to:%s" % lvl, "closure with %d parameters around the node literal" % len(cp), sp=lit["sp"])
                continue
            diff_id, src_id = cp
        adt = q.adts.get(lit["adt"])
        want_fields = sorted(f["name"] for f in adt["variants"][0]["fields"]) if adt else None
        have = sorted(f["name"] for f in lit["fields"])
        R.inst(rid, "%s:all-fields-rebuilt" % lvl, have == want_fields and not isinstance(lit.get("base"), dict), sp=lit["sp"], expect=want_fields, got=have)
        for f in lit["fields"]:
            fname = f["name"]
            key = "%s.%s" % (lvl, fname)
            e = through_locals(body, f["e"])
            if fname == "info" and lvl != "Mappings":
                root, path = H.place_root(e)
                ok = root is not None and root[0] == src_id and path == ["info"] and H.peel(e).get("k") == "field"
                R.inst(rid, key, ok, sp=e["sp"], expect="<same-level source>.info (moved)", got=H.render(e))
            elif fname == "info":
                top_info(q, R, rid, spec, fn, e, pids, ns_local)
            elif fname == "javadoc":
                c = unwrap_result_expr(e)
                ok = False
                if c.get("k") == "call" and H.callee_name(c) == "apply_diff_option" and len(c["args"]) == 2:
                    r0, p0 = H.place_root(c["args"][0])
                    r1, p1 = H.place_root(c["args"][1])
                    ok = (r0 is not None and r0[0] == diff_id and p0 == ["javadoc"] and r1 is not None and r1[0] == src_id and p1 == ["javadoc"]
                          and H.peel(c["args"][1]).get("k") == "field")
                R.inst(rid, key, ok, sp=e["sp"], expect="apply_diff_option(&<same-level diff>.javadoc, <same-level source>.javadoc)?", got=H.render(c))
            elif fname in spec["levels"][lvl]["children"]:
                c = unwrap_result_expr(e)
                ok = False
                child_ok = False
                if c.get("k") == "call" and H.callee_name(c) == "apply_diff_map" and len(c["args"]) == 4:
                    nsl = H.local_of(c["args"][0])
                    r0, p0 = H.place_root(c["args"][1])
                    r1, p1 = H.place_root(c["args"][2])
                    ok = (bool(nsl) and nsl[0] == ns_local and r0 is not None and r0[0] == diff_id and p0 == [fname]
                          and r1 is not None and r1[0] == src_id and p1 == [fname] and H.peel(c["args"][2]).get("k") == "field")
                    child_ok = callable_arg(body, c["args"][3])
                R.inst(rid, key, ok and child_ok, sp=e["sp"],
                       expect="apply_diff_map(namespace, &<same-level diff>.%s, <same-level source>.%s, |diff, x| ..)?" % (fname, fname), got=H.render(c)[:200])
            else:
                R.unrecognised(rid, "apply_to:" + key, "field without a rule (not info / javadoc / child map)", sp=e["sp"])
    R.inst(rid, "levels-covered", seen_levels == set(spec["levels"]), sp=fn["sp"], expect=sorted(spec["levels"]), got=sorted(seen_levels))
    R.floor(rid, 25)


def top_info(q, R, rid, spec, fn, e, pids, ns_local):
    ms = [n for n in H.walk(e, into_closures=False) if n.get("k") == "match" and "Action<" in (n["scrut"].get("ty") or "")]
    if not R.anchor(rid, "apply_to: match over self.info", len(ms) == 1, sp=e["sp"]):
        return
    m = ms[0]
    r0, p0 = H.place_root(m["scrut"])
    R.inst(rid, "Mappings.info:scrutinee", r0 is not None and r0[0] == pids[0] and p0 == ["info"], sp=m["sp"], got=H.render(m["scrut"]), expect="&self.info")
    for variant in spec["actions"]:
        want = spec["apply_info"][variant]
        pe = U.PathEval(scrut_override={id(m): action_value(variant)})
        env = {pids[0]: S("self"), pids[1]: S("target"), ns_local: S("ns")}
        out = pe.run(m, env)
        o = U.outcome_value(out)
        cn = pe.calls_named("change_name")
        if o[0] == "err":
            got = "Err"
        else:
            v = o[1] if len(o) > 1 else None
            val_ok = v is not None and v[0] == "st" and U.is_call(v[2].get("namespaces"), "change_type") and \
                T.show(U.call_args(v[2]["namespaces"])[0]) == "$target.info.namespaces"
            if not cn and val_ok:
                got = "identity"
            elif (len(cn) == 1 and val_ok and cn[0]["tried"] and cn[0]["cond"] == 0
                  and [T.show(x) for x in cn[0]["args"]] == ["$target.info.namespaces", "$ns", "$a", "$b"]):
                got = "rename(a,b)"
            else:
                got = {"value": showv(v), "change_name": [[T.show(x) for x in c["args"]] + [c["tried"]] for c in cn]}
        R.inst(rid, "Mappings.info:%s" % variant, got == want, sp=m["sp"], expect=want, got=got)


# ------------------------------------------------------------------------------------ R04.6
def r04_6(q, R, spec):
    rid = "R04.6"
    R.rule(rid, "every level of a diff is filled from the same level: tiny_v2_diff::read creates each node with the line's own action() as "
                "info under its section tag, registers it in its parent through add_class/add_field/add_method/add_parameter, and stores a "
                "`c` sub-line into that node's javadoc (add_comment: same variant, unescaped text, a second comment is an error); "
                "MappingsDiff::diff builds info by gen_diff_names(ab), javadoc by gen_diff_javadoc(ab) and each child map F by "
                "zip_map_combination(ab.map(|x| &x.F), ..) with the `ab` of the same level")
    # ---- the physical line reaches the tokeniser as it is (seed C05-7: `line?.trim_end()` eats the significant trailing tab of a
    #      `p` row without a name action and the trailing blanks of a comment)
    from rules import c03 as C3
    from lib import c03_util as U3
    tl = q.fn("new", impl_ty="TinyLine")
    rdb = fn_in(q, "read", within="tiny_v2_diff")
    if R.anchor(rid, "fn TinyLine::new", tl) and R.anchor(rid, "fn tiny_v2_diff::read", rdb):
        tp = C3.text_param(tl)
        rfn = U3.Fn(q, rdb, strict=True)
        calls, chains = C3.tokeniser_call(q, rfn, tl, tp)
        if R.anchor(rid, "call of TinyLine::new(.., <line>) in tiny_v2_diff::read", len(calls) == 1 and tp is not None, sp=rdb["sp"]):
            V = C3.Verbatim(q)
            bad = []
            for ch in chains:
                if ch.root[0] != "param":
                    bad.append("value does not come from the reader: %s" % ch.show())
                bad.extend(V.offenders(ch.hops, C3.LINE_SOURCE))
            lines = [h for ch in chains for h in ch.hops if h[0] == "call" and h[1] == "lines"]
            R.inst(rid, "read:line-verbatim", bool(chains) and not bad and len(lines) == 1, sp=calls[0].get("sp"),
                   expect="TinyLine::new(n, &<item of BufRead::lines()>)", got={"value": [c.show() for c in chains], "not verbatim": bad},
                   detail="trailing tabs (empty cells) and blanks inside comments are significant in a .tinydiff row")
    # ---- add_comment
    fn = fn_in(q, "add_comment", within="tiny_v2_diff")
    if R.anchor(rid, "fn tiny_v2_diff::add_comment", fn):
        ms = [n for n in H.walk(fn["body"], into_closures=False) if n.get("k") == "match" and "Action<" in (n["scrut"].get("ty") or "")]
        if R.anchor(rid, "add_comment: match over the string action", len(ms) == 1, sp=fn["sp"]):
            m = ms[0]
            want = {"None": "None", "Add": "Add(JavadocMapping(unescape(b)))", "Remove": "Remove(JavadocMapping(unescape(a)))",
                    "Edit": "Edit(JavadocMapping(unescape(a)), JavadocMapping(unescape(b)))"}
            for variant in spec["actions"]:
                pe = U.PathEval(scrut_override={id(m): action_value(variant)})
                out = pe.run(m, {})
                got = strip(T.show(out[1])) if out[0] == "ok" else out[0]
                R.inst(rid, "add_comment:%s" % variant, got == want[variant], sp=m["sp"], expect=want[variant], got=got)
            pids = H.param_ids(fn)
            for hc, wanted in ((("b", True), "Err"), (("b", False), "stored")):
                pe = U.PathEval(scrut_override={id(m): T.sym("$converted")}, hooks={"action_string": lambda a, n, pe: T.V("Ok", S("raw"))})
                # `*had_comment` evaluates to the value bound to the parameter
                out, env = pe.run_body(fn, [hc, S("javadoc"), S("line")])
                o = U.outcome_value(out)
                if o[0] == "err":
                    got = "Err"
                else:
                    asg = [(T.show(e["l"]), T.show(e["r"])) for e in pe.trace if e["kind"] == "assign" and e["cond"] == 0]
                    conv = [a for a in asg if a[0] == "$javadoc"]
                    flag = [a for a in asg if a[1] == "True"]
                    got = "stored" if len(conv) == 1 and "match" in conv[0][1] or (len(conv) == 1 and conv[0][1] == "$converted") else {"assignments": asg}
                    if got == "stored" and len(flag) != 1:
                        got = {"assignments": asg, "missing": "had_comment = true"}
                R.inst(rid, "add_comment:had_comment=%s" % hc[1], got == wanted, sp=fn["sp"], expect=wanted, got=got)
            # the converted action is what is stored and it comes from line.action_string()?
            pe = U.PathEval()
            out, env = pe.run_body(fn, [("b", False), S("javadoc"), S("line")])
            as_calls = pe.calls_named("action_string")
            ok = len(as_calls) == 1 and as_calls[0]["tried"] and as_calls[0]["args"] == [S("line")]
            R.inst(rid, "add_comment:source-is-line.action_string", ok, sp=fn["sp"])
    # ---- read
    fn = q.body("quill::tiny_v2_diff::read")
    if R.anchor(rid, "fn tiny_v2_diff::read", fn):
        read_levels(q, R, rid, spec, fn)
    # ---- diff
    fn = fn_in(q, "diff", impl_ty="MappingsDiff")
    if R.anchor(rid, "fn MappingsDiff::diff", fn):
        diff_levels(q, R, rid, spec, fn)
    R.floor(rid, 46)


def cond_tag(cond):
    """`line.first_field == "x"` -> (local id of line, "x") else None."""
    c = H.peel(cond, refs=False)
    if c.get("k") == "bin" and c["op"] == "==":
        for a, b in ((c["l"], c["r"]), (c["r"], c["l"])):
            v = H.const_value(b)
            root, path = H.place_root(a)
            if isinstance(v, str) and root is not None and path == ["first_field"]:
                return root[0], v
    return None


def tags_on_path(root, node):
    """[(line local id, tag)] for every `line.first_field == "tag"` test (if / match arm on a string literal) that holds at node."""
    out = []
    for kind, x, extra in H.path_conditions(root, node):
        if kind == "if" and extra is True:
            t = cond_tag(x)
            if t:
                out.append(t)
        elif kind == "arm":
            r0, p0 = H.place_root(x["scrut"])
            p0 = [c for c in p0 if not c.startswith(".")]
            v = H.pat_str_value(x["arms"][extra]["pat"])
            if r0 is not None and p0 == ["first_field"] and isinstance(v, str) and "guard" not in x["arms"][extra]:
                out.append((r0[0], v))
    return out


def read_levels(q, R, rid, spec, fn):
    body = fn["body"]
    sections = spec["tiny_diff_sections"]
    found = {}
    for n, parents in H.walk_with_parents(body):
        if n.get("k") != "call":
            continue
        c = n.get("callee") or {}
        if H.callee_name(n) != "new" or short(c.get("self_ty") or c.get("impl_ty") or "") not in sections:
            # <XNowodeDiff as NodeInfo>::new
            full = c.get("full") or ""
            hit = [s for s in sections if ("<quill::tree::mappings_diff::%s as" % s) in full or ("<%s as" % s) in full]
            if not (H.callee_name(n) == "new" and hit):
                continue
            lvl = hit[0]
        else:
            lvl = short(c.get("self_ty") or c.get("impl_ty"))
        found.setdefault(lvl, []).append((n, parents))
    for lvl, sec in sections.items():
        if not R.anchor(rid, "read: %s::new(action)" % lvl, len(found.get(lvl, [])) == 1, sp=fn["sp"]):
            continue
        n, parents = found[lvl][0]
        clo = None
        for p in reversed(parents):
            if p.get("k") == "closure":
                clo = p
                break
        if not R.anchor(rid, "read: %s created inside an on_every_line closure" % lvl, clo is not None and len(clo["params"]) == 2, sp=n["sp"]):
            continue
        cps = [H.pat_bindings(p) for p in clo["params"]]
        line_id = cps[1][0][0] if cps[1] else None
        # (1) section tag
        tags = tags_on_path(clo["body"], n)
        R.inst(rid, "read:%s:section-tag" % lvl, tags[-1:] == [(line_id, sec["tag"])], sp=n["sp"], expect='line.first_field == "%s"' % sec["tag"],
               got=[t[1] for t in tags])
        # (2) info = this line's action()
        arg = n["args"][0] if n["args"] else None
        loc = H.local_of(arg) if arg else None
        init = H.let_init_of(clo["body"], loc[0]) if loc else arg
        e = unwrap_result_expr(init) if init else {}
        ok = e.get("k") == "mcall" and e["name"] == "action" and (H.local_of(e["recv"]) or (None,))[0] == line_id \
            and H.peel(init, refs=False).get("k") == "try"
        R.inst(rid, "read:%s:info-is-line-action" % lvl, ok, sp=n["sp"], expect="%s::new(line.action()?) with the line of the same section" % lvl,
               got=H.render(init) if init else None)
        # (3) registered in the parent through the adder; the returned reference is the node the comments go to
        node_loc = None
        for s in H.walk(clo["body"], into_closures=False):
            if s.get("k") == "let" and "init" in s and s["pat"].get("k") == "bind" and H.local_of(s["init"]) is None:
                if any(x is n for x in H.walk(s["init"])):
                    node_loc = s["pat"]["id"]
        adders = []
        for s in H.walk(clo["body"], into_closures=False):
            if s.get("k") == "let" and "init" in s and s["pat"].get("k") == "bind":
                e2 = unwrap_result_expr(s["init"])
                if e2.get("k") == "mcall" and e2["name"] == sec["adder"]:
                    a = [H.local_of(x) for x in e2["args"]]
                    if len(a) == 2 and a[1] and a[1][0] == node_loc and H.peel(s["init"], refs=False).get("k") == "try":
                        adders.append(s["pat"]["id"])
        R.inst(rid, "read:%s:registered" % lvl, len(adders) == 1, sp=n["sp"], expect="let node = parent.%s(key, %s::new(..))?" % (sec["adder"], lvl))
        if len(adders) != 1:
            continue
        ref_id = adders[0]
        # (4) comment of this level: in the next-level closure, under first_field == "c", add_comment(.., &mut node.javadoc, line)
        hits = []
        for x, ps in H.walk_with_parents(clo["body"]):
            if x.get("k") == "call" and H.callee_name(x) == "add_comment" and len(x["args"]) == 3:
                root, path = H.place_root(x["args"][1])
                inner = None
                for p in reversed(ps):
                    if p.get("k") == "closure":
                        inner = p
                        break
                hits.append((x, root, path, inner))
        mine = [h for h in hits if h[1] is not None and h[1][0] == ref_id]
        ok = False
        got = [H.render(h[0]) for h in mine]
        if len(mine) == 1:
            x, root, path, inner = mine[0]
            if inner is not None and inner is not clo and len(inner["params"]) == 2:
                il = H.pat_bindings(inner["params"][1])
                il_id = il[0][0] if il else None
                tg = tags_on_path(inner["body"], x)
                la = H.local_of(x["args"][2])
                # the inner closure must be the one handed to on_every_line of the level directly below `clo`
                ok = path == ["javadoc"] and tg[-1:] == [(il_id, spec["comment_tag"])] and bool(la) and la[0] == il_id \
                    and U.params_of_enclosing_closure(clo["body"], inner)[0] is None
        R.inst(rid, "read:%s:comment-goes-to-own-javadoc" % lvl, ok, sp=n["sp"], got=got,
               expect='in the sub-section of this %s: if line.first_field == "c" { add_comment(&mut had_comment, &mut node.javadoc, line) }' % lvl)
        # (5) the had_comment flag is per node
        if len(mine) == 1:
            fl = H.local_of(mine[0][0]["args"][0])
            init = H.let_init_of(clo["body"], fl[0]) if fl else None
            own = init is not None and H.const_value(init) is False and any(s.get("k") == "let" and s["pat"].get("id") == fl[0]
                                                                            for s in H.walk(clo["body"], into_closures=False))
            R.inst(rid, "read:%s:one-comment-flag-per-node" % lvl, own, sp=n["sp"], expect="let mut had_comment = false; next to the node")


def diff_levels(q, R, rid, spec, fn):
    body = fn["body"]
    pids = H.param_ids(fn)
    diff_adts = {v["diff"]: k for k, v in spec["levels"].items()}
    lits = [n for n in H.walk(body) if n.get("k") == "struct" and short(n.get("adt")) in diff_adts]
    seen = set()
    for lit in lits:
        dl = short(lit["adt"])
        lvl = diff_adts[dl]
        seen.add(dl)
        clo, cp = U.params_of_enclosing_closure(body, lit)
        if clo is None:
            # top level: `ab` is the local initialised with Combination::AB(a, b)
            ab_ids = []
            for s in H.walk(body, into_closures=False):
                if s.get("k") == "let" and "init" in s and s["pat"].get("k") == "bind":
                    ct = H.ctor_of(H.peel(s["init"]))
                    if ct and ct[1] == "AB":
                        ab_ids.append(s["pat"]["id"])
            ab_id = ab_ids[0] if len(ab_ids) == 1 else None
        else:
            ab_id = cp[0] if len(cp) == 1 else None
        if ab_id is None:
            R.unrecognised(rid, "diff:%s" % dl, "cannot identify the same-level `ab`", sp=lit["sp"])
            continue
        adt = q.adts.get(lit["adt"])
        want_fields = sorted(f["name"] for f in adt["variants"][0]["fields"]) if adt else None
        have = sorted(f["name"] for f in lit["fields"])
        R.inst(rid, "diff:%s:all-fields-built" % dl, have == want_fields and not isinstance(lit.get("base"), dict), sp=lit["sp"], expect=want_fields, got=have)
        for f in lit["fields"]:
            fname = f["name"]
            key = "diff:%s.%s" % (dl, fname)
            e = through_locals(body, f["e"])
            c = unwrap_result_expr(e)
            if fname == "info" and dl == "MappingsDiff":
                continue        # R04.3 diff:top-info-none
            if fname == "info":
                # further arguments must be constants (the tables of R04.3 are evaluated with the constant all call sites pass)
                ok = c.get("k") == "call" and H.callee_name(c) == "gen_diff_names" and len(c["args"]) >= 1 and \
                    (H.local_of(c["args"][0]) or (None,))[0] == ab_id and H.peel(e, refs=False).get("k") == "try" and \
                    all(H.const_value(a) is not None for a in c["args"][1:])
                R.inst(rid, key, ok, sp=e["sp"], expect="gen_diff_names(<same-level ab>)?", got=H.render(c))
            elif fname == "javadoc":
                ok = c.get("k") == "call" and H.callee_name(c) == "gen_diff_javadoc" and len(c["args"]) >= 1 and \
                    (H.local_of(c["args"][0]) or (None,))[0] == ab_id and all(H.const_value(a) is not None for a in c["args"][1:])
                R.inst(rid, key, ok, sp=e["sp"], expect="gen_diff_javadoc(<same-level ab>)", got=H.render(c))
            elif fname in spec["levels"][lvl]["children"]:
                ok = False
                if c.get("k") == "call" and H.callee_name(c) == "zip_map_combination" and len(c["args"]) == 2:
                    a0 = H.peel(c["args"][0])
                    if a0.get("k") == "mcall" and a0["name"] == "map" and (H.local_of(a0["recv"]) or (None,))[0] == ab_id and len(a0["args"]) == 1:
                        pc = H.peel(a0["args"][0])
                        if pc.get("k") == "closure" and len(pc["params"]) == 1:
                            pb = H.pat_bindings(pc["params"][0])
                            root, path = H.place_root(pc["body"])
                            ok = bool(pb) and root is not None and root[0] == pb[0][0] and path == [fname]
                    ok = ok and callable_arg(body, c["args"][1])
                R.inst(rid, key, ok, sp=e["sp"], expect="zip_map_combination(<same-level ab>.map(|x| &x.%s), |ab| ..)?" % fname, got=H.render(c)[:160])
            else:
                R.unrecognised(rid, key, "field without a rule", sp=e["sp"])
    R.inst(rid, "diff:levels-covered", seen == set(diff_adts), sp=fn["sp"], expect=sorted(diff_adts), got=sorted(seen))


# ------------------------------------------------------------------------------------ R04.7
def r04_7(q, R, spec):
    rid = "R04.7"
    R.rule(rid, "node construction used by additions and by the diff reader: NodeInfo::new(info) stores `info` and starts with no javadoc "
                "(Action::None / None) and empty child maps, for the 5 diff node types and the 4 mapping node types; FromKey::from_key puts the "
                "key's name into the first namespace only (parameters: no name) and copies desc / index from the key; add_child of a diff "
                "node refuses an existing key and inserts otherwise")
    levels = spec["levels"]
    wanted = [(v["diff"], "quill::tree::mappings_diff::") for v in levels.values()] + [(k, "quill::tree::mappings::") for k in levels if k != "Mappings"]
    for adt_name, mod in wanted:
        adt_path = mod + adt_name
        fns = [b for b in q.fns("new") if (b.get("impl_ty") or "").split("<")[0] == adt_path and "NodeInfo" in (b.get("impl_trait") or "")]
        if not R.anchor(rid, "impl NodeInfo for %s: fn new" % adt_name, len(fns) == 1):
            continue
        fn = fns[0]
        out, env = U.PathEval().run_body(fn, [S("info")])
        o = U.outcome_value(out)
        v = o[1] if len(o) > 1 else None
        ok = False
        got = showv(v)
        adt = q.adts.get(adt_path)
        if v is not None and v[0] == "st" and adt:
            names = sorted(f["name"] for f in adt["variants"][0]["fields"])
            ok = sorted(v[2]) == names and v[2].get("info") == S("info") and v[2].get("javadoc") == T.V("None")
            for fname, fv in v[2].items():
                if fname not in ("info", "javadoc"):
                    ok = ok and U.is_call(fv, "new", "default") and not U.call_args(fv)
        R.inst(rid, "new:%s" % adt_name, ok, sp=fn["sp"], got=got, expect="{ info, javadoc: none, children: empty }")
    want_fk = {"ClassMapping": {"names": "from_first_name(key)"},
               "FieldMapping": {"desc": "key.desc", "names": "from_first_name(key.name)"},
               "MethodMapping": {"desc": "key.desc", "names": "from_first_name(key.name)"},
               "ParameterMapping": {"index": "key.index", "names": "none()"}}
    for adt_name, want in want_fk.items():
        fns = [b for b in q.fns("from_key") if (b.get("impl_ty") or "").split("<")[0] == "quill::tree::mappings::" + adt_name]
        if not R.anchor(rid, "impl FromKey for %s" % adt_name, len(fns) == 1):
            continue
        out, env = U.PathEval().run_body(fns[0], [S("key")])
        o = U.outcome_value(out)
        v = o[1] if len(o) > 1 else None
        got = {k: strip(T.show(x)) for k, x in v[2].items()} if v is not None and v[0] == "st" else showv(v)
        R.inst(rid, "from_key:%s" % adt_name, got == want, sp=fns[0]["sp"], expect=want, got=got)
    fn = fn_in(q, "from_first_name", impl_ty="names::Names<")
    if R.anchor(rid, "fn Names::from_first_name", fn):
        pe = U.PathEval(hooks={"first_mut": lambda a, n, pe: T.V("Some", S("slot0")), "get_mut": lambda a, n, pe: T.V("Some", S("slot0")) if a[1:] == [("i", 0)] else None})
        out, env = pe.run_body(fn, [S("src")])
        asg = [(T.show(e["l"]), T.show(e["r"])) for e in pe.trace if e["kind"] == "assign" and e["cond"] == 0]
        o = U.outcome_value(out)
        v = o[1] if len(o) > 1 else None
        init = [e for e in pe.calls_named("from_fn")]
        fill = strip(T.show(pe.apply(init[0]["args"][0], [S("i")]))) if len(init) == 1 and init[0]["args"] and init[0]["args"][0][0] == "closure" else None
        ok = asg == [("$slot0", "Some($src)")] and fill == "None" and v is not None and v[0] == "st" and U.is_call(v[2].get("names"), "from_fn")
        R.inst(rid, "from_first_name:only-first-slot", ok, sp=fn["sp"], got={"assign": asg, "fill": fill}, expect="all None, then slot 0 = Some(src)")
    fn = q.body("quill::tree::mappings_diff::add_child")
    if R.anchor(rid, "fn mappings_diff::add_child", fn):
        ms = [n for n in H.walk(fn["body"], into_closures=False) if n.get("k") == "match"]
        if R.anchor(rid, "add_child: match map.entry(key)", len(ms) == 1, sp=fn["sp"]):
            sc = U.PathEval().run(ms[0]["scrut"], {pid: v for pid, v in zip(H.param_ids(fn), [S("map"), S("key"), S("child")])})
            R.inst(rid, "add_child:entry-of-key", sc[0] == "ok" and strip(T.show(sc[1])) == "entry(map, key)", sp=fn["sp"], got=showv(sc[1]) if sc[0] == "ok" else sc[0])
            for variant, want in (("Occupied", "Err"), ("Vacant", "Ok(insert(e, child))")):
                pe = U.PathEval(scrut_override={id(ms[0]): T.V(variant, S("e"))})
                out, env = pe.run_body(fn, [S("map"), S("key"), S("child")])
                o = U.outcome_value(out)
                got = "Err" if o[0] == "err" else "Ok(%s)" % strip(T.show(o[1]))
                R.inst(rid, "add_child:%s" % variant, got == want, sp=fn["sp"], expect=want, got=got)
    R.floor(rid, 9 + 4 + 1 + 3)
