"""Shared extraction for the duke reader/writer rules (C01, C02, C16, C17)."""
import json
import os

from lib import hir as H
from lib import tables as T

SPECF = os.path.join(os.path.dirname(os.path.dirname(os.path.abspath(__file__))), "spec", "jvms_tables.json")


def spec():
    with open(SPECF) as f:
        return json.load(f)


READ_WIDTH = {
    "read_u8": (1, "u8"), "read_i8": (1, "i8"), "read_u16": (2, "u16"), "read_i16": (2, "i16"), "read_u32": (4, "u32"), "read_i32": (4, "i32"),
    "read_u64": (8, "u64"), "read_i64": (8, "i64"),
    "read_u8_as_usize": (1, "u8"), "read_u16_as_usize": (2, "u16"), "read_u32_as_usize": (4, "u32"),
    "read_u8_as_local_variable": (1, "u8:lv"), "read_u16_as_local_variable": (2, "u16:lv"),
    "read_i16_as_branch_target_label": (2, "i16:label"), "read_i32_as_branch_target_label": (4, "i32:label"),
}
POOL_KIND = {
    "get_loadable": "loadable", "get_field_ref": "fieldref", "get_method_ref": "methodref",
    "get_method_ref_or_interface_method_ref": "methodref|imethodref", "get_interface_method_ref": "imethodref",
    "get_invoke_dynamic": "indy", "get_class": "class", "get_obj_class": "class", "from_atype": "atype",
    "get_utf8": "utf8", "get_utf8_ref": "utf8", "get_method_handle": "method_handle", "get_package": "package", "get_module": "module",
    "get_constant_value": "constant_value", "get_method_name_and_type": "nat", "get_field_name_and_type": "nat",
    "get_integer": "int", "get_integer_as_byte": "int", "get_integer_as_char": "int", "get_integer_as_short": "int", "get_integer_as_boolean": "int",
    "get_long": "long", "get_float": "float", "get_double": "double", "get_optional": "opt",
}


def int_matches(body, min_arms=3):
    """match nodes over integer const patterns"""
    out = []
    for n in H.walk(body):
        if n.get("k") == "match" and n.get("src") == "Normal" and len(n["arms"]) >= min_arms:
            ok = 0
            for a in n["arms"]:
                try:
                    if H.pat_int_values(a["pat"]):
                        ok += 1
                except ValueError:
                    pass
            if ok >= min_arms - 1:
                out.append(n)
    return out


def opcode_matches(read_code):
    """(pass1, pass2, wide1, wide2) match nodes of read_code; None where not found."""
    ms = int_matches(read_code["body"], 3)
    big = [m for m in ms if len(m["arms"]) >= 100]
    p2 = big[0] if len(big) == 1 else None
    p1 = None
    w1 = w2 = None
    for m in ms:
        if m is p2:
            continue
        has_create = any(H.is_call(x, "create") for a in m["arms"] for x in H.walk(a["body"]))
        if has_create and len(m["arms"]) >= 10:
            p1 = m
    def inner_wide(m):
        if not m:
            return None
        for a in m["arms"]:
            try:
                vals = H.pat_int_values(a["pat"])
            except ValueError:
                continue
            if vals == {0xc4}:
                inner = [x for x in H.walk(a["body"]) if x.get("k") == "match" and x is not m]
                return inner[0] if len(inner) == 1 else None
        return None
    return p1, p2, inner_wide(p1), inner_wide(p2)


def helper_inline(duke, module="duke::class_reader::"):
    """{key: body} of the free helper functions of the reader module (not the reader primitives the rules count), so that an arm body moved
    into a private helper evaluates to the same abstract result as the inline code."""
    out = {}
    for b in duke.bodies:
        if not b["key"].startswith(module) or "{closure" in b["key"] or b.get("impl_ty"):
            continue
        nm = b.get("name") or b["key"].rsplit("::", 1)[-1]
        if nm in READ_WIDTH or nm in ("align_to_4_byte_boundary", "read_code", "read", "read_field", "read_method"):
            continue
        out[b["key"]] = b
    return out


def eval_arm(match_node, value, extra_override=None, inline=None):
    """Evaluate an integer match for one scrutinee value -> (result value, evaluator)."""
    ov = {id(match_node): ("i", value)}
    if extra_override:
        ov.update(extra_override)
    ev = T.Evaluator(scrut_override=ov, inline=inline or {}, max_inline=2)
    try:
        res = ev.match(match_node, {})
    except T.Return as r:
        res = r.v
    except T.Break:
        res = ("sym", "<break>")
    return res, ev


def eval_around(root, match_node, value, inline=None):
    """Like eval_arm, but evaluates the innermost block around the match (the match itself if there is none), so that a tail shared by
    all arms (hoisted out of the match) is part of the evaluated path."""
    chain = H.parents_of(root, match_node) or []
    container = match_node
    for p in reversed(chain):
        if p.get("k") == "block":
            container = p
            break
    if container is not match_node and container.get("k") == "block":
        # start at the statement that contains the match: what precedes it (an exit test of the enclosing loop spelled
        # `if done { break }`, the read of the tag) is not part of the arm; locals bound there stay symbolic
        orig = container
        items = orig["stmts"] + ([orig["tail"]] if "tail" in orig else [])
        at = next((i for i, st in enumerate(items) if st is match_node or any(x is match_node for x in H.walk(st))), 0)
        if at > 0:
            rest = items[at:]
            container = {"k": "block", "sp": orig.get("sp")}
            if "tail" in orig:
                container["stmts"], container["tail"] = rest[:-1], rest[-1]
            else:
                container["stmts"] = rest
    ev = T.Evaluator(scrut_override={id(match_node): ("i", value)}, inline=inline or {}, max_inline=2)
    try:
        res = ev.ev(container, {})
    except T.Return as r:
        res = r.v
    except T.Break:
        res = ("sym", "<break>")
    return res, ev


def arm_for(match_node, value):
    for a in match_node["arms"]:
        try:
            s = H.pat_int_values(a["pat"])
        except ValueError:
            continue
        if s is None or value in s:
            return a
    return None


def reads_of(ev):
    """[(bytes, kind, callee name, node)] in evaluation order for the reader primitives executed on the evaluated path."""
    out = []
    for kind, n in ev.effects:
        if kind != "callnode":
            continue
        nm = H.callee_name(n)
        if nm in READ_WIDTH:
            out.append((READ_WIDTH[nm][0], READ_WIDTH[nm][1], nm, n))
        elif nm == "skip":
            v = H.const_value(n["args"][0]) if n.get("args") else None
            out.append((v if isinstance(v, int) else "var", "skip", nm, n))
        elif nm in ("align_to_4_byte_boundary",):
            out.append(("align4", "align4", nm, n))
    return out


def consumer_kind(arm_body, read_node, _depth=0):
    """Kind tag of a primitive read: the nearest enclosing call that interprets the value (pool.get_x / labels.try_get / from_atype)."""
    chain = H.parents_of(arm_body, read_node) or []
    for p in reversed(chain):
        if p.get("k") in ("call", "mcall"):
            nm = H.callee_name(p)
            if nm in POOL_KIND:
                return POOL_KIND[nm]
            if nm in ("try_get", "get_or_create", "get_or_create_check_exclusive", "create", "get_or_create_range"):
                return "label"
            if nm in ("Ok", "Some"):
                continue
            c = H.ctor_of(p)
            if c:
                return None
            if nm in ("into", "from", "try_from", "try_into"):
                return "conv:" + (p.get("ty") or "")
            return None
        if p.get("k") == "let" and p["pat"].get("k") == "bind" and _depth < 3:
            # `let index = reader.read_u16()?; pool.get_class(index)?`: the value is interpreted where the local is used
            lid = p["pat"]["id"]
            for use in H.walk(arm_body):
                if use.get("k") == "path" and use["res"].get("r") == "local" and use["res"].get("id") == lid:
                    k2 = consumer_kind(arm_body, use, _depth + 1)
                    if k2:
                        return k2
            return None
        if p.get("k") in ("let", "block", "match", "if"):
            return None
    return None


def payload_reads(ev, match_node):
    """reads executed on the evaluated path without the read of the tag itself: the tag is read either inside the match scrutinee or
    before the match (`let tag = reader.read_u8()?; match tag {..}`) - in the latter case it is not part of the evaluated arm at all."""
    rs = reads_of(ev)
    in_scrut = [r for r in rs if any(x is r[3] for x in H.walk(match_node["scrut"]))]
    if in_scrut:
        return [r for r in rs if r not in in_scrut]
    return rs


def attr_arms(match_node):
    """Arms of an attribute-dispatch match: `name if name == attribute::X [&& !interests.f] => body`.
    -> [{"name": const value or None (catch-all), "const": const path, "interest": (field, negated) or None, "body", "sp"}]"""
    out = []
    for a in match_node["arms"]:
        rec = {"name": None, "const": None, "interest": None, "body": a["body"], "sp": a["sp"], "guard": a.get("guard")}
        g = a.get("guard")
        if g is not None:
            for conj in _conjuncts(g):
                c0, neg = H.negate_peel(conj)
                if c0.get("k") == "bin" and c0["op"] == "==" and not neg:
                    for side in (c0["l"], c0["r"]):
                        v = H.const_value(side)
                        if isinstance(v, str):
                            rec["name"] = v
                            rec["const"] = H.const_name(side)
                elif c0.get("k") == "field":
                    rec["interest"] = (c0["name"], neg)
                else:
                    rec.setdefault("other_guard", []).append(H.render(conj))
        out.append(rec)
    return out


def _conjuncts(n):
    n = H.peel(n, refs=False)
    if n.get("k") == "bin" and n["op"] == "&&":
        return _conjuncts(n["l"]) + _conjuncts(n["r"])
    return [n]


def attr_dispatch_matches(fn_body):
    """match nodes whose arms are guarded by `== attribute::CONST`."""
    out = []
    for n in H.walk(fn_body):
        if n.get("k") == "match" and n.get("src") == "Normal":
            arms = attr_arms(n)
            if sum(1 for a in arms if a["const"] and "class_constants::attribute::" in a["const"]) >= 2:
                out.append(n)
    return out


# ---------------------------------------------------------------- successful exits of a function body
def success_leaves(root):
    """Expressions whose value a function body can complete with successfully: the leaves in tail position (through blocks, `if`,
    `match`) and the operands of explicit `return`s anywhere outside closures (also inside loops); diverging leaves, `Err(..)` and the
    `?` desugaring are not successes."""
    out = []
    stack = [root]
    while stack:
        n = stack.pop()
        if not isinstance(n, dict):
            continue
        k = n.get("k")
        if k == "block":
            for s in n["stmts"]:
                stack.extend(early_returns(s))
            if "tail" in n:
                stack.append(n["tail"])
            elif n["stmts"] and H.peel(n["stmts"][-1], refs=False).get("k") == "ret":
                pass        # collected by early_returns
        elif k == "semi":
            stack.append(n["e"])
        elif k == "if":
            stack.extend(early_returns(n["cond"]))
            stack.append(n["then"])
            if "else" in n:
                stack.append(n["else"])
        elif k == "match":
            stack.extend(early_returns(n["scrut"]))
            for a in n["arms"]:
                stack.append(a["body"])
        elif k == "ret":
            if "e" in n and not H.is_err_exit(n):
                stack.append(n["e"])
        else:
            if n.get("ty") == "!" or H.diverges(n):
                continue
            c = H.ctor_of(n)
            if c and c[1] == "Err":
                continue
            stack.extend(x for x in early_returns(n) if x is not n)
            out.append(n)
    return out

def early_returns(n):
    """`return <non-error>` nodes nested in n (not in closures), as ret nodes."""
    out = []
    stack = [n]
    while stack:
        x = stack.pop()
        if not isinstance(x, dict) or x.get("k") == "closure":
            continue
        if x.get("k") == "ret":
            if "e" in x and not H.is_err_exit(x) and not H.macro_of(x, "desugar:QuestionMark"):
                out.append(x)
            continue
        stack.extend(H.children(x))
    return out


# ---------------------------------------------------------------- narrowing casts (R01.9 / R02.8), decided by the A1 interval analysis
def narrowing_rule(F, R, rid, text, pred, floor):
    """Every int-to-int `as` cast in the selected (monomorphic, reachable) functions is value-preserving under the interval analysis,
    or is listed in reviewed_safe.json with the reason why truncation is intended / impossible."""
    import re
    from lib import mir as M
    R.rule(rid, text)
    P = M.load_program(F)
    seen = {}
    n = 0
    for (f, bi, s, v, sty, to, ok) in M.narrowing_casts(P, pred):
        if sty == to:
            continue
        r_src, r_to = M.INT.get(sty), M.INT.get(to)
        if r_src and r_to and r_to[0] <= r_src[0] and r_src[1] <= r_to[1]:
            continue            # widening by type: nothing to prove
        n += 1
        fn = M.fn_key(f.path)
        base = "%s:cast:%s->%s:%s" % (fn, sty, to, f.stable_describe(s["rv"]["a"]))
        k = seen.get(base, 0) + 1
        seen[base] = k
        key = base if k == 1 else "%s#%d" % (base, k)
        why = "value %s fits %s" % (M.show(v), to)
        if not ok and key in R.reviewed:
            R.used_reviewed.append({"key": key, "reason": R.reviewed[key]["reason"]})
            ok, why = True, "reviewed-safe: " + R.reviewed[key]["reason"]
        R.inst(rid, key, ok, sp=(s.get("sp") or "").replace(F.repo.rstrip("/") + "/", ""),
               detail=why if ok else "`as %s` may truncate: the operand is only known to lie in %s" % (to, M.show(v)))
    R.floor(rid, floor)
    return n
