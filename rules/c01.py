"""C01 — class reader fidelity: constants, decode tables, pass agreement, coverage, attribute dispatch, flag and tag tables."""
import re, os

from lib import hir as H
from lib import tables as T
from rules import duke_common as D


# rules of sibling properties that decide code on this property's own call path: the tree builder (anchor of C01) must store each delivered group where the replay and the writer expect it
PREMISES = [("C17", ["R17.4", "R17.7"]), ("C02", ["R02.1:attr-source"])]

def run(F, R, tier):
    S = D.spec()
    duke = F.crate("duke")
    r01_1(duke, R, S)
    r01_2_3(duke, R, S)
    r01_5(duke, R, S)
    r01_6(duke, R, S)
    r01_8(duke, R, S)
    r01_10(duke, R, S)
    r01_11(duke, R, S)
    r01_12(duke, R, S)
    r01_13(duke, R)
    r01_14(duke, R)
    r01_15(duke, R)
    r01_9(F, R)
    return ("A5 tables against JVMS: class_constants (opcodes, pool tags, handle kinds, atype, attribute names, magic); the second-pass decode table for "
            "all 256 opcode bytes and all 256 wide sub-opcodes (variant, implied index, operand bytes, operand kinds) and its agreement with the "
            "label-creating first pass; switch shapes; PoolRead::read tag->layout->variant->slots, the accessor x entry-kind table of PoolRead (evaluated), "
            "method-handle kind table; every resolved pool value depends on every payload field of its entry (R01.14); branch-target arithmetic of the "
            "narrow and wide offset helpers at boundary probes (R01.15); "
            "A9 coverage (no parsed table is dropped, every visitor method is called); attribute dispatch per location; the nine access-flag "
            "tables; verification-type, frame-type, element-value, target-type, type-path and alignment tables")


# ------------------------------------------------------------------------------------ R01.1
def r01_1(duke, R, S):
    R.rule("R01.1", "duke::class_constants equals the JVMS tables: 202+3 opcode values, 17 pool tags, 9 method-handle kinds, 8 atype codes, the "
                    "attribute name strings, MAGIC")
    op = duke.const_values("duke::class_constants::opcode")
    R.anchor("R01.1", "mod class_constants::opcode", len(op) > 100)
    norm = lambda s: s.lower().replace("_", "")
    by_norm = {}
    for k, v in op.items():
        by_norm[norm(k)] = v
    # the repository spells arraylength `ARRAYLENGHT`
    alias = {"arraylength": "arraylenght"}
    for o in S["opcodes"]:
        key = norm(o["mnemonic"])
        got = by_norm.get(key, by_norm.get(alias.get(key, ""), None))
        R.inst("R01.1", "opcode:%s" % o["mnemonic"], got == o["value"], expect=o["value"], got=got)
    for k, v in S["reserved_opcodes"].items():
        R.inst("R01.1", "opcode:%s" % k, by_norm.get(norm(k)) == v, expect=v, got=by_norm.get(norm(k)))
    vals = sorted(v for v in op.values() if isinstance(v, int))
    R.inst("R01.1", "opcode-values-distinct", len(vals) == len(set(vals)), got=len(vals), nontrivial=False)
    pool = duke.const_values("duke::class_constants::pool")
    pn = {norm(k): v for k, v in pool.items()}
    for name, tag in S["pool_tags"].items():
        key = norm(name)
        got = pn.get(key)
        R.inst("R01.1", "pool-tag:%s" % name, got == tag, expect=tag, got=got)
    mh = {norm(k): v for k, v in duke.const_values("duke::class_constants::pool::method_handle_reference").items()}
    for name, kind in S["method_handle_kinds"].items():
        R.inst("R01.1", "handle-kind:%s" % name, mh.get(norm(name)) == kind, expect=kind, got=mh.get(norm(name)))
    at = {norm(k): v for k, v in duke.const_values("duke::class_constants::atype").items()}
    for name, code in S["atype"].items():
        got = at.get("t" + name, at.get(name))
        R.inst("R01.1", "atype:%s" % name, got == code, expect=code, got=got)
    attrs = duke.const_values("duke::class_constants::attribute")
    have = set(v for v in attrs.values() if isinstance(v, str))
    for name in S["attributes"]:
        R.inst("R01.1", "attribute-name:%s" % name, name in have, expect=name, got=None if name in have else sorted(have)[:3])
    magic = duke.consts.get("duke::class_constants::MAGIC", {}).get("value")
    R.inst("R01.1", "magic", magic == S["magic"], expect=hex(S["magic"]), got=magic)
    R.floor("R01.1", 205 + 17 + 9 + 8 + 30 + 1)


# ------------------------------------------------------------------------------------ R01.2 / R01.3
def _variant_key(res):
    if res[0] in ("v", "st"):
        return res[1].lower()
    return None


def r01_2_3(duke, R, S):
    R.rule("R01.2", "second pass of read_code: every byte 0x00..0xff selects exactly one arm; 0x00..0xc9 decode to the JVMS instruction (variant, "
                    "implied local index for the _n forms), consume exactly the JVMS operand bytes and interpret them with the right kind "
                    "(pool entry kind / label / local); 0xca..0xff fail; the 12 wide forms likewise; switch instructions have the JVMS shape")
    R.rule("R01.3", "first pass (label creation) and second pass agree for every opcode on the bytes consumed, and the set of opcodes that create a "
                    "label is the set whose decoding looks one up")
    rc = duke.fn("read_code")
    if not R.anchor("R01.2", "fn read_code", rc):
        return
    p1, p2, w1, w2 = D.opcode_matches(rc)
    if not (R.anchor("R01.2", "second-pass opcode match", p2, sp=rc["sp"]) and R.anchor("R01.2", "wide sub-opcode match (pass 2)", w2, sp=rc["sp"])):
        return
    ok13 = R.anchor("R01.3", "first-pass opcode match", p1, sp=rc["sp"]) and R.anchor("R01.3", "wide sub-opcode match (pass 1)", w1, sp=rc["sp"])
    by_val = {o["value"]: o for o in S["opcodes"]}
    inl = D.helper_inline(duke)
    label_users = set()
    label_creators = set()
    for b in range(256):
        res, ev = D.eval_arm(p2, b, inline=inl)
        arm = D.arm_for(p2, b)
        reads = D.payload_reads(ev, p2)        # without the opcode byte itself
        o = by_val.get(b)
        key = "0x%02x" % b
        if o is None:
            R.inst("R01.2", "decode:%s=invalid" % key, res[0] == "err", sp=arm["sp"] if arm else p2["sp"], expect="error", got=T.show(res)[:60],
                   nontrivial=b in (0xca, 0xcb, 0xfe, 0xff))
        elif o["mnemonic"] == "wide":
            pass
        else:
            vk = _variant_key(res)
            R.inst("R01.2", "decode:%s:%s" % (key, o["mnemonic"]), vk == o["variant_key"], sp=arm["sp"], expect=o["variant_key"], got=T.show(res)[:80])
            if o["implied_index"] is not None:
                idx = None
                if res[0] == "v" and res[2] and res[2][0][0] == "st":
                    iv = res[2][0][2].get("index")
                    idx = iv[1] if iv and iv[0] == "i" else None
                R.inst("R01.2", "implied-index:%s" % o["mnemonic"], idx == o["implied_index"], sp=arm["sp"], expect=o["implied_index"], got=idx)
                R.inst("R01.2", "operand-bytes:%s" % o["mnemonic"], reads == [], sp=arm["sp"], expect=0, got=[r[2] for r in reads], nontrivial=False)
            elif o["operand_bytes"] != "var":
                n = sum(r[0] for r in reads if isinstance(r[0], int))
                R.inst("R01.2", "operand-bytes:%s" % o["mnemonic"], n == o["operand_bytes"] and all(isinstance(r[0], int) for r in reads), sp=arm["sp"],
                       expect=o["operand_bytes"], got=[r[2] for r in reads], nontrivial=o["operand_bytes"] > 0)
                # kinds
                kinds = []
                for r in reads:
                    k = r[1]
                    ck = D.consumer_kind(arm["body"], r[3])
                    if ":" not in k and ck:
                        k = k + ":" + ck
                    kinds.append(k)
                if o["operands"]:
                    R.inst("R01.2", "operand-kinds:%s" % o["mnemonic"], kinds == o["operands"], sp=arm["sp"], expect=o["operands"], got=kinds)
            if any(D.consumer_kind(arm["body"], r[3]) == "label" or r[1].endswith(":label") for r in reads):
                label_users.add(b)
        # pass 1
        if ok13:
            res1, ev1 = D.eval_arm(p1, b, inline=inl)
            arm1 = D.arm_for(p1, b)
            reads1 = D.reads_of(ev1)[1:]
            if o is None:
                R.inst("R01.3", "pass1:%s=invalid" % key, res1[0] == "err", sp=arm1["sp"] if arm1 else p1["sp"], nontrivial=False)
            elif o["mnemonic"] != "wide":
                n1 = [r[0] for r in reads1]
                n2 = [r[0] for r in reads]
                tot = lambda xs: (sum(x for x in xs if isinstance(x, int)), sorted(str(x) for x in xs if not isinstance(x, int)))
                R.inst("R01.3", "bytes:%s:%s" % (key, o["mnemonic"]), tot(n1) == tot(n2) and res1[0] != "err", sp=arm1["sp"],
                       expect="%s (pass 2: %s)" % (tot(n2), [r[2] for r in reads]), got="%s (pass 1: %s)" % (tot(n1), [r[2] for r in reads1]),
                       nontrivial=bool(n2))
                if any(H.is_call(x, "create") for k_, x in ev1.effects if k_ == "callnode"):
                    label_creators.add(b)
    if ok13:
        R.inst("R01.3", "label-opcode-sets", label_users == label_creators, sp=p1["sp"], expect=sorted(hex(x) for x in label_users),
               got=sorted(hex(x) for x in label_creators), detail="opcodes creating labels in pass 1 vs opcodes resolving labels in pass 2")
        want_labels = {o["value"] for o in S["opcodes"] if any(x.endswith(":label") for x in o["operands"])} | {0xaa, 0xab}
        R.inst("R01.3", "label-opcodes=spec", label_users == want_labels, sp=p2["sp"], expect=sorted(hex(x) for x in want_labels), got=sorted(hex(x) for x in label_users))
    # wide forms
    wide_by_val = {w["value"]: w for w in S["wide_forms"]}
    for b in range(256):
        res, ev = D.eval_arm(p2, 0xc4, {id(w2): ("i", b)}, inline=inl)
        reads = D.reads_of(ev)[2:]
        w = wide_by_val.get(b)
        arm = D.arm_for(w2, b)
        if w is None:
            R.inst("R01.2", "wide:0x%02x=invalid" % b, res[0] == "err", sp=arm["sp"] if arm else w2["sp"], nontrivial=b in (0x00, 0x12, 0xc4))
        else:
            R.inst("R01.2", "wide:%s" % w["mnemonic"], _variant_key(res) == w["variant_key"], sp=arm["sp"], expect=w["variant_key"], got=T.show(res)[:60])
            R.inst("R01.2", "wide-operands:%s" % w["mnemonic"], [r[1] for r in reads] == w["operands"], sp=arm["sp"], expect=w["operands"], got=[r[1] for r in reads])
        if ok13:
            res1, ev1 = D.eval_arm(p1, 0xc4, {id(w1): ("i", b)}, inline=inl)
            reads1 = D.reads_of(ev1)[2:]
            if w is None:
                R.inst("R01.3", "pass1-wide:0x%02x=invalid" % b, res1[0] == "err", sp=w1["sp"], nontrivial=False)
            else:
                n1 = sum(r[0] for r in reads1 if isinstance(r[0], int))
                R.inst("R01.3", "pass1-wide-bytes:%s" % w["mnemonic"], n1 == w["operand_bytes"] and res1[0] != "err", sp=w1["sp"], expect=w["operand_bytes"], got=n1)
    # switch shapes (both passes)
    for pname, m in (("pass2", p2), ("pass1", p1 if ok13 else None)):
        if m is None:
            continue
        rule = "R01.2" if pname == "pass2" else "R01.3"
        for opv, nm in ((0xaa, "tableswitch"), (0xab, "lookupswitch")):
            arm = D.arm_for(m, opv)
            res, ev = D.eval_arm(m, opv, inline=inl)
            reads = [r[1] for r in D.payload_reads(ev, m)]
            want_prefix = ["align4", "i32:label", "i32", "i32"] if nm == "tableswitch" else ["align4", "i32:label", "i32"]
            R.inst(rule, "%s:%s-header" % (pname, nm), reads == want_prefix, sp=arm["sp"], expect=want_prefix, got=reads)
            loops = _iteration_bodies(arm["body"])
            lok = False
            lgot = None
            if len(loops) == 1:
                lreads = [D.READ_WIDTH[H.callee_name(x)][1] for x in H.walk(loops[0]) if x.get("k") == "mcall" and H.callee_name(x) in D.READ_WIDTH]
                lgot = lreads
                lok = lreads == (["i32:label"] if nm == "tableswitch" else ["i32", "i32:label"])
            R.inst(rule, "%s:%s-entries" % (pname, nm), lok, sp=arm["sp"], expect="one i32 label per entry" if nm == "tableswitch" else "(i32 key, i32 label) per pair", got=lgot)
            # guards: low > high -> error ; npairs < 0 -> error
            bails = []
            for x in H.walk(arm["body"]):
                if x.get("k") == "if" and H.diverges(x["then"]):
                    c0 = H.peel(x["cond"], refs=False)
                    if c0.get("k") == "bin":
                        bails.append((H.render(c0["l"]), c0["op"], H.render(c0["r"])))
            wantg = ("low", ">", "high") if nm == "tableswitch" else ("n", "<", "0")
            R.inst(rule, "%s:%s-guard" % (pname, nm), wantg in bails, sp=arm["sp"], expect=" ".join(wantg) + " => error", got=bails)
    R.floor("R01.2", 256 + 256 + 150)
    R.floor("R01.3", 256 + 200)


# ------------------------------------------------------------------------------------ R01.5
def r01_5(duke, R, S):
    R.rule("R01.5", "PoolRead::read: tag -> PoolEntry variant with the JVMS payload layout, Long/Double occupy two slots (placeholder pushed), "
                    "unknown tags fail; each accessor of PoolRead (get_utf8 .. get_invoke_dynamic), evaluated once per PoolEntry variant with "
                    "the private functions of the pool module followed, resolves every entry kind the JVMS allows at its use sites (the "
                    "loadable / constant-value accessors map kind X to variant X, the MethodRef-or-InterfaceMethodRef accessor reports which "
                    "of the two it was); the reference_kind match maps the 9 kinds to the Handle variant and the right member-reference kind")
    rd = duke.fn("read", impl_ty="class_reader::pool::PoolRead")
    if R.anchor("R01.5", "fn PoolRead::read", rd):
        ms = D.int_matches(rd["body"], 10)
        if R.anchor("R01.5", "tag match in PoolRead::read", len(ms) == 1, sp=rd["sp"]):
            m = ms[0]
            variant_of = {"Fieldref": "FieldRef", "Methodref": "MethodRef", "InterfaceMethodref": "InterfaceMethodRef"}
            width = {"u8": 1, "u16": 2, "u32": 4, "u16:len": 2}
            tag_of = {v: k for k, v in S["pool_tags"].items()}
            for tag in range(0, 32):
                res, ev = D.eval_around(rd["body"], m, tag)
                arm = D.arm_for(m, tag)
                name = tag_of.get(tag)
                if name is None:
                    R.inst("R01.5", "pool-tag:%d=invalid" % tag, res[0] == "err", sp=arm["sp"], nontrivial=tag in (0, 2, 13, 14, 21))
                    continue
                reads = [r for r in D.reads_of(ev) if H.parents_of(m, r[3]) is not None and r[3] is not m["scrut"]
                         and not any(x is r[3] for x in H.walk(m["scrut"]))]
                entry_variants = []
                placeholders = 0
                for pnode, pargs in ev.callvals:
                    if H.callee_name(pnode) != "push" or len(pargs) < 2:
                        continue
                    a = pargs[1]
                    if a[0] == "v" and a[1] == "Some" and a[2]:
                        inner = a[2][0]
                        entry_variants.append(inner[1] if inner[0] in ("v", "st") else T.show(inner)[:40])
                    elif a[0] == "v" and a[1] == "None":
                        placeholders += 1
                    else:
                        entry_variants.append(T.show(a)[:40])
                want_v = variant_of.get(name, name)
                if name in ("Integer", "Float", "Long", "Double"):
                    # the numeric payload is the big-endian value itself: one read of the full width (JVMS 4.4.4/4.4.5: high_bytes and
                    # low_bytes are the two halves of one big-endian 8-byte value).  A value assembled from several narrower reads is not
                    # evaluated here (the evaluator does not model the signedness of `as` casts): reported, fail closed (seed C01-12:
                    # `(high as i64) << 32 | low as i64` with a sign-extended low half)
                    full = 8 if name in ("Long", "Double") else 4
                    R.inst("R01.5", "pool-value:%s" % name, len(reads) == 1 and reads[0][0] == full, sp=arm["sp"],
                           expect="one %d-byte read stored as the entry's payload" % full, got=[r[2] for r in reads],
                           detail="the constant delivered to the visitor is the constant stored in the file")
                R.inst("R01.5", "pool-variant:%s" % name, entry_variants == [want_v], sp=arm["sp"], expect=want_v, got=entry_variants)
                want_bytes = sum(width[x] for x in S["pool_layout"][name] if x in width)
                got_bytes = sum(r[0] for r in reads if isinstance(r[0], int))
                has_bytes = any(H.callee_name(x) == "read_u8_vec" for k, x in ev.effects if k == "callnode")
                R.inst("R01.5", "pool-layout:%s" % name, got_bytes == want_bytes and has_bytes == ("bytes" in S["pool_layout"][name]), sp=arm["sp"],
                       expect=S["pool_layout"][name], got=[r[2] for r in reads] + (["read_u8_vec"] if has_bytes else []))
                R.inst("R01.5", "pool-slots:%s" % name, placeholders == (1 if name in S["pool_two_slots"] else 0), sp=arm["sp"],
                       expect=2 if name in S["pool_two_slots"] else 1, got=1 + placeholders)
    # accessor x entry-kind decision table (shape-independent: let-else, match, match with a flag parameter, merged/split private helpers)
    r01_5_accessors(duke, R)
    mhs = [(b, m) for b in duke.bodies if b["key"].startswith(POOLMOD) and b.get("dk") in ("Fn", "AssocFn") and isinstance(b.get("body"), dict)
           for m in D.int_matches(b["body"], 5)
           if any(H.ctor_of(x) and (H.ctor_of(x)[0] or "").endswith("code::Handle") for a in m["arms"] for x in H.walk(a["body"]))]
    if R.anchor("R01.5", "reference_kind match building Handle variants in the pool module", len(mhs) == 1):
        mh, mhm = mhs[0]
        kind_name = {v: k for k, v in S["method_handle_kinds"].items()}
        getter_kind = {"get_field_ref": "Fieldref", "get_method_ref": "Methodref", "get_interface_method_ref": "InterfaceMethodref",
                       "get_method_ref_or_interface_method_ref": "Methodref|InterfaceMethodref"}
        for kind in range(0, 12):
            res, ev = D.eval_arm(mhm, kind)
            arm = D.arm_for(mhm, kind)
            if kind not in kind_name:
                R.inst("R01.5", "handle-kind:%d=invalid" % kind, res[0] == "err", sp=arm["sp"], nontrivial=kind in (0, 10))
                continue
            R.inst("R01.5", "handle-kind:%d:%s" % (kind, kind_name[kind]), _variant_key(res) == kind_name[kind].lower(), sp=arm["sp"], expect=kind_name[kind], got=T.show(res)[:50])
            getters = [getter_kind[H.callee_name(x)] for k, x in ev.effects if k == "callnode" and H.callee_name(x) in getter_kind]
            R.inst("R01.5", "handle-target:%d" % kind, getters == [S["method_handle_target"][str(kind)]], sp=arm["sp"], expect=S["method_handle_target"][str(kind)], got=getters)
    R.floor("R01.5", 17 * 3 + 15 + 24 + 2 + 18)


POOLMOD = "duke::class_reader::pool::"
_LOADABLE = {"Integer", "Float", "Long", "Double", "Class", "String", "MethodHandle", "MethodType", "Dynamic"}
# oracle (JVMS 4.4 + what each accessor is used for in the reader, see D.POOL_KIND): accessor of PoolRead -> CONSTANT_ kinds it may resolve
POOL_ACCESSOR_KINDS = {
    "get_utf8": {"Utf8"}, "get_utf8_ref": {"Utf8"}, "get_class": {"Class"}, "get_obj_class": {"Class"}, "get_package": {"Package"},
    "get_module": {"Module"}, "get_field_name_and_type": {"NameAndType"}, "get_method_name_and_type": {"NameAndType"},
    "get_field_ref": {"FieldRef"}, "get_method_ref": {"MethodRef"}, "get_interface_method_ref": {"InterfaceMethodRef"},
    "get_method_ref_or_interface_method_ref": {"MethodRef", "InterfaceMethodRef"},
    "get_integer": {"Integer"}, "get_integer_as_byte": {"Integer"}, "get_integer_as_char": {"Integer"}, "get_integer_as_short": {"Integer"},
    "get_integer_as_boolean": {"Integer"}, "get_double": {"Double"}, "get_float": {"Float"}, "get_long": {"Long"},
    "get_loadable": _LOADABLE, "get_loadable_nested": _LOADABLE, "get_constant_value": {"Integer", "Float", "Long", "Double", "String"},
    "get_method_handle": {"MethodHandle"}, "get_invoke_dynamic": {"InvokeDynamic"},
}
# accessors whose result is an enum with one variant per accepted entry kind: PoolEntry::X -> <enum>::X
POOL_ACCESSOR_SAME_VARIANT = ("get_loadable", "get_loadable_nested", "get_constant_value")


def pool_accessor_table(duke):
    """{accessor name: (body, {PoolEntry variant: abstract result}, reached)} for every method `(&self, index: u16, ..)` of PoolRead.
    The accessor is partially evaluated once per PoolEntry variant with the entry lookup (the method of PoolRead returning
    Result<&PoolEntry>) answering that variant for the accessor's own index; all functions of the pool module are followed, so it does not
    matter how the variant test is spelled (let-else, match, match with guards on a flag parameter) or in which private helper it lives.
    None when the lookup cannot be identified."""
    adt = duke.adts.get(POOLMOD + "PoolEntry")
    if not adt:
        return None
    variants = [(v["name"], [f["name"] for f in v["fields"]]) for v in adt["variants"]]
    pr = [b for b in duke.bodies if (b.get("impl_ty") or "") == POOLMOD + "PoolRead" and b.get("dk") == "AssocFn"]
    lookup = [b for b in pr if re.match(r"^(core::result::)?Result<&('\w+ )?(duke::class_reader::pool::)?PoolEntry\b", b.get("output") or "")]
    if len(lookup) != 1:
        return None
    inline = {b["key"]: b for b in duke.bodies if b["key"].startswith(POOLMOD) and b.get("dk") in ("Fn", "AssocFn") and b is not lookup[0]
              and isinstance(b.get("body"), dict)}
    MARK = ("i", 51966)
    out = {}
    for g in pr:
        if g is lookup[0] or len(g.get("inputs") or []) < 2 or g["inputs"][1] != "u16":
            continue
        row = {}
        reached = [False]
        for vn, fs in variants:
            entry = ("st", vn, {f: T.sym("entry." + f) for f in fs})

            def get(args, entry=entry):
                if len(args) == 2 and args[1] == MARK:
                    reached[0] = True
                    return T.V("Ok", entry)
                return T.V("Ok", T.sym("other-entry"))      # an entry another index refers to: not the one under test

            def passthrough(args):
                return args[0]

            def then(args):
                a = args[0]
                if a[0] == "err" or (a[0] == "v" and a[1] in ("Err", "None")):
                    return a
                return None
            ev = T.Evaluator(calls={lookup[0]["path"]: get, "with_context": passthrough, "context": passthrough, "map_err": passthrough,
                                    "and_then": then, "map": then}, inline=inline, max_inline=8)
            try:
                row[vn] = ev.run_fn(g, [T.sym("pool"), MARK] + [T.sym("arg%d" % i) for i in range(2, len(g["params"]))])
            except Exception as e:          # a shape the evaluator cannot follow: visible (fail closed), not a crash
                row[vn] = T.sym("?" + type(e).__name__)
        out[g["name"]] = (g, row, reached[0])
    return out


def _outcome(v):
    if v[0] == "err" or (v[0] == "v" and v[1] in ("Err",)):
        return "rejected"
    if v[0] == "v" and v[1] == "Ok":
        return "accepted"
    if v[0] == "v" and v[1] == "if":
        return "undecided"
    # a symbolic result of the accessor's tail (`.try_into()`, `.and_then(..)` of values that were produced): the entry was accepted
    return "accepted" if v[0] == "sym" and not v[1].startswith(("?", "match ", "if let", "<no arm>")) else "undecided"


def r01_5_accessors(duke, R):
    tab = pool_accessor_table(duke)
    if not R.anchor("R01.5", "enum PoolEntry and the entry lookup of PoolRead (-> Result<&PoolEntry>)", tab is not None):
        return
    external = set()
    for b in duke.bodies:
        if b["key"].startswith(POOLMOD) or not isinstance(b.get("body"), dict):
            continue
        for n in H.walk(b["body"]):
            if n.get("k") in ("call", "mcall"):
                c = n.get("callee") or {}
                if (c.get("impl_ty") or "") == POOLMOD + "PoolRead" or (c.get("path") or "").startswith(POOLMOD + "PoolRead::"):
                    external.add(H.callee_name(n))
    for name in sorted(tab):
        g, row, reached = tab[name]
        if not reached:
            continue        # does not look an entry up under its own index (get_optional, read)
        want = POOL_ACCESSOR_KINDS.get(name)
        if want is None:
            if name in external:
                # an accessor the oracle table does not know (added by a later change): nothing to compare with; what it accepts is listed
                R.inst("R01.5", "accepts:%s" % name, True, sp=g["sp"], nontrivial=False,
                       got=sorted(vn for vn, v in row.items() if _outcome(v) == "accepted"), detail="no row in the accessor/kind table: not decided")
            continue        # a private helper: decided through the accessors that call it
        oc = {vn: _outcome(v) for vn, v in row.items()}
        und = sorted(vn for vn, o in oc.items() if o == "undecided")
        if und:
            R.unrecognised("R01.5", "accepts:%s" % name, "cannot decide whether the accessor accepts entry kind(s) %s: %s"
                           % (",".join(und), T.show(row[und[0]])[:100]), g["sp"])
            continue
        got = {vn for vn, o in oc.items() if o == "accepted"}
        # necessary for well-formed class files: every kind the JVMS allows at the use sites of this accessor is resolved (what else is
        # accepted only matters for malformed files, about which this property says nothing)
        R.inst("R01.5", "accepts:%s" % name, want <= got, sp=g["sp"], expect=sorted(want), got=sorted(got),
               detail="the accessor must resolve every CONSTANT_ kind the JVMS allows where it is used; an entry of such a kind that is "
                      "rejected (or looked for under another variant) makes the reader fail on a well-formed class")
        if "bool" in (g.get("output") or "") and want == {"MethodRef", "InterfaceMethodRef"}:
            # (MethodRef, is_interface): the flag is a fact of the class file (JVMS 4.4.2 / 4.4.8: which of the two kinds the handle refers to)
            flags = {}
            for vn in sorted(want & got):
                v = row[vn]
                inner = v[2][0] if v[0] == "v" and v[1] == "Ok" and v[2] else None
                last = inner[1][-1] if inner and inner[0] == "t" and inner[1] else None
                flags[vn] = last[1] if last and last[0] == "b" else None
            if any(x is None for x in flags.values()):
                R.unrecognised("R01.5", "is-interface-flag:%s" % name, "cannot evaluate the bool returned next to the method reference: %s"
                               % {k: T.show(row[k])[:60] for k in flags}, g["sp"])
            else:
                R.inst("R01.5", "is-interface-flag:%s" % name, flags == {"MethodRef": False, "InterfaceMethodRef": True}, sp=g["sp"],
                       expect={"MethodRef": False, "InterfaceMethodRef": True}, got=flags)
        if name in POOL_ACCESSOR_SAME_VARIANT:
            m = {}
            for vn in sorted(got):
                v = row[vn]
                inner = v[2][0] if v[0] == "v" and v[1] == "Ok" and v[2] else None
                m[vn] = inner[1] if inner and inner[0] in ("v", "st") else None
            R.inst("R01.5", "kind->variant:%s" % name, all(k == v for k, v in m.items()), sp=g["sp"], got=m, expect="PoolEntry::X -> X")
    for name in sorted(external):
        if name in POOL_ACCESSOR_KINDS:
            R.anchor("R01.5", "accessor PoolRead::%s evaluates (looks an entry up under its own index)" % name, name in tab and tab[name][2])


# ------------------------------------------------------------------------------------ R01.14
class EntryDeps:
    """Which payload fields of the destructured pool entry (and which parameters) the successful results of a function can depend on.
    Plain syntactic data + control dependence over the typed HIR, over-approximated everywhere (mutation through method calls on owned /
    `&mut` locals, closures, loops, assignments are all taken as flows), with one exception that is the point of the rule: what is read out
    of a shared-reference parameter (`pool: &PoolRead`, `bootstrap_methods: &Option<..>`) depends on the entry only through the key /
    index expressions used for that read.  Tokens: ("self",) the entry as a whole, ("f", Variant, field), ("p", i) parameter i."""

    def __init__(self, duke, entry_adt, summaries=None, stack=()):
        self.duke = duke
        self.entry_adt = entry_adt
        self.summaries = summaries if summaries is not None else {}
        self.stack = stack
        self.incomplete = False     # a callee could not be summarised because of the recursion guard
        self.self_ids = set()

    # ---- patterns over the entry
    def variant_fields(self, pat, out, depth=0):
        """out: list of (Variant, {field: [binding ids]}, {fields tested by a refutable sub-pattern}, [ids bound to the whole entry])"""
        p = pat
        whole = []
        while p.get("k") in ("pref", "pbox", "pderef") or (p.get("k") == "bind" and "sub" in p):
            if p.get("k") == "bind":
                whole.append(p["id"])
                p = p["sub"]
            else:
                p = p["pat"]
        k = p.get("k")
        if k == "por":
            for alt in p["pats"]:
                self.variant_fields(alt, out, depth + 1)
            for o in out:
                o[3].extend(whole)
            return
        if k == "bind":
            out.append((None, {}, set(), whole + [p["id"]]))
            return
        if k in ("pstruct", "ptuplestruct") and (p["res"].get("adt") or "") == self.entry_adt and p["res"].get("variant"):
            flds = {}
            tested = set()
            items = [(f["name"], f["pat"]) for f in p["fields"]] if k == "pstruct" else [(str(i), x) for i, x in enumerate(p["pats"])]
            for nm, fp in items:
                ids = [i for i, _ in H.pat_bindings(fp)]
                if ids:
                    flds[nm] = ids
                if H.pat_peel(fp).get("k") not in ("wild", "bind") or (H.pat_peel(fp).get("k") == "bind" and "sub" in H.pat_peel(fp)):
                    tested.add(nm)
            out.append((p["res"]["variant"], flds, tested, whole))
            return
        if whole:
            out.append((None, {}, set(), whole))

    # ---- one function
    def analyse(self, b):
        """-> (exits [(leaf node, token set)], sites [(construct kind, node, arm index|None, [(Variant, ..)])]) ; None if the body has no shape
        we can walk."""
        root = b.get("body")
        if not isinstance(root, dict):
            return None
        self.root = root
        self_ids = self.self_ids = set()
        dep = {}
        for i, prm in enumerate(b["params"]):
            for lid, nm in H.pat_bindings(prm):
                dep[lid] = {("p", i)}
                if i == 0 and nm == "self":
                    self_ids.add(lid)
                    dep[lid] = {("self",), ("p", 0)}
        self.shared_params = set()
        for prm, ty in zip(b["params"], b.get("inputs") or []):
            if (ty or "").startswith("&") and not (ty or "").startswith("&mut") and not re.match(r"^&('\w+ )?mut ", ty or ""):
                self.shared_params |= {lid for lid, _ in H.pat_bindings(prm)}
        self.dep = dep
        self.skip = set()          # ids of `self` path nodes that are the scrutinee of a destructuring (a variant test, not a use of the payload)

        def is_self(e):
            if e is None:
                return None
            e0 = H.peel(e, refs=True, derefs=True)
            l = H.local_of(e0)
            return e0 if l and l[0] in self_ids and e0.get("k") == "path" else None
        sites = []
        binders = []        # (pattern, source expr) for every other binding construct
        for n, parents in H.walk_with_parents(root):
            k = n.get("k")
            if k in ("let", "letexpr") and "init" in n:
                s0 = is_self(n["init"])
                vf = []
                if s0 is not None:
                    self.variant_fields(n["pat"], vf)
                if s0 is not None and any(v[0] for v in vf):
                    self.skip.add(id(s0))
                    sites.append((k, n, None, vf))
                else:
                    binders.append((n["pat"], [n["init"]]))
            elif k == "match":
                s0 = is_self(n["scrut"])
                vfs = []
                if s0 is not None:
                    for a in n["arms"]:
                        vf = []
                        self.variant_fields(a["pat"], vf)
                        vfs.append(vf)
                if s0 is not None and any(v[0] for vf in vfs for v in vf):
                    self.skip.add(id(s0))
                    for ai, vf in enumerate(vfs):
                        sites.append(("arm", n, ai, vf))
                else:
                    for a in n["arms"]:
                        binders.append((a["pat"], [n["scrut"]]))
            elif k == "for":
                binders.append((n["pat"], [n["iter"]]))
            elif k == "closure":
                par = parents[-1] if parents else None
                while par is not None and par.get("k") in ("ref", "block") and parents.index(par) > 0:
                    par = parents[parents.index(par) - 1]
                src = []
                if par is not None and par.get("k") in ("mcall", "call"):
                    src = ([par["recv"]] if par.get("k") == "mcall" else []) + [a for a in par["args"] if H.peel(a) is not n]
                for cp in n["params"]:
                    binders.append((cp, src))
        for _k, _n, _ai, vf in sites:
            for V, flds, _tested, whole in vf:
                for fname, ids in flds.items():
                    for lid in ids:
                        dep.setdefault(lid, set()).add(("f", V, fname))
                        dep[lid].add(("p", 0))
                for lid in whole:
                    dep.setdefault(lid, set()).update({("self",), ("p", 0)})
        # ---- fixed point over bindings, assignments and (possible) mutation through calls
        changed = True
        rounds = 0
        while changed and rounds < 30:
            changed = False
            rounds += 1

            def add(lid, toks):
                nonlocal changed
                if lid in self.shared_params:
                    return
                cur = dep.setdefault(lid, set())
                if not toks <= cur:
                    cur |= toks
                    changed = True
            for pat, srcs in binders:
                toks = set()
                for e in srcs:
                    toks |= self.deps(e)
                for lid, _ in H.pat_bindings(pat):
                    add(lid, toks)
            for n in H.walk(root):
                k = n.get("k")
                if k in ("assign", "assignop"):
                    l = H.recv_root(n["l"]) or H.local_of(H.peel(n["l"]))
                    if l:
                        add(l[0], self.deps(n["r"]) | self.control(n))
                elif k == "mcall" and n["args"]:
                    rty = (n["recv"].get("ty") or "")
                    if rty.startswith("&") and not rty.startswith("&mut"):
                        continue
                    l = H.recv_root(n["recv"])
                    if l:
                        toks = set()
                        for a in n["args"]:
                            toks |= self.deps(a)
                        add(l[0], toks | self.control(n))
                elif k == "call":
                    muts = [H.local_of(H.peel(a)) for a in n["args"] if a.get("k") == "ref" and a.get("mut")]
                    if any(muts):
                        toks = set()
                        for a in n["args"]:
                            toks |= self.deps(a)
                        for l in muts:
                            if l:
                                add(l[0], toks | self.control(n))
        # ---- successful exits
        exits = []
        for leaf in self.success_leaves(root):
            exits.append((leaf, self.deps(leaf) | self.control(leaf)))
        return exits, sites

    def control(self, node):
        toks = set()
        for kind, cn, extra in H.path_conditions(self.root, node, skip_error_exits=True):
            if kind in ("if", "after-exit"):
                toks |= self.deps(cn)
            elif kind == "iflet":
                toks |= self.deps(cn["init"])
            elif kind == "letelse":
                if "init" in cn:
                    toks |= self.deps(cn["init"])
            elif kind == "arm":
                toks |= self.deps(cn["scrut"])
                for a in cn["arms"][:extra + 1]:
                    if "guard" in a and not any(x is node for x in H.walk(a["guard"])):
                        toks |= self.deps(a["guard"])
                    vf = []
                    if id(H.peel(cn["scrut"], refs=True, derefs=True)) in self.skip:
                        self.variant_fields(a["pat"], vf)
                        for V, _f, tested, _w in vf:
                            toks |= {("f", V, t) for t in tested}
        return toks

    def deps(self, e):
        toks = set()
        stack = [e]
        while stack:
            n = stack.pop()
            if not isinstance(n, dict):
                continue
            if n.get("ty") == "!" or n.get("k") == "ret":
                continue        # a diverging sub-expression (bail!, return) contributes no value
            k = n.get("k")
            if k == "path":
                r = n["res"]
                if r.get("r") == "local" and id(n) not in self.skip:
                    toks |= self.dep.get(r["id"], set())
                continue
            if k in ("call", "mcall"):
                c = n.get("callee") or {}
                summ = self.summary(c.get("inst_key") or c.get("key"))
                if summ is not None:
                    args = ([n["recv"]] if k == "mcall" else []) + list(n["args"])
                    a0 = H.peel(args[0], refs=True, derefs=True) if args else None
                    entry_passed_on = (c.get("impl_ty") or "") == self.entry_adt and a0 is not None and a0.get("k") == "path" \
                        and a0["res"].get("r") == "local" and a0["res"]["id"] in self.self_ids
                    for t in summ:
                        if t[0] == "p":
                            if t[1] == 0 and entry_passed_on:
                                toks.add(("p", 0))
                            elif t[1] < len(args):
                                stack.append(args[t[1]])
                        elif entry_passed_on:
                            toks.add(t)         # the callee works on this very entry: its field-level dependence is ours
                    if "f" in n:
                        stack.append(n["f"])
                    continue
            stack.extend(H.children(n))
        return toks

    def summary(self, key):
        """Tokens the successful result of the pool-module function `key` can depend on, in terms of its own parameters (and, for a method
        of the entry, of the entry's fields); None = unknown (every argument counts)."""
        if not key or not key.startswith(POOLMOD):
            return None
        if key in self.summaries:
            return self.summaries[key]
        if key in self.stack or len(self.stack) > 6:
            self.incomplete = True
            return None
        g = self.duke.by_key.get(key)
        if g is None or not isinstance(g.get("body"), dict) or g.get("dk") not in ("Fn", "AssocFn"):
            self.summaries[key] = None
            return None
        sub = EntryDeps(self.duke, self.entry_adt, self.summaries, self.stack + (key,))
        try:
            res = sub.analyse(g)
        except RecursionError:
            res = None
        if sub.incomplete:
            self.incomplete = True
        if not res or not res[0]:
            if not sub.incomplete:
                self.summaries[key] = None
            return None
        out = set()
        for _leaf, toks in res[0]:
            out |= toks
        if sub.incomplete:
            return out | {("p", i) for i in range(len(g["params"]))}      # cut by the recursion guard somewhere below: not memoised
        self.summaries[key] = out
        return out

    @staticmethod
    def success_leaves(root):
        return D.success_leaves(root)


def _in_scope(root, site, leaf):
    """Is the successful exit `leaf` reached only with the entry destructured at `site` = (kind, node, arm index, ..)?  `let` (with or
    without else): every later statement of its block; `if let`: the then-branch; match arm: the arm body, and - when the arm completes
    normally - everything after the statement that contains the match."""
    kind, node, ai, _vf = site
    chain = (H.parents_of(root, leaf) or []) + [leaf]

    def after_stmt(stmt_pred):
        for p in chain:
            if p.get("k") == "block":
                items = p["stmts"] + ([p["tail"]] if "tail" in p else [])
                si = next((j for j, x in enumerate(items) if stmt_pred(x)), None)
                li = next((j for j, x in enumerate(items) if any(x is y for y in chain)), None)
                if si is not None and li is not None and li > si:
                    return True
        return False
    if kind == "let":
        return after_stmt(lambda x: x is node)
    if kind == "letexpr":
        for p in chain:
            if p.get("k") == "if" and H.peel(p["cond"], refs=False) is node:
                return any(x is p["then"] for x in chain)
        return False
    arm = node["arms"][ai]
    if any(x is arm["body"] for x in chain):
        return True
    if any(x is node for x in chain):
        return False
    if H.diverges(arm["body"]):
        return False
    return after_stmt(lambda x: any(y is node for y in H.walk(x)))


def r01_14(duke, R):
    R.rule("R01.14", "lazy pool resolution is a function of the entry: in every method of PoolEntry that an accessor of PoolRead hands the "
                     "looked-up entry to, each successfully returned value for an entry of variant V depends (data or control dependence; "
                     "private functions of the pool module are followed, a method called on the same entry contributes its own field-level "
                     "dependence) on every payload field of V - a result that ignores a field (e.g. one taken from a memo table keyed by "
                     "only part of the entry) reports the facts of a different constant-pool entry")
    entry_adt = POOLMOD + "PoolEntry"
    adt = duke.adts.get(entry_adt)
    if not R.anchor("R01.14", "enum PoolEntry", adt):
        return
    fields_of = {v["name"]: [f["name"] for f in v["fields"]] for v in adt["variants"]}
    # resolvers: inherent methods of the entry called (outside closures and error exits) from an inherent `(&self, index: u16, ..)` method of PoolRead
    resolvers = {}
    for a in duke.bodies:
        if (a.get("impl_ty") or "") != POOLMOD + "PoolRead" or a.get("impl_trait") or a.get("dk") != "AssocFn" or not isinstance(a.get("body"), dict):
            continue
        if len(a.get("inputs") or []) < 2 or a["inputs"][1] != "u16":
            continue
        stack = [a["body"]]
        while stack:
            n = stack.pop()
            if not isinstance(n, dict) or n.get("k") in ("closure", "ret") or n.get("ty") == "!":
                continue
            if n.get("k") in ("call", "mcall"):
                c = n.get("callee") or {}
                g = duke.by_key.get(c.get("inst_key") or c.get("key"))
                if g is not None and (g.get("impl_ty") or "") == entry_adt and not g.get("impl_trait") and isinstance(g.get("body"), dict):
                    resolvers[g["key"]] = g
            stack.extend(H.children(n))
    if not R.anchor("R01.14", "methods of PoolEntry called by the accessors of PoolRead", len(resolvers) >= 8):
        return
    # ... and the methods those call on the same entry to obtain a resolved value (as_loadable -> as_string / as_method_type / as_dynamic):
    # their exits are judged one by one as well. A helper that merely projects raw payload (result built from integers / bools only) is
    # not a resolver: what it returns is composed into its caller's dependence instead.
    raw_only = re.compile(r"^(core::result::Result<|core::option::Option<|\(|\)|,|\s|>|anyhow::Error|bool|[iu](8|16|32|64|128|size))*$")
    work = list(resolvers.values())
    while work:
        h = work.pop()
        self_ids = {i for i, nm in H.pat_bindings(h["params"][0])} if h["params"] else set()
        stack = [h["body"]]
        while stack:
            n = stack.pop()
            if not isinstance(n, dict) or n.get("k") in ("closure", "ret") or n.get("ty") == "!":
                continue
            if n.get("k") == "mcall":
                c = n.get("callee") or {}
                g = duke.by_key.get(c.get("inst_key") or c.get("key"))
                r0 = H.peel(n["recv"], refs=True, derefs=True)
                if g is not None and g["key"] not in resolvers and (g.get("impl_ty") or "") == entry_adt and not g.get("impl_trait") \
                        and isinstance(g.get("body"), dict) and H.local_of(r0) and H.local_of(r0)[0] in self_ids \
                        and not raw_only.match(g.get("output") or ""):
                    resolvers[g["key"]] = g
                    work.append(g)
            stack.extend(H.children(n))
    verdict = {}        # (Variant, field) -> [(function name, exit) where a success path ignores it]
    summaries = {}
    n_fn = 0
    for key in sorted(resolvers):
        b = resolvers[key]
        an = EntryDeps(duke, entry_adt, summaries, (b["key"],))
        try:
            res = an.analyse(b)
        except RecursionError:
            res = None
        if res is None:
            R.unrecognised("R01.14", "fn:%s" % b["name"], "cannot analyse the body", b["sp"])
            continue
        exits, sites = res
        if not any(v[0] for s_ in sites for v in s_[3]):
            continue
        n_fn += 1
        for site in sites:
            for V, _flds, _tested, _whole in site[3]:
                if not V:
                    continue
                for f in fields_of.get(V, []):
                    verdict.setdefault((V, f), [])
                for leaf, toks in exits:
                    if ("self",) in toks or not _in_scope(b["body"], site, leaf):
                        continue
                    for f in fields_of.get(V, []):
                        if ("f", V, f) not in toks:
                            verdict[(V, f)].append((b["name"], leaf))
    for (V, f), bad in sorted(verdict.items()):
        R.inst("R01.14", "entry-use:%s.%s" % (V, f) + ("" if not bad else "=ignored-on-a-success-path"), not bad,
               sp=bad[0][1].get("sp") if bad else adt.get("sp"),
               expect="every value returned for a %s entry depends on its %s" % (V, f),
               got=None if not bad else ["%s: `%s`" % (fn, H.render(leaf)[:80]) for fn, leaf in bad][:4],
               detail="two entries that differ only in this field would be resolved to the same value")
    R.inst("R01.14", "entry-methods-analysed", n_fn >= 8, got=n_fn, nontrivial=False)
    R.floor("R01.14", 20)


# ------------------------------------------------------------------------------------ R01.15
INT_RANGE = {"u8": (0, 0xff), "u16": (0, 0xffff), "u32": (0, 0xffffffff), "u64": (0, 2 ** 64 - 1), "usize": (0, 2 ** 64 - 1), "u128": (0, 2 ** 128 - 1),
             "i8": (-0x80, 0x7f), "i16": (-0x8000, 0x7fff), "i32": (-2 ** 31, 2 ** 31 - 1), "i64": (-2 ** 63, 2 ** 63 - 1),
             "isize": (-2 ** 63, 2 ** 63 - 1), "i128": (-2 ** 127, 2 ** 127 - 1)}


def _int_ty(ty):
    ty = (ty or "").strip()
    while ty.startswith("&"):
        ty = ty[1:].lstrip()
        if ty.startswith("mut "):
            ty = ty[4:]
    return ty if ty in INT_RANGE else None


def _result_int_ty(ty):
    m = re.match(r"^(?:core::result::Result|core::option::Option)<([iu](?:8|16|32|64|128|size))\b", ty or "")
    return m.group(1) if m else None


class IntEvaluator(T.Evaluator):
    """Partial evaluator with the integer semantics of Rust for concrete operands: `as` casts wrap to the target type, the checked_* /
    wrapping_* / try_from / try_into / from / into family works on the ranges of the operand types, `+ - *` outside the type's range is
    an overflow (reported as a symbol, never a silently wrong number), Option <-> Result adaptors (`context`, `ok_or`, `ok`) pass the
    payload on."""

    def ev(self, n, env):
        k = n.get("k")
        if k == "cast":
            v = self.ev(n["e"], env)
            t = _int_ty(n.get("ty"))
            if v[0] == "i" and t:
                lo, hi = INT_RANGE[t]
                span = hi - lo + 1
                return ("i", (v[1] - lo) % span + lo)
            return v
        if k == "bin" and n["op"] in ("+", "-", "*"):
            v = T.Evaluator.ev(self, n, env)
            t = _int_ty(n.get("ty"))
            if v[0] == "i" and t and not (INT_RANGE[t][0] <= v[1] <= INT_RANGE[t][1]):
                return T.sym("<overflow of %s>" % t)
            return v
        return T.Evaluator.ev(self, n, env)

    def call(self, n, c, args, env):
        name = H.callee_name(n)
        k = n.get("k")
        a0 = args[0] if args else None
        conc = lambda x: x is not None and x[0] == "i"
        recv_ty = _int_ty((n.get("recv") or {}).get("ty")) if k == "mcall" else None
        if name in ("checked_add_signed", "checked_add", "checked_sub", "checked_add_unsigned", "checked_sub_unsigned", "checked_mul") and recv_ty \
                and len(args) == 2 and conc(a0) and conc(args[1]):
            v = a0[1] - args[1][1] if "sub" in name else a0[1] * args[1][1] if "mul" in name else a0[1] + args[1][1]
            lo, hi = INT_RANGE[recv_ty]
            return T.V("Some", ("i", v)) if lo <= v <= hi else T.V("None")
        if name in ("wrapping_add", "wrapping_sub", "wrapping_add_signed", "saturating_add", "saturating_sub", "saturating_add_signed") and recv_ty \
                and len(args) == 2 and conc(a0) and conc(args[1]):
            v = a0[1] - args[1][1] if "sub" in name else a0[1] + args[1][1]
            lo, hi = INT_RANGE[recv_ty]
            if name.startswith("wrapping"):
                return ("i", (v - lo) % (hi - lo + 1) + lo)
            return ("i", min(max(v, lo), hi))
        if name in ("try_into", "try_from") and len(args) == 1 and conc(a0):
            t = _result_int_ty(n.get("ty"))
            if t:
                lo, hi = INT_RANGE[t]
                return T.V("Ok", a0) if lo <= a0[1] <= hi else T.V("Err", T.sym("TryFromIntError"))
        if name in ("from", "into") and len(args) == 1 and conc(a0) and _int_ty(n.get("ty")):
            return a0
        if name in ("context", "with_context", "ok_or", "ok_or_else", "map_err") and args:
            if a0[0] == "v" and a0[1] == "Some":
                return T.V("Ok", *a0[2])
            if a0[0] == "v" and a0[1] == "None":
                return T.V("Err", T.sym("context"))
            if a0[0] == "err" or (a0[0] == "v" and a0[1] in ("Ok", "Err")):
                return a0
        if name in ("map", "and_then") and len(args) == 2 and a0[0] == "v" and a0[1] in ("Some", "Ok", "None", "Err") and args[1][0] == "closure":
            if a0[1] in ("None", "Err"):
                return a0
            cn, cenv = args[1][1], dict(args[1][2])
            if len(cn["params"]) == 1 and len(a0[2]) == 1 and T.match_pat(cn["params"][0], a0[2][0], cenv) is True:
                try:
                    r = self.ev(cn["body"], cenv)
                except T.Return as ret:
                    r = ret.v
                return T.V(a0[1], r) if name == "map" else r
        if name == "ok" and len(args) == 1 and a0[0] == "v" and a0[1] in ("Ok", "Err"):
            return T.V("Some", *a0[2]) if a0[1] == "Ok" else T.V("None")
        if name in ("unsigned_abs", "abs") and len(args) == 1 and conc(a0):
            return ("i", abs(a0[1]))
        if name in ("is_negative", "is_positive") and len(args) == 1 and conc(a0):
            return ("b", a0[1] < 0 if name == "is_negative" else a0[1] > 0)
        return T.Evaluator.call(self, n, c, args, env)


BRANCH_PROBES = {
    # offset width -> [(opcode position, branch offset)]; a method is at most 65535 bytes long (JVMS 4.7.3), so every sum in 0..=65535 is a
    # possible target and the offset of a wide branch ranges over -65535..=65535.  Only sums inside 0..=65535 are probed: what happens
    # for a sum outside concerns malformed class files, about which this property says nothing.
    "i16": [(7, 3), (3, -3), (0, 32767), (32768, 32767), (40000, -32768), (65535, -32768), (65535, 0), (0, 0)],
    "i32": [(7, 3), (3, -3), (0, 32767), (40000, -32768), (0, 32768), (0, 40000), (0, 65535), (40000, -32769), (65535, -65535),
            (60000, -40000), (65535, 0), (0, 0)],
}


def r01_15(duke, R):
    R.rule("R01.15", "branch targets: each helper of the class reader that turns a signed branch offset read from the stream (i16: if*/goto/jsr; "
                     "i32: goto_w/jsr_w and the tableswitch/lookupswitch targets) plus the opcode position (u16) into a target offset returns "
                     "exactly position + offset whenever that sum lies in 0..=65535 - for the 32 bit form over the whole offset range "
                     "-65535..=65535, which is what the wide forms exist for (evaluated at boundary probes)")
    helpers = []
    for b in duke.bodies:
        if not b["path"].startswith("duke::class_reader::") or b.get("dk") not in ("Fn", "AssocFn") or not isinstance(b.get("body"), dict):
            continue
        if len(b.get("inputs") or []) != 2 or b["inputs"][1] != "u16" or _result_int_ty(b.get("output")) != "u16":
            continue
        ids = [i for i, _ in H.pat_bindings(b["params"][0])]
        reads = [x["name"] for x in H.walk(b["body"], into_closures=False) if x.get("k") == "mcall" and x["name"] in ("read_i16", "read_i32", "read_u16", "read_u32")
                 and H.local_of(x["recv"]) and H.local_of(x["recv"])[0] in ids]
        if len(reads) == 1:
            helpers.append((b, "i" + reads[0][len("read_") + 1:]))     # an offset read unsigned and reinterpreted (`read_u16()? as i16`) is the same
    widths = sorted(w for _b, w in helpers)
    if not R.anchor("R01.15", "the branch-target helpers of class_reader ((stream, opcode_pos: u16) -> Result<u16>, one reading i16, one i32)",
                    widths == ["i16", "i32"]):
        return
    inl = D.helper_inline(duke)
    for b, w in helpers:
        for pos, off in BRANCH_PROBES[w]:
            bits = int(w[1:])
            ev = IntEvaluator(calls={"read_" + w: (lambda args, off=off: T.V("Ok", ("i", off))),
                                     "read_u" + w[1:]: (lambda args, off=off, bits=bits: T.V("Ok", ("i", off % (1 << bits))))}, inline=inl, max_inline=3)
            try:
                res = ev.run_fn(b, [T.sym("stream"), ("i", pos)])
            except Exception as e:
                res = T.sym("?" + type(e).__name__)
            want = pos + off
            if res[0] == "err" or (res[0] == "v" and res[1] == "Err"):
                got = "error"
            elif res[0] == "v" and res[1] == "Ok" and res[2] and res[2][0][0] == "i":
                got = res[2][0][1]
            else:
                R.unrecognised("R01.15", "branch-target:%s:pos=%d,offset=%d" % (w, pos, off),
                               "cannot evaluate the helper at this probe: %s" % T.show(res)[:120], b["sp"])
                continue
            R.inst("R01.15", "branch-target:%s:pos=%d,offset=%d" % (w, pos, off), got == want, sp=b["sp"], expect=want, got=got,
                   detail="target = opcode position + offset; every sum in 0..=65535 is a possible instruction offset of a method "
                          "(code_length <= 65535)")
    R.floor("R01.15", 18)


# ------------------------------------------------------------------------------------ R01.6
CONTAINER_MUTATORS = {"push", "push_back", "push_front", "insert", "extend", "get_or_insert_with", "entry", "or_insert_with", "or_default", "reserve",
                      "sort", "sort_by", "sort_by_key", "dedup", "clear", "truncate", "append"}
SIZE_QUERIES = {"len", "is_empty", "capacity", "is_some", "is_none"}


def write_only_locals(body):
    """Locals of container type that are only ever mutated / size-queried, never read, moved, iterated or passed on."""
    out = []
    decls = {}
    for n in H.walk(body["body"]):
        if n.get("k") == "let" and n["pat"].get("k") == "bind":
            ty = n["pat"].get("ty") or ""
            if any(t in ty for t in ("alloc::vec::Vec<", "VecDeque<", "HashMap<", "IndexMap<", "HashSet<", "IndexSet<", "BTreeMap<")):
                decls[n["pat"]["id"]] = n
    if not decls:
        return out
    # aliases: `let table = x.get_or_insert_with(..)` / `x.as_mut()` are views of x
    uses = {i: [] for i in decls}
    alias_of = {}
    for n, parents in H.walk_with_parents(body["body"]):
        if n.get("k") == "path" and n["res"].get("r") == "local":
            lid = n["res"]["id"]
            root = alias_of.get(lid, lid)
            if root in uses:
                uses[root].append((n, parents))
        if n.get("k") == "let" and "init" in n and n["pat"].get("k") == "bind":
            init = H.peel(n["init"])
            if init.get("k") == "mcall" and init["name"] in ("get_or_insert_with", "as_mut", "get_or_insert", "get_or_insert_default"):
                r = H.recv_root(init["recv"])
                if r and alias_of.get(r[0], r[0]) in decls:
                    alias_of[n["pat"]["id"]] = alias_of.get(r[0], r[0])
    for lid, us in uses.items():
        if not us:
            continue
        consumed = False
        for n, parents in us:
            # climb through refs / derefs to the first significant parent
            i = len(parents) - 1
            child = n
            while i >= 0 and parents[i].get("k") in ("ref", "un", "semi") and (parents[i].get("k") != "un" or parents[i].get("op") == "deref"):
                child = parents[i]
                i -= 1
            p = parents[i] if i >= 0 else None
            if p is None:
                consumed = True
                break
            if p.get("k") == "mcall" and p["recv"] is child or (p.get("k") == "mcall" and H.peel(p["recv"]) is n):
                if p["name"] in CONTAINER_MUTATORS or p["name"] in SIZE_QUERIES:
                    # a view alias created from it is tracked through alias_of
                    continue
                if p["name"] in ("get_or_insert_with", "as_mut", "get_or_insert", "get_or_insert_default"):
                    continue
                consumed = True
                break
            if p.get("k") == "let" and p.get("init") is child:
                # `let x = y;` move / alias -> treat as consumption unless it is a tracked view
                if p["pat"].get("k") == "bind" and p["pat"]["id"] in alias_of:
                    continue
                consumed = True
                break
            if p.get("k") == "assign" and p["l"] is child:
                continue
            consumed = True
            break
        if not consumed:
            out.append((decls[lid]["pat"]["name"], decls[lid]))
    return out


def r01_6(duke, R, S):
    R.rule("R01.6", "nothing the reader parses is dropped: no local table in a class_reader function is only ever filled (write-only accumulator), and "
                    "every method of the visitor traits has a call site in class_reader (frozen exceptions: declared-unimplemented API)")
    n_fns = 0
    for b in duke.bodies:
        if not b["path"].startswith("duke::class_reader::") or b["dk"] not in ("Fn", "AssocFn"):
            continue
        n_fns += 1
        for name, decl in write_only_locals(b):
            R.inst("R01.6", "write-only:%s:%s" % (b["path"].replace("duke::class_reader::", ""), name), False, sp=decl["sp"],
                   detail="`%s` is filled but never read, moved, iterated or handed to the visitor" % name)
        R.inst("R01.6", "fn:%s" % b["path"].replace("duke::class_reader::", ""), True, sp=b["sp"], nontrivial=False)
    # visitor method call coverage
    called = set()
    for b in duke.bodies:
        if b["path"].startswith("duke::class_reader"):
            for n in H.walk(b["body"]):
                if n.get("k") in ("call", "mcall"):
                    c = n.get("callee") or {}
                    if c.get("trait", "").startswith("duke::visitor::"):
                        called.add(c.get("path"))
    EXEMPT = {
        "duke::visitor::method::MethodVisitor::visit_annotable_parameter_count": "parameter annotations are a declared todo!() API (see R01.8 finding)",
        "duke::visitor::method::MethodVisitor::visit_parameter_annotation": "parameter annotations are a declared todo!() API (see R01.8 finding)",
        "duke::visitor::method::MethodVisitor::visit_parameter_annotations": "parameter annotations are a declared todo!() API",
        "duke::visitor::method::MethodVisitor::finish_parameter_annotations": "parameter annotations are a declared todo!() API",
    }
    n_methods = 0
    for tp, t in duke.traits.items():
        if not tp.startswith("duke::visitor::") or tp.startswith("duke::visitor::simple"):
            continue
        for m in t["methods"]:
            name = m["name"]
            if not (name.startswith(("visit_", "finish_", "interests"))):
                continue
            path = "%s::%s" % (tp, name)
            n_methods += 1
            if path in EXEMPT:
                R.inst("R01.6", "visitor-call:%s::%s" % (tp.rsplit("::", 1)[-1], name), True, detail="exempt: " + EXEMPT[path], nontrivial=False)
                continue
            R.inst("R01.6", "visitor-call:%s::%s" % (tp.rsplit("::", 1)[-1], name), path in called, sp=t["sp"],
                   detail="the reader never calls this visitor method: what it would deliver is dropped")
    R.floor("R01.6", 60)


# ------------------------------------------------------------------------------------ R01.8
LOCATIONS = {"read": "class", "read_field": "field", "read_method": "method", "read_code": "code", "read_record_component": "record_component"}
# attributes handled outside the dispatch (header fields) or structurally different
NOT_DISPATCHED = {"Code": None}


def dispatch_tables(duke):
    out = {}
    for fn, loc in LOCATIONS.items():
        b = duke.fn(fn, within="duke::class_reader::" + fn)
        if not b:
            b = next((x for x in duke.bodies if x["path"] == "duke::class_reader::" + fn), None)
        if not b:
            out[loc] = None
            continue
        ms = D.attr_dispatch_matches(b["body"])
        out[loc] = (b, ms[0] if len(ms) == 1 else None)
    return out


def r01_8(duke, R, S):
    R.rule("R01.8", "attribute dispatch per location (class, field, method, code, record component): every JVMS attribute of that location has a "
                    "dedicated arm whose interested form parses the body into a visitor call (or a flag); an interested arm that only skips the "
                    "bytes drops the attribute; unknown names go to visit_unknown_attribute")
    tabs = dispatch_tables(duke)
    for loc, v in tabs.items():
        if not R.anchor("R01.8", "attribute dispatch of %s" % loc, v and v[1]):
            continue
        b, m = v
        arms = D.attr_arms(m)
        names = {}
        for a in arms:
            if a["name"]:
                names.setdefault(a["name"], []).append(a)
        for attr, locs in S["attributes"].items():
            if loc not in locs:
                continue
            if attr == "StackMapTable" and loc == "code":
                pass
            have = names.get(attr)
            if not have:
                R.inst("R01.8", "%s:%s=no-arm" % (loc, attr), False, sp=m["sp"], detail="JVMS attribute of this location has no dedicated arm (falls to unknown)")
                continue
            # the interested form: the arm without a negated-interest guard
            interested = [a for a in have if not (a["interest"] and a["interest"][1])]
            if not interested:
                R.inst("R01.8", "%s:%s=never-parsed" % (loc, attr), False, sp=have[0]["sp"])
                continue
            body = interested[0]["body"]
            calls = [H.callee_name(x) for x in H.walk(body) if x.get("k") in ("call", "mcall")]
            only_skip = set(calls) <= {"skip"} and "skip" in calls
            sets_flag = any(x.get("k") == "assign" for x in H.walk(body))
            delivers = any(c and (c.startswith("visit_") or c.startswith("read_") or c in ("insert_if_empty", "get_or_insert_with")) for c in calls)
            ok = (delivers or sets_flag) and not only_skip
            R.inst("R01.8", "%s:%s%s" % (loc, attr, "" if ok else "=skipped-when-interested"), ok, sp=interested[0]["sp"],
                   detail=None if ok else "the arm taken when the visitor IS interested only skips the bytes: the attribute is never delivered", got=calls[:6])
        # catch-all: unknown attributes delivered
        tail = [a for a in arms if a["name"] is None]
        deliver = any(any(H.is_call(x, "visit_unknown_attribute") for x in H.walk(a["body"])) for a in tail)
        R.inst("R01.8", "%s:unknown-attributes-delivered" % loc, deliver, sp=m["sp"])
    R.floor("R01.8", 50)


# ------------------------------------------------------------------------------------ R01.10
def r01_10(duke, R, S):
    R.rule("R01.10", "the nine access-flag conversions: From<u16> sets each boolean from the JVMS mask of that location, Into<u16> emits the same "
                     "mask for the same field (field <-> mask bijection per type)")
    n = 0
    for tyname, masks in S["access_flags"].items():
        adt = next((p for p in duke.adts if p.rsplit("::", 1)[-1] == tyname), None)
        if not R.anchor("R01.10", "struct " + tyname, adt):
            continue
        fields = [f["name"] for f in duke.adts[adt]["variants"][0]["fields"]]
        R.inst("R01.10", "%s:field-set" % tyname, sorted(fields) == sorted(masks), sp=duke.adts[adt]["sp"], expect=sorted(masks), got=sorted(fields))
        frm = [b for b in duke.fns("from") if b.get("impl_ty") == adt and "From<u16>" in (b.get("impl_trait") or "")]
        into = [b for b in duke.fns("from") if b.get("impl_ty") == "u16" and ("From<%s>" % adt) in (b.get("impl_trait") or "")]
        if R.anchor("R01.10", "impl From<u16> for " + tyname, len(frm) == 1):
            # the function is evaluated (partial evaluation of its text) at 0 and at each single bit: a field must be true exactly at its mask
            table = {}
            bad = None
            for bit in [0] + [1 << k for k in range(16)]:
                ev = FlagEvaluator()
                res = ev.run_fn(frm[0], [("i", bit)])
                if res[0] != "st" or any(v[0] != "b" for v in res[2].values()):
                    bad = "From<u16> for %s does not evaluate to a struct of booleans at %#06x: %s" % (tyname, bit, T.show(res)[:120])
                    break
                for fld, v in res[2].items():
                    if v[1]:
                        table.setdefault(fld, []).append(bit)
            if bad:
                R.unrecognised("R01.10", "%s:from" % tyname, bad, frm[0]["sp"])
            else:
                for fld, mask in masks.items():
                    n += 1
                    got = table.get(fld, [])
                    R.inst("R01.10", "%s.%s:from" % (tyname, fld), got == [mask], sp=frm[0]["sp"], expect=hex(mask), got=[hex(x) for x in got])
        if R.anchor("R01.10", "impl From<%s> for u16" % tyname, len(into) == 1):
            # evaluated with exactly one field set (and with none): the result must be that field's mask (resp. 0)
            bad = None
            got = {}
            for fld in [None] + list(masks):
                ev = FlagEvaluator()
                val = ("st", tyname, {f: ("b", f == fld) for f in fields})
                res = ev.run_fn(into[0], [val])
                if res[0] != "i":
                    bad = "From<%s> for u16 does not evaluate to an integer with only %s set: %s" % (tyname, fld, T.show(res)[:120])
                    break
                got[fld] = res[1]
            if bad:
                R.unrecognised("R01.10", "%s:into" % tyname, bad, into[0]["sp"])
            else:
                R.inst("R01.10", "%s:into-empty" % tyname, got[None] == 0, sp=into[0]["sp"], expect=0, got=got[None], nontrivial=False)
                for fld, mask in masks.items():
                    n += 1
                    R.inst("R01.10", "%s.%s:into" % (tyname, fld), got.get(fld) == mask, sp=into[0]["sp"], expect=hex(mask),
                           got=hex(got[fld]) if isinstance(got.get(fld), int) else got.get(fld))
    R.floor("R01.10", 2 * 54)


def _iteration_bodies(node):
    """bodies executed once per element: `for` loops and the closures handed to the per-element iterator methods."""
    out = []
    for x in H.walk(node):
        if x.get("k") == "for":
            out.append(x["body"])
        elif x.get("k") == "mcall" and H.callee_name(x) in ("try_for_each", "for_each", "map", "try_fold", "fold"):
            for a in x.get("args", []):
                a = H.peel(a)
                if a.get("k") == "closure":
                    out.append(a["body"])
    return out


class FlagEvaluator(T.Evaluator):
    """Evaluator that also executes assignments to plain locals and calls of local closures - enough for straight-line bit twiddling."""

    def ev(self, n, env):
        k = n.get("k")
        if k in ("assign", "assignop"):
            l = H.peel(n["l"])
            r = self.ev(n["r"], env)
            lid = H.local_of(l)
            if lid and l.get("k") == "path":
                if k == "assign":
                    env[lid[0]] = r
                else:
                    cur = env.get(lid[0], T.sym(lid[1]))
                    op = n["op"].rstrip("=") if n["op"].endswith("=") and n["op"] not in ("==", "<=", ">=", "!=") else n["op"]
                    if cur[0] == "i" and r[0] == "i" and op in ("|", "&", "+", "^", "-"):
                        env[lid[0]] = ("i", {"|": cur[1] | r[1], "&": cur[1] & r[1], "+": cur[1] + r[1], "^": cur[1] ^ r[1], "-": cur[1] - r[1]}[op])
                    else:
                        env[lid[0]] = T.sym("%s %s %s" % (T.show(cur), n["op"], T.show(r)))
                return ("t", [])
            return T.Evaluator.ev(self, n, env)
        if k == "call" and ((n.get("callee") or {}).get("r") == "local" or "f" in n):
            c = n.get("callee") or {}
            if c.get("r") == "local":
                f = env.get(c["id"])
            else:
                f = self.ev(n["f"], env)
            if f is not None and f[0] == "closure":
                cn, cenv = f[1], dict(f[2])
                args = [self.ev(a, env) for a in n["args"]]
                for p, a in zip(cn["params"], args):
                    T.match_pat(p, a, cenv)
                try:
                    return self.ev(cn["body"], cenv)
                except T.Return as r:
                    return r.v
        if k == "bin" and n["op"] == "^":
            l, r = self.ev(n["l"], env), self.ev(n["r"], env)
            if l[0] == "i" and r[0] == "i":
                return ("i", l[1] ^ r[1])
        if k == "if":
            # the blocks of an `if` share the environment of the function (assignments inside a taken branch must be visible afterwards)
            cv = self.ev(n["cond"], env) if H.peel(n["cond"], refs=False).get("k") != "letexpr" else None
            if cv == ("b", True):
                return self.ev(n["then"], env)
            if cv == ("b", False):
                return self.ev(n["else"], env) if "else" in n else ("t", [])
        return T.Evaluator.ev(self, n, env)


def _tail(n):
    n = H.peel(n, refs=False)
    while n.get("k") == "block" and "tail" in n and not n["stmts"]:
        n = H.peel(n["tail"], refs=False)
    return n


# ------------------------------------------------------------------------------------ R01.11
def r01_11(duke, R, S):
    R.rule("R01.11", "remaining tag tables of the reader equal the JVMS: verification_type_info tags and payloads, stack-map frame-type ranges with "
                     "their offset_delta / k formulae, element_value tags, type-annotation target types per location, type_path kinds, 4-byte alignment")
    # verification types
    b = duke.fn("read_verification_type_info")
    if R.anchor("R01.11", "fn read_verification_type_info", b):
        ms = D.int_matches(b["body"], 5)
        if R.anchor("R01.11", "tag match in read_verification_type_info", len(ms) == 1, sp=b["sp"]):
            tag_name = {v: k for k, v in S["verification_types"].items()}
            for tag in range(0, 12):
                res, ev = D.eval_arm(ms[0], tag)
                arm = D.arm_for(ms[0], tag)
                if tag not in tag_name:
                    R.inst("R01.11", "vti:%d=invalid" % tag, res[0] == "err", sp=arm["sp"], nontrivial=tag == 9)
                    continue
                R.inst("R01.11", "vti:%d:%s" % (tag, tag_name[tag]), res[0] == "v" and res[1] == tag_name[tag], sp=arm["sp"], expect=tag_name[tag], got=T.show(res)[:40])
                reads = D.payload_reads(ev, ms[0])
                kinds = [r[1] + (":" + D.consumer_kind(arm["body"], r[3]) if D.consumer_kind(arm["body"], r[3]) else "") for r in reads]
                R.inst("R01.11", "vti-payload:%s" % tag_name[tag], kinds == S["verification_payload"].get(tag_name[tag], []), sp=arm["sp"],
                       expect=S["verification_payload"].get(tag_name[tag], []), got=kinds, nontrivial=bool(kinds))
    # frame types
    f = duke.fn("read_stack_map_frame")
    if R.anchor("R01.11", "fn read_stack_map_frame", f):
        ms = D.int_matches(f["body"], 5)
        if R.anchor("R01.11", "frame_type match", len(ms) == 1, sp=f["sp"]):
            for ft in S["frame_types"]:
                for v in sorted({ft["lo"], ft["hi"], (ft["lo"] + ft["hi"]) // 2}):
                    res, ev = D.eval_arm(ms[0], v)
                    arm = D.arm_for(ms[0], v)
                    key = "frame:%s:%d" % (ft["name"], v)
                    if ft["data"] is None:
                        R.inst("R01.11", key, res[0] == "err", sp=arm["sp"], expect="error", got=T.show(res)[:40])
                        continue
                    ok = res[0] == "t" and len(res[1]) == 2
                    data = res[1][1] if ok else None
                    dname = None
                    if data is not None:
                        dname = data[1] if data[0] in ("v", "st") else T.show(data)
                    delta = res[1][0] if ok else None
                    dok = False
                    if ft["delta"] == "frame_type":
                        dok = delta == ("i", v)
                    elif ft["delta"] == "frame_type-64":
                        dok = delta == ("i", v - 64)
                    elif ft["delta"] == "u16":
                        dok = delta is not None and delta[0] == "sym" and "read_u16" in delta[1]
                    kok = True
                    if ft.get("k"):
                        kv = data[2].get("k") if data and data[0] == "st" else None
                        if ft["name"] == "chop":
                            kok = kv == ("i", 251 - v)
                        else:
                            # append: number of locals read = frame_type - 251 (closure `|_| Ok(count as usize)`)
                            cnt = [n_ for n_ in H.walk(arm["body"]) if n_.get("k") == "bin" and n_["op"] == "-" and H.const_value(n_["r"]) == 251]
                            kok = len(cnt) == 1
                    R.inst("R01.11", key, ok and dname == ft["data"] and dok and kok, sp=arm["sp"],
                           expect="(%s, %s%s)" % (ft["delta"], ft["data"], (", k=" + ft["k"]) if ft.get("k") else ""), got=T.show(res)[:90])
    # stack map offsets (JVMS 4.7.4): offset(frame 0) = offset_delta, offset(frame i) = offset(frame i-1) + offset_delta + 1.
    # Shape-independent: in the `for` loop that calls read_stack_map_frame, the value stored into the accumulator (the local handed to
    # labels.get_or_create) is a sum whose summands are exactly {accumulator, offset_delta, (if <loop index> == 0 {0} else {1})};
    # `+`, `+=`, checked_add/and_then/`?`/context are all read as addition.
    rc = duke.fn("read_code")
    if rc:
        loops = [n for n in H.walk(rc["body"]) if n.get("k") == "for" and any(H.is_call(x, "read_stack_map_frame") for x in H.walk(n["body"], into_closures=False))]
        # innermost only (the attribute-dispatch loop encloses the frame loop)
        loops = [n for n in loops if not any(m is not n and any(y is m for y in H.walk(n["body"])) for m in loops)]
        ok = False
        got = None
        sp = rc["sp"]
        if len(loops) == 1:
            lp = loops[0]
            sp = lp["sp"]
            idx = [i for i, _ in H.pat_bindings(lp["pat"])]
            # accumulator: the local passed to get_or_create inside the loop
            accs = set()
            for x in H.walk(lp["body"], into_closures=False):
                if H.is_call(x, "get_or_create") and x.get("k") == "mcall" and x["args"]:
                    l = H.local_of(x["args"][0])
                    if l:
                        accs.add(l[0])
            # offset_delta: first component of the tuple bound from read_stack_map_frame(..)?
            deltas = set()
            for x in H.walk(lp["body"], into_closures=False):
                if x.get("k") == "let" and "init" in x and any(H.is_call(y, "read_stack_map_frame") for y in H.walk(x["init"])):
                    pt = x["pat"]
                    if pt.get("k") == "ptuple" and pt["pats"] and pt["pats"][0].get("k") == "bind":
                        deltas.add(pt["pats"][0]["id"])

            def summands(n, env):
                n = H.peel(n, refs=False, tries=True)
                k = n.get("k")
                if k == "bin" and n["op"] == "+":
                    return summands(n["l"], env) + summands(n["r"], env)
                if k == "mcall" and n["name"] in ("checked_add", "wrapping_add", "saturating_add"):
                    return summands(n["recv"], env) + summands(n["args"][0], env)
                if k == "mcall" and n["name"] in ("and_then", "map") and n["args"] and H.peel(n["args"][0]).get("k") == "closure":
                    c = H.peel(n["args"][0])
                    e2 = dict(env)
                    ps = H.pat_bindings(c["params"][0]) if c["params"] else []
                    if len(ps) == 1:
                        e2[ps[0][0]] = summands(n["recv"], env)
                    return summands(c["body"], e2)
                if k == "mcall" and n["name"] in ("context", "with_context", "ok_or", "ok_or_else", "ok", "into", "unwrap_or_default"):
                    return summands(n["recv"], env)
                if k == "call" and H.ctor_of(n) and H.ctor_of(n)[1] in ("Some", "Ok") and len(n["args"]) == 1:
                    return summands(n["args"][0], env)
                if k == "block" and not n["stmts"] and "tail" in n:
                    return summands(n["tail"], env)
                if k == "cast":
                    return summands(n["e"], env)
                l = H.local_of(n)
                if l:
                    if l[0] in env:
                        return env[l[0]]
                    return [("local", l[0])]
                if k == "if" and "else" in n:
                    c = H.peel(n["cond"], refs=False)
                    if c.get("k") == "bin" and c["op"] in ("==", "!=") and H.const_value(c["r"]) == 0 and H.local_of(c["l"]):
                        tv, ev_ = H.const_value(_tail(n["then"])), H.const_value(_tail(n["else"]))
                        if c["op"] == "!=":
                            tv, ev_ = ev_, tv
                        return [("first?", H.local_of(c["l"])[0], tv, ev_)]
                return [("other", H.render(n)[:40])]
            stores = []
            for x in H.walk(lp["body"], into_closures=False):
                if x.get("k") in ("assign", "assignop") and H.local_of(x["l"]) and H.local_of(x["l"])[0] in accs:
                    t = summands(x["r"], {})
                    if x["k"] == "assignop" and x["op"] in ("+", "+="):
                        t = [("local", H.local_of(x["l"])[0])] + t
                    elif x["k"] == "assignop":
                        t = [("other", "op " + x["op"])]
                    stores.append((x, t))
            if len(stores) == 1 and len(accs) == 1 and len(deltas) == 1 and len(idx) == 1:
                acc, delta, i = next(iter(accs)), next(iter(deltas)), idx[0]
                want = sorted([("local", acc), ("local", delta), ("first?", i, 0, 1)], key=repr)
                got = sorted(stores[0][1], key=repr)
                ok = got == want
                sp = stores[0][0]["sp"]
            else:
                got = "accumulators=%d deltas=%d stores=%d loop-index=%d" % (len(accs), len(deltas), len(stores), len(idx))
        R.inst("R01.11", "frame-offset-accumulation", ok, sp=sp, got=got,
               expect="offset := offset + offset_delta + (0 for the first frame of the loop, else 1)  (JVMS 4.7.4)")
    # alignment
    al = duke.fn("align_to_4_byte_boundary", within="class_reader")
    if R.anchor("R01.11", "fn class_reader::align_to_4_byte_boundary", al):
        # shape-independent: the body is evaluated with the stream position fixed at p = 0..7 and the bytes consumed are counted
        # (a `match p & 3`, an arithmetic `skip((4 - p % 4) % 4)` and a loop-free if-chain all evaluate alike)
        def padding_at(p):
            ev = T.Evaluator(calls={"marker": (lambda args, p=p: T.V("Ok", ("i", p))), "position": (lambda args, p=p: T.V("Ok", ("i", p)))},
                             inline=D.helper_inline(duke), max_inline=2)
            try:
                res = ev.ev(al["body"], {})
            except T.Return as r:
                res = r.v
            except T.Break:
                return "?break"
            if res[0] == "err" or (res[0] == "v" and res[1] == "Err"):
                return "error"
            argv = {id(n): vals for n, vals in ev.callvals}
            total = 0
            for kind, n in ev.effects:
                if kind != "callnode":
                    continue
                nm = H.callee_name(n)
                if nm in D.READ_WIDTH and isinstance(D.READ_WIDTH[nm][0], int):
                    total += D.READ_WIDTH[nm][0]
                elif nm in ("skip", "skip_bytes", "seek_relative"):
                    vals = argv.get(id(n)) or []
                    v = vals[-1] if vals else None
                    c = H.const_value(n["args"][-1]) if n.get("args") else None
                    if v is not None and v[0] == "i":
                        total += v[1]
                    elif isinstance(c, int):
                        total += c
                    else:
                        return "?skip(%s)" % (T.show(v) if v is not None else "?")
            return total
        for p in range(8):
            want = S["align4_padding"][str(p & 3)]
            got = padding_at(p)
            R.inst("R01.11", "align-padding:position=%d" % p, got == want, sp=al["sp"], expect=want, got=got,
                   detail="tableswitch/lookupswitch operands start at the next multiple of 4 (JVMS 6.5): 0..3 padding bytes, none when aligned")
    # element values
    for fn in ("read_element_value_unnamed", "read_element_value_named"):
        pass
    evs = [b for b in duke.bodies if b["path"].startswith("duke::class_reader::") and "element_value" in b["path"] and b["dk"] == "Fn"]
    n_ev = 0
    for b in evs:
        for m in D.int_matches(b["body"], 8):
            n_ev += 1
            tags = S["element_value_tags"]
            for ch in sorted(set(list(tags) + ["x", "L", "A"])):
                res, ev = D.eval_arm(m, ord(ch))
                arm = D.arm_for(m, ord(ch))
                calls = [H.callee_name(x) for k, x in ev.effects if k == "callnode"]
                if ch not in tags:
                    R.inst("R01.11", "element-value:%s:%r=invalid" % (b["name"], ch), res[0] == "err", sp=arm["sp"], nontrivial=False)
                    continue
                want = tags[ch]
                # the arm must build / visit the matching kind: Object::<want> for constants, visit_enum/visit_class/visit_annotation*/visit_array* otherwise
                ctors = [H.ctor_of(x)[1] for x in H.walk(arm["body"]) if H.ctor_of(x) and (H.ctor_of(x)[0] or "").endswith("annotation::Object")]
                visit = [c for c in calls if c and c.startswith("visit")]
                key = {"Enum": "enum", "Class": "class", "AnnotationInterface": "annotation", "ArrayType": "array"}.get(want)
                ok = (want in ctors) if key is None else any(key in v for v in visit)
                R.inst("R01.11", "element-value:%s:%r" % (b["name"], ch), ok, sp=arm["sp"], expect=want, got=ctors or visit)
    R.inst("R01.11", "element-value-readers", n_ev >= 1, got=n_ev, nontrivial=False)
    # type annotation targets
    ta = [b for b in duke.bodies if b.get("name") in ("read_type_reference", "read_type_reference_code") and "class_reader" in b["path"]]
    R.anchor("R01.11", "type-reference readers (3 TargetInfoRead impls + read_type_reference_code)", len(ta) == 4)
    seen_targets = {}
    for b in ta:
        for m in D.int_matches(b["body"], 2):
            for a in m["arms"]:
                try:
                    vals = H.pat_int_values(a["pat"])
                except ValueError:
                    continue
                if not vals:
                    continue
                for v in vals:
                    if H.diverges(a["body"]):
                        continue
                    ctor = [H.ctor_of(x) for x in H.walk(a["body"]) if H.ctor_of(x) and (H.ctor_of(x)[0] or "").startswith("duke::tree::type_annotation::TargetInfo")]
                    if ctor:
                        seen_targets.setdefault(v, []).append((ctor[0][0].rsplit("::", 1)[-1], ctor[0][1], a, b))
    locmap = {"class": "TargetInfoClass", "method": "TargetInfoMethod", "field": "TargetInfoField", "code": "TargetInfoCode"}
    for tv, t in S["target_types"].items():
        tv = int(tv)
        got = seen_targets.get(tv, [])
        want_ty = locmap[t["loc"]]
        ok = any(g[0] == want_ty for g in got)
        R.inst("R01.11", "target-type:0x%02x:%s" % (tv, t["name"]), ok, sp=got[0][2]["sp"] if got else None, expect=want_ty, got=[(g[0], g[1]) for g in got])
    extra = sorted(set(seen_targets) - {int(k) for k in S["target_types"]})
    R.inst("R01.11", "target-types-no-extra", not extra, got=[hex(x) for x in extra])
    R.floor("R01.11", 9 + 16 + 4 + 13 + 22)


# ------------------------------------------------------------------------------------ R01.12
def r01_12(duke, R, S):
    """Bytecode offsets that may equal code_length (exclusive range ends) versus offsets of instructions.
    Shape-independent: every label-creating method of class_reader::labels::Labels is partially evaluated (private helpers of the impl
    inlined) at pc = code_length - 1, code_length, code_length + 1 and classified by where it returns Err."""
    R.rule("R01.12", "offsets the JVMS defines as exclusive range ends (exception_table.end_pc 4.7.3; start_pc + length of LocalVariableTable, "
                     "LocalVariableTypeTable and localvar type-annotation targets 4.7.13/14/20.1) become labels through a method that accepts "
                     "pc <= code_length; offsets that must denote an instruction (start_pc, handler_pc, branch targets, frame offsets) through "
                     "one that accepts only pc < code_length; get_or_create_range(start, length) accepts start + length == code_length, rejects "
                     "start == code_length and start + length > code_length")
    lab = {b["name"]: b for b in duke.bodies if (b.get("impl_ty") or "").endswith("class_reader::labels::Labels") and b.get("name")}
    if not R.anchor("R01.12", "impl Labels", len(lab) >= 4):
        return
    inline = {b["key"]: b for b in lab.values()}
    CL = 10

    def hooks():
        def checked_add(args):
            if len(args) == 2 and args[0][0] == "i" and args[1][0] == "i":
                v = args[0][1] + args[1][1]
                return T.V("Some", ("i", v)) if v <= 0xffff else T.V("None")
            return None

        def ctx(args):
            a = args[0]
            if a[0] == "v" and a[1] == "Some":
                return T.V("Ok", *a[2])
            if a[0] == "v" and a[1] == "None":
                return T.V("Err", T.sym("context"))
            return a
        return {"checked_add": checked_add, "with_context": ctx, "context": ctx, "ok_or_else": ctx, "ok_or": ctx}

    def outcome(b, args):
        self_v = ("st", "Labels", {"code_length": ("i", CL)})
        ev = T.Evaluator(calls=hooks(), inline=inline, max_inline=3)
        try:
            r = ev.run_fn(b, [self_v] + args)
        except Exception as e:           # evaluator cannot follow the shape: visible, not silent
            return "?" + type(e).__name__
        if r[0] == "err" or (r[0] == "v" and r[1] == "Err"):
            return "err"
        if r[0] == "v" and r[1] == "if":
            return "?symbolic"
        return "ok"
    classes = {}
    # label-creating methods: those that insert into the map, directly or through another method of the impl (a merged bounded helper)
    creating = set(n for n, b in lab.items() if any(H.is_call(x, "get_or_add_unchecked", "or_insert_with", "entry") for x in H.walk(b["body"])))
    for _ in range(4):
        for n, b in lab.items():
            if n not in creating and any(x.get("k") in ("mcall", "call") and (H.callee_name(x) or "") in creating
                                         and (x.get("callee") or {}).get("key") in inline for x in H.walk(b["body"])):
                creating.add(n)
    for name, b in sorted(lab.items()):
        if len(b["params"]) != 2 or (b.get("inputs") or [None, None])[1] != "u16":
            continue
        if name not in creating and name not in ("create",):
            # only label-creating methods are classified (get / try_get look up existing labels)
            continue
        pat = [outcome(b, [("i", CL + d)]) for d in (-1, 0, 1)]
        cls = {("ok", "err", "err"): "instruction", ("ok", "ok", "err"): "exclusive-end", ("ok", "ok", "ok"): "unchecked"}.get(tuple(pat), "other")
        classes[b["key"]] = (name, cls)
        if cls == "unchecked" and not (b.get("vis") or "").startswith("Public") and "pub" not in (b.get("vis") or "").lower():
            pass
        R.inst("R01.12", "labels-method:%s" % name, cls in ("instruction", "exclusive-end") or name == "get_or_add_unchecked", sp=b["sp"],
               got={"pc=len-1": pat[0], "pc=len": pat[1], "pc=len+1": pat[2]}, nontrivial=cls != "unchecked",
               expect="Err exactly for pc >= code_length (instruction offsets) or exactly for pc > code_length (exclusive ends)")
    kinds = sorted(set(c for _, c in classes.values()))
    R.inst("R01.12", "labels:both-kinds-exist", "instruction" in kinds and "exclusive-end" in kinds, got=kinds)
    gr = lab.get("get_or_create_range")
    if R.anchor("R01.12", "fn Labels::get_or_create_range", gr) and len(gr["params"]) == 3:
        for (st, ln, want, why) in ((3, 7, "ok", "range ending exactly at code_length"), (CL, 0, "err", "range starting at code_length"),
                                    (3, 8, "err", "range ending past code_length"), (0, 1, "ok", "first instruction"),
                                    (0xffff, 1, "err", "start + length past 65535")):
            got = outcome(gr, [("i", st), ("i", ln)])
            R.inst("R01.12", "range:start=%d,length=%d" % (st, ln), got == want, sp=gr["sp"], expect=want, got=got, detail=why + " (code_length = 10)")
    rc = duke.fn("read_code")
    if R.anchor("R01.12", "fn read_code", rc):
        lits = [n for n in H.walk(rc["body"]) if n.get("k") == "struct" and (n.get("adt") or "").endswith("code::Exception")]
        if R.anchor("R01.12", "Exception literal in read_code", len(lits) == 1, sp=rc["sp"]):
            want = {"start": "instruction", "end": "exclusive-end", "handler": "instruction"}
            srcs = {}
            for fld in lits[0]["fields"]:
                e = fld["e"]
                l = H.local_of(e)
                if l:           # `let end = labels.…(..)?;` before the literal
                    init = H.let_init_of(rc["body"], l[0])
                    e = init if init is not None else e
                srcs[fld["name"]] = e
            for name, cls in want.items():
                e = srcs.get(name)
                calls = [classes.get((x.get("callee") or {}).get("key")) for x in (H.walk(e) if e else []) if x.get("k") == "mcall"
                         and (x.get("callee") or {}).get("key") in classes]
                got = [c[1] for c in calls if c]
                R.inst("R01.12", "exception_table.%s" % name, got == [cls], sp=(e or lits[0])["sp"], expect=cls, got=got,
                       detail="JVMS 4.7.3: start_pc and handler_pc are instruction offsets, end_pc is exclusive and may equal code_length")
    R.floor("R01.12", 11)


# ------------------------------------------------------------------------------------ R01.9
def r01_9(F, R):
    D.narrowing_rule(F, R, "R01.9",
                     "every narrowing `as` cast on the read path (class_reader, its pool and label helpers, ClassRead) is proved lossless by the "
                     "interval analysis over the monomorphic MIR (e.g. `code_length as u16` after the `> u16::MAX` check), or is a reviewed intended "
                     "truncation (Java narrowing of annotation constants)",
                     lambda f: f.path.startswith("duke::class_reader") or "ClassRead" in f.path, 8)


# ------------------------------------------------------------------------------------ R01.13
def _loop_exits(n):
    """`continue` / `break` that leave an iteration of the loop whose body is `n` (those of inner loops and closures are their own)."""
    out = []
    stack = [(n, False)]
    while stack:
        x, inner = stack.pop()
        if not isinstance(x, dict) or x.get("k") == "closure":
            continue
        k = x.get("k")
        if k in ("break", "continue") and not inner:
            out.append(x)
        sub = inner or k in ("for", "loop", "while")
        for ch in H.children(x):
            stack.append((ch, sub))
    return out


def r01_13(duke, R):
    R.rule("R01.13", "every counted loop of the class reader (`for _ in 0..count` with the count taken from the file) delivers one element per "
                     "iteration: no `continue` / `break` in its body, and every push into the table it fills is unconditional (an entry the file "
                     "states - e.g. a zero-length local-variable range - must not be dropped silently)")
    n = 0
    seen = {}
    for b in duke.bodies:
        if not b["key"].startswith("duke::class_reader"):
            continue
        for lp in H.walk(b["body"]):
            if lp.get("k") != "for":
                continue
            it = H.peel(lp["iter"])
            if it.get("k") != "struct" or not (it.get("adt") or "").startswith("core::ops::range::Range"):
                continue
            end = [f for f in it.get("fields", []) if f["name"] == "end"]
            what = H.render(end[0]["e"])[:48] if end else "?"
            base = "%s:0..%s" % (b.get("name") or b["key"].split("::")[-1], what)
            seen[base] = seen.get(base, 0) + 1
            key = base if seen[base] == 1 else "%s#%d" % (base, seen[base])
            inner = [x for x in H.walk(lp["body"]) if x.get("k") in ("for", "loop", "while")]
            pushes = [p for p in H.walk(lp["body"]) if p.get("k") == "mcall" and p["name"] in ("push", "push_back", "insert") and H.local_of(p["recv"])
                      and not any(any(y is p for y in H.walk(i["body"])) for i in inner)]
            if not pushes:
                # a dispatch loop (attribute names, tags): what each arm delivers is decided by R01.6/R01.8; an early `continue` in an arm
                # is just another way to end the arm
                continue
            order = {id(x): n for n, x in enumerate(H.walk(lp["body"]))}
            first_push = min(order[id(p)] for p in pushes)
            ex = [x for x in _loop_exits(lp["body"]) if order.get(id(x), 0) < first_push]
            R.inst("R01.13", "loop:%s:every-iteration-delivers" % key, not ex, sp=lp.get("sp"), expect="no continue/break before the element is stored",
                   got=[("%s at %s" % (x["k"], x.get("sp"))) for x in ex])
            n += 1
            for p in pushes:
                conds = [(k, H.render(c)[:60] if k != "arm" else "match arm", pp) for k, c, pp in H.path_conditions(lp["body"], p, skip_error_exits=True)]
                R.inst("R01.13", "loop:%s:%s.%s-unconditional" % (key, H.local_of(p["recv"])[1], p["name"]), not conds, sp=p.get("sp"),
                       expect="the element read in this iteration is always stored", got=conds)
    R.floor("R01.13", 12)      # 9 table-filling counted loops (loop + push instance each) today; a loop rewritten as an iterator chain leaves the rule
