"""C05 — the version graph resolves each version to the root mappings plus the diffs on its path (necessary conditions).

Pattern-matrix / success-path evaluation (lib/c04_util.PathEval over lib/tables.py) of VersionGraph::{resolve, get, apply_diffs}
and the nested add_node, per file class and root state.  Oracle: spec/c05_version_graph.json."""
import json
import os

from lib import hir as H
from lib import tables as T
from lib import c04_util as U

SPEC = os.path.join(os.path.dirname(os.path.dirname(os.path.abspath(__file__))), "spec", "c05_version_graph.json")
CR = "feather_build_rs"
VG = "version_graph::VersionGraph"

CLAIM = {
    "text": "Decided for src/version_graph.rs by evaluating the type-checked HIR per file class (.tiny / parent#child.tinydiff / "
            ".tinydiff without # / other) and root state: (R05.1) a second .tiny file is an error before `root` is overwritten, no .tiny "
            "file is an error, a .tinydiff name without `#` is an error, other files are ignored, the root node is the node of the .tiny "
            "file's version and the root path is that file's path; (R05.2) the stored root mapping is "
            "read_file(root path)?.contract_inner_class_names(ns)?, apply_diffs returns <fold>?.extend_inner_class_names(ns) and every "
            "diff is applied with apply_to(acc, ns) with one and the same string literal ns, the diff being read from the edge's own file; "
            "(R05.3) the fold starts from self.root_mapping.clone(), the search from self.root towards target.node_index, the path is "
            "consumed as windows(2) and each edge is find_edge(x[0], x[1])? in path direction; (R05.4) get(unknown) is Err and a known "
            "name yields the stored (split, node) pair, no path is Err, a missing edge is Err, the walker only continues along outgoing "
            "edges after `!path.contains(v)` (else Err) and extends the path by v, starting at the root; (R05.5) add_node registers a "
            "plain name under itself and a client~server name under both halves pointing to one node named by the whole string, reuses "
            "existing nodes (entry().or_insert*), edges go from the part before `#` to the part after it and carry the diff file's path, "
            "and the returned graph/versions are the ones filled by the scan. Premises evaluated with it (code on the resolution path): C04 R04.1/2/4/5/6/7 (reading and applying .tinydiff), C11 R11.1-3 (inner-class-name extension), C03 R03.6/7 (keyed insertion and indentation iterator of the root reader).",
    "note": "Not decided: equality of the result with 'root + diffs on the path' (needs C04's behavioural part), which path astar "
            "picks in a diamond, independence of read_dir order, collisions of half names between different split versions, cycles "
            "not reachable from the root (those versions end in 'no path'). Trusted: rustc HIR/typeck/const-eval, petgraph's astar / "
            "find_edge / neighbors_directed semantics, spec/c05_version_graph.json.",
    "technique": "static analysis: decision tables per file class by pattern-matrix evaluation, success-path guard dominance, "
                 "must-pass-through of contract/extend, argument provenance on typed HIR",
}


def S(name):
    return T.sym("$" + name)


def showv(v):
    return T.show(v) if isinstance(v, tuple) else v


# rules of sibling properties that decide code on this property's own call path: a version is resolved by reading .tinydiff files, applying them (C04) and extending inner class names (C11) on the root read by tiny_v2::read (C03)
PREMISES = [("C04", ["R04.1", "R04.2", "R04.4", "R04.5", "R04.6", "R04.7"]), ("C11", ["R11.1", "R11.2", "R11.3"]), ("C03", ["R03.6", "R03.7"])]

def run(F, R, tier):
    with open(SPEC) as f:
        spec = json.load(f)
    c = F.crate(CR)
    ctx = {}
    PE.INLINE = helper_bodies(c)
    r05_1(c, R, spec, ctx)
    r05_2_3(c, R, spec, ctx)
    r05_4(c, R, spec, ctx)
    r05_5(c, R, spec, ctx)
    return ("A5/A6: the read_dir loop of resolve evaluated per (file class x root state), add_node per (plain / split) name, the walker "
            "loop, get and apply_diffs as success-path terms: error exits, root discovery, contract-before-store, extend-before-return, "
            "fold start / search start / edge direction; oracle spec/c05_version_graph.json")


# ------------------------------------------------------------------------------------ `?` in all its spellings
def payload_pat(p):
    """sub-pattern p of `Some(p)` / `Ok(p)` (below & / box / deref patterns), else None"""
    while p.get("k") in ("pref", "pbox", "pderef"):
        p = p["pat"]
    if p.get("k") == "ptuplestruct" and p["res"].get("variant") in ("Some", "Ok") and len(p["pats"]) == 1 and p.get("ddpos") is None:
        return p["pats"][0]
    return None


def failure_pat(p):
    """`None`, `Err(..)`, `_` or a plain binding: what the error arm of a hand-written `?` matches"""
    while p.get("k") in ("pref", "pbox", "pderef"):
        p = p["pat"]
    k = p.get("k")
    if k == "wild" or (k == "bind" and "sub" not in p):
        return True
    pv = H.pat_variant(p)
    return pv is not None and pv[1] in ("None", "Err")


def err_exit(n):
    return H.diverges(n) and H.is_err_exit(n)


class PE(U.PathEval):
    """PathEval in which every spelling of "unwrap the Some/Ok payload or leave the function with an error" is the `?` of the base class:
    `let Some(p) = e else { bail!(..) }`, `if let Some(p) = e { .. } else { bail!(..) }`, `match e { Some(p) => .., None => bail!(..) }`
    (arms in any order, `Ok`/`Err(e) => return Err(..)` alike), `if e.is_none() { bail!(..) } .. e.unwrap()`.  On a symbolic `e` the term is
    marked `tried`, p is bound to (projections of) the term itself, and the guard is recorded; on a concrete None/Err the error exit is taken
    and a `refuted` event remembers which expression was None."""

    INLINE = {}

    def __init__(self, **kw):
        kw.setdefault("inline", PE.INLINE)
        super().__init__(**kw)

    def as_try(self, v, node):
        if U.kind_of(v) == "call" and v[4] in self.by_nid:
            self.by_nid[v[4]]["tried"] = True
        self.event(kind="try", inner=v, node=node)

    def unwrap_into(self, sub, v, pat, node, env):
        """v is undecided against `Some(sub)`/`Ok(sub)` and the other case is an error exit: bind sub like `let sub = v?`."""
        if T.is_sym(v):
            self.as_try(v, node)
            inner = v
        elif v[0] == "v" and v[1] in ("Some", "Ok") and v[2]:
            inner = v[2][0]
        else:
            return False
        pv = H.pat_variant(pat)
        self.event(kind="guard", canon=("matches", pv[1] if pv else H.render_pat(pat), T.show(v)), value=v, node=node)
        e3 = {}
        if T.match_pat(sub, inner, e3) is True:
            env.update(e3)
        else:
            U.proj_bind(sub, inner, env)
        return True

    def stmt(self, s, env):
        if s.get("k") == "let" and "init" in s and "els" in s:
            v = self.ev(s["init"], env)
            e2 = {}
            r = T.match_pat(s["pat"], v, e2)
            if r is True:
                env.update(e2)
                return
            if r is False:
                self.event(kind="refuted", scrut=s["init"], value=v, node=s)
                self.ev(s["els"], env)      # diverges (raises Return)
                return
            sub = payload_pat(s["pat"])
            if sub is not None and err_exit(s["els"]) and self.unwrap_into(sub, v, s["pat"], s, env):
                return
            pv = H.pat_variant(s["pat"])
            if H.is_err_exit(s["els"]):
                self.event(kind="guard", canon=("matches", pv[1] if pv else H.render_pat(s["pat"]), T.show(v)), value=v, node=s)
            else:
                self.event(kind="opaque", node=s)
            for (i, nm) in H.pat_bindings(s["pat"]):
                env[i] = e2.get(i, T.sym(nm))
            return
        super().stmt(s, env)

    def if_(self, n, env):
        c = H.peel(n["cond"], refs=False)
        if c.get("k") == "letexpr" and "else" in n:
            sub = payload_pat(c["pat"])
            if sub is not None and err_exit(n["else"]):
                v = self.ev(c["init"], env)
                e2 = dict(env)
                r = T.match_pat(c["pat"], v, e2)
                if r is True:
                    return self.ev(n["then"], e2)
                if r is False:
                    self.event(kind="refuted", scrut=c["init"], value=v, node=n)
                    return self.ev(n["else"], env)
                e2 = dict(env)
                if self.unwrap_into(sub, v, c["pat"], n, e2):
                    return self.ev(n["then"], e2)
                for (i, nm) in H.pat_bindings(c["pat"]):
                    e2.setdefault(i, T.sym(nm))
                pv = H.pat_variant(c["pat"])
                self.event(kind="guard", canon=("matches", pv[1] if pv else H.render_pat(c["pat"]), T.show(v)), value=v, node=n)
                return self.ev(n["then"], e2)
        return super().if_(n, env)

    def match(self, n, env):
        arms = n["arms"]
        good = [a for a in arms if not err_exit(a["body"])]
        if id(n) not in self.scrut_override and len(arms) >= 2 and len(good) == 1 and "guard" not in good[0] \
                and payload_pat(good[0]["pat"]) is not None and all(a is good[0] or ("guard" not in a and failure_pat(a["pat"])) for a in arms):
            sv = self.ev(n["scrut"], env)
            e2 = dict(env)
            r = T.match_pat(good[0]["pat"], sv, e2)
            if r is None and self.unwrap_into(payload_pat(good[0]["pat"]), sv, good[0]["pat"], n, e2):
                return self.ev(good[0]["body"], e2)
            if r is False:
                self.event(kind="refuted", scrut=n["scrut"], value=sv, node=n)
            # decided (or not understood): the base class on the value already computed
            shadow = dict(n)
            shadow["scrut"] = {"k": "tuple", "es": [], "ty": "()"}
            self.scrut_override[id(shadow)] = sv
            try:
                return super().match(shadow, env)
            finally:
                del self.scrut_override[id(shadow)]
        return super().match(n, env)

    def call(self, n, c, args, env):
        name = H.callee_name(n)
        path = c.get("inst") or c.get("path") or ""
        if c.get("r") != "local":
            if name in ("unwrap", "expect", "unwrap_unchecked") and args and args[0][0] == "v" and args[0][1] in ("Some", "Ok") and args[0][2]:
                return args[0][2][0]                       # payload of a value known to be Some/Ok
            if name == "from" and len(args) == 1 and n.get("k") == "call":
                return args[0]                             # `T::from(x)` is `x.into()`: a conversion of the same value
            if name == "not" and len(args) == 1 and path.endswith("__private::not"):
                v = args[0]                                # anyhow::ensure!(c, ..) expands to `if not(c) { return Err(..) }`
                if v[0] == "b":
                    return ("b", not v[1])
                return v[3][0] if U.kind_of(v) == "not" else U.mk_not(v)
        if name in ("unwrap", "expect", "unwrap_unchecked") and args and T.is_sym(args[0]) and c.get("r") != "local":
            # `if e.is_none() { bail!(..) } .. e.unwrap()`: the payload of a term that the guards on this path prove to be Some/Ok
            for g in self.guards():
                for probe, pol in (("is_none", False), ("is_err", False), ("is_some", True), ("is_ok", True)):
                    if g == ("atom", "%s(%s)" % (probe, T.show(args[0])), pol):
                        self.as_try(args[0], n)
                        return args[0]
        return super().call(n, c, args, env)


def helper_bodies(c):
    """Functions of the version_graph module that the anchored functions may delegate to (an extracted private helper is evaluated as
    the code it contains): every fn / inherent method of the module except the anchored ones themselves and trait impls (derives)."""
    resolve = c.fn("resolve", impl_ty=VG)
    keep_out = set(b["key"] for b in (resolve, c.fn("get", impl_ty=VG), c.fn("apply_diffs", impl_ty=VG), c.fn("new", impl_ty="version_graph::NodeData"),
                                      find_add_node(c, resolve) if resolve else None) if b)
    out = {}
    for b in c.bodies:
        if not b["key"].startswith(CR + "::version_graph::") or b["key"] in keep_out or not b.get("name"):
            continue
        if b.get("params") is None or not isinstance(b.get("body"), dict) or b.get("impl_trait") or b.get("impl_trait_path"):
            continue
        out[b["key"]] = b
    return out


def same(a, b):
    if U.kind_of(a) == "call" and U.kind_of(b) == "call" and a[4] is not None:
        return a[4] == b[4]
    return a == b


# ------------------------------------------------------------------------------------ resolve: scan
FILE_CLASSES = ("tiny", "diff", "diff-no-separator", "other")


def scan_hooks(spec, fclass, seen_recv=None):
    seen_recv = seen_recv if seen_recv is not None else {}

    def strip_suffix(args, n, pe):
        if len(args) != 2 or args[1][0] != "s":
            return None
        seen_recv.setdefault("strip_suffix", []).append(T.show(args[0]))
        if args[1][1] == spec["mappings_extension"]:
            return T.V("Some", S("stem")) if fclass == "tiny" else T.V("None")
        if args[1][1] == spec["diff_extension"]:
            return T.V("Some", S("stem")) if fclass in ("diff", "diff-no-separator") else T.V("None")
        return None

    def split_once(args, n, pe):
        if len(args) != 2 or args[1] != ("s", spec["edge_separator"]):
            return None
        seen_recv.setdefault("split_once", []).append(T.show(args[0]))
        return T.V("Some", ("t", [S("parent"), S("child")])) if fclass == "diff" else T.V("None")

    return {"strip_suffix": strip_suffix, "split_once": split_once}


def find_add_node(c, resolve_fn):
    """The node-registration helper by role: the function of this crate that `resolve` calls with three arguments
    (name map, graph, version string) and that splits the string (nested fn, hoisted fn or associated fn; any name)."""
    keys = {}
    for n in H.walk(resolve_fn["body"]):
        if n.get("k") in ("call", "mcall"):
            cal = n.get("callee") or {}
            key = cal.get("inst_key") or cal.get("key")
            b = c.by_key.get(key) if key else None
            if b is None or "body" not in b or len(H.call_args(n)) != 3:
                continue
            if any(x.get("k") == "mcall" and x["name"] in ("split_once", "split", "find") for x in H.walk(b["body"])):
                keys[key] = b
    return list(keys.values())[0] if len(keys) == 1 else None


def calls_of(pe, fn):
    return [e for e in pe.trace if e["kind"] == "call" and fn is not None and
            ((e["node"].get("callee") or {}).get("inst_key") or (e["node"].get("callee") or {}).get("key")) == fn["key"]]


def r05_1(c, R, spec, ctx):
    rid = "R05.1"
    R.rule(rid, "resolve, directory scan: a `*.tiny` file with no root so far sets root = (node of its version, its path); with a root "
                "already present it is an error raised before the assignment; `*.tinydiff` files never touch the root; a diff name "
                "without `#` is an error; other files are ignored; after the scan a missing root is an error; the returned "
                "VersionGraph.root is that node")
    fn = c.fn("resolve", impl_ty=VG)
    if not R.anchor(rid, "fn VersionGraph::resolve", fn):
        return
    ctx["resolve"] = fn
    add_fn = find_add_node(c, fn)
    ctx["add_node"] = add_fn
    if not R.anchor(rid, "the node-registration helper called by resolve (add_node)", add_fn, sp=fn["sp"]):
        return
    # ---- run A: empty directory
    loopsA = []

    def hookA(pe, n, env):
        if pe.cond_depth == 0:
            loopsA.append((n, dict(env)))
            return T.sym("<loop>")
        return None

    peA = PE(for_hook=hookA)
    outA, envA = peA.run_body(fn, [S("dir")])
    scan = []
    for n, e in loopsA:
        if n.get("k") != "for":
            continue
        pi = PE()
        pi.run(n["iter"], dict(e))
        rd = [x for x in pi.calls_named("read_dir") if x["args"] == [S("dir")] and x["tried"]]
        if rd:
            scan.append((n, e))
    if not R.anchor(rid, "resolve: `for` over read_dir(dir)?", len(scan) == 1, sp=fn["sp"]):
        return
    scan_node, scan_env = scan[0]
    ctxcalls = [e for e in peA.trace if e["kind"] == "call" and e["name"] in ("context", "with_context", "ok_or", "ok_or_else")
                and e["args"] and e["args"][0] == T.V("None")]
    # .. or its hand-written form: `let Some(..) = root else { bail!(..) }` / `match root { None => bail!(..), .. }` taken on the None
    nones = [(peA.trace.index(e), e["node"]["recv"]) for e in ctxcalls if e["node"].get("k") == "mcall"]
    nones += [(i, e["scrut"]) for i, e in enumerate(peA.trace) if e["kind"] == "refuted" and e["value"] == T.V("None")]
    root_id = None
    if nones:
        loc = H.local_of(H.peel(max(nones, key=lambda x: x[0])[1]))
        root_id = loc[0] if loc else None
    R.inst(rid, "no-root:Err", U.outcome_value(outA)[0] == "err" and root_id is not None, sp=fn["sp"],
           expect="root.context(..)? on the still-None root -> Err", got=U.outcome_value(outA)[0],
           detail="a directory without a .tiny file must not resolve")
    if root_id is None:
        return
    ctx["root_id"] = root_id
    # ---- scan cells
    ctx["scan"] = {}
    for fclass in FILE_CLASSES:
        for rstate, rv in (("none", T.V("None")), ("present", T.V("Some", ("t", [S("oldroot"), S("oldpath")])))):
            env = dict(scan_env)
            T.match_pat(scan_node["pat"], S("entry"), env)
            env[root_id] = rv
            recv = {}
            pe = PE(hooks=scan_hooks(spec, fclass, recv))
            out = pe.run(scan_node["body"], env)
            if fclass == "diff" and rstate == "none":
                ok_src = (bool(recv.get("strip_suffix")) and all("file_name($entry)" in x and "$stem" not in x for x in recv["strip_suffix"])
                          and recv.get("split_once") == ["$stem"])
                R.inst(rid, "scan:names-come-from-the-entry's-file-name", ok_src, sp=scan_node["sp"], got=recv,
                       expect="<entry.file_name()>.strip_suffix(EXT) and <stem>.split_once('#')")
            res = "Err" if U.outcome_value(out)[0] == "err" else "ok"
            assigns = [e for e in pe.trace if e["kind"] == "assign" and (H.local_of(e["node"]["l"]) or (None,))[0] == root_id]
            opq = [e for e in pe.trace if e["kind"] in ("opaque",)]
            adds = calls_of(pe, add_fn)
            edges = pe.calls_named("add_edge")
            ctx["scan"][(fclass, rstate)] = (pe, out, env)
            key = "scan:%s:root-%s" % (fclass, rstate)
            got = {"result": res, "root-assignments": [T.show(e["r"]) for e in assigns], "add_node": [T.show(e["args"][-1]) for e in adds],
                   "add_edge": len(edges), "undecided": len(opq)}
            if fclass == "tiny" and rstate == "none":
                ok = res == "ok" and len(assigns) == 1 and assigns[0]["cond"] == 0 and len(adds) == 1 and not edges and not opq
                if ok:
                    r = assigns[0]["r"]
                    ok = (r[0] == "v" and r[1] == "Some" and r[2][0][0] == "t" and len(r[2][0][1]) == 2 and same(r[2][0][1][0], adds[0]["value"])
                          and U.is_call(r[2][0][1][1], "path") and U.call_args(r[2][0][1][1]) == [S("entry")] and adds[0]["args"][-1] == S("stem"))
                R.inst(rid, key, ok, sp=scan_node["sp"], got=got, expect="root = Some((add_node(.., <name without .tiny>), entry.path()))")
            elif fclass == "tiny":
                ok = res == "Err" and not assigns
                R.inst(rid, key, ok, sp=scan_node["sp"], got=got, expect="Err (multiple roots) before root is overwritten",
                       detail="two .tiny files: resolving to either one silently would be arbitrary")
            elif fclass == "diff":
                ok = res == "ok" and not assigns and len(edges) == 1 and len(adds) == 2 and not opq
                R.inst(rid, key, ok, sp=scan_node["sp"], got=got, expect="two add_node, one add_edge, root untouched")
            elif fclass == "diff-no-separator":
                ok = res == "Err" and not assigns and not edges
                R.inst(rid, key, ok, sp=scan_node["sp"], got=got, expect="Err (diff file name without `#`)")
            else:
                ok = res == "ok" and not assigns and not edges and not adds and not opq
                R.inst(rid, key, ok, sp=scan_node["sp"], got=got, expect="ignored")
    # every assignment to root in the function is the one seen in the (tiny, none) cell
    all_assign = [n for n in H.walk(fn["body"]) if n.get("k") == "assign" and (H.local_of(n["l"]) or (None,))[0] == root_id]
    R.inst(rid, "single-root-assignment", len(all_assign) == 1, sp=fn["sp"], got=[H.render(n) for n in all_assign])
    # ---- run B: scan done, root present
    loopsB = []

    def hookB(pe, n, env):
        if pe.cond_depth != 0:
            return None
        if n is scan_node:
            env[root_id] = T.V("Some", ("t", [S("rootnode"), S("rootpath")]))
            return T.sym("<scan>")
        loopsB.append((n, dict(env)))
        return T.sym("<loop>")

    peB = PE(for_hook=hookB)
    outB, envB = peB.run_body(fn, [S("dir")])
    oB = U.outcome_value(outB)
    st = oB[1] if oB[0] == "ok" and oB[1][0] == "st" else None
    ctx["B"] = (peB, st, loopsB, scan_env)
    R.inst(rid, "returns-VersionGraph", st is not None, sp=fn["sp"], got=oB[0])
    if st is not None:
        R.inst(rid, "root-field-is-scanned-root", st[2].get("root") == S("rootnode"), sp=fn["sp"], got=showv(st[2].get("root")),
               expect="VersionGraph.root = node component of the scanned root")
    R.floor(rid, 13)


# ------------------------------------------------------------------------------------ R05.2 / R05.3
def pairs_of(seq, window):
    """(node path term, abstract element) of the sequence of consecutive pairs of a path P: `P.windows(2)` with the element x (x[0], x[1]),
    or `P.iter().zip(P.iter().skip(1))` with the element (x[0], x[1]) -- the same pairs in the same order."""
    if U.is_call(seq, "windows") and U.call_args(seq)[1:] == [("i", window)]:
        return U.peel_term(U.call_args(seq)[0], *U.ITER_ADAPTERS), S("x")
    if window == 2 and U.is_call(seq, "zip") and len(U.call_args(seq)) == 2:
        a, b = [U.peel_term(t, *U.ITER_ADAPTERS) for t in U.call_args(seq)]
        if U.is_call(b, "skip") and U.call_args(b)[1:] == [("i", 1)] and U.peel_term(U.call_args(b)[0], *U.ITER_ADAPTERS) == a:
            return a, ("t", [U.mk_idx(S("x"), ("i", 0)), U.mk_idx(S("x"), ("i", 1))])
    return None


def r05_2_3(c, R, spec, ctx):
    r2, r3 = "R05.2", "R05.3"
    R.rule(r2, "inner-class names: the stored root mapping is tiny_v2::read_file(<root path>)?.contract_inner_class_names(ns)?; every Ok "
               "result of apply_diffs is <fold result>?.extend_inner_class_names(ns); each step of the fold is "
               "tiny_v2_diff::read_file(<edge path>)?.apply_to(<accumulator>, ns); ns is one and the same string literal in all three")
    R.rule(r3, "path semantics: astar searches self.graph from self.root to the node of the requested version; the node path is consumed "
               "as consecutive pairs windows(2); the fold starts from self.root_mapping.clone(); the edge of a pair x is "
               "find_edge(x[0], x[1])? (parent -> child, the direction the edges were added in) and the diff is read from that edge's path")
    ns_lits = {}
    B = ctx.get("B")
    if R.anchor(r2, "resolve evaluated past the scan", B is not None and B[1] is not None):
        peB, st, loopsB, _ = B
        rm = st[2].get("root_mapping")
        ok = False
        got = showv(rm)
        if U.is_call(rm, "contract_inner_class_names"):
            e = peB.by_nid.get(rm[4])
            a = U.call_args(rm)
            inner = a[0] if a else None
            ok = (e is not None and e["tried"] and (e["path"] or "").endswith("contract_inner_class_names") and len(a) == 2 and a[1][0] == "s"
                  and U.is_call(inner, "read_file") and U.call_args(inner) == [S("rootpath")]
                  and peB.by_nid[inner[4]]["tried"] and "tiny_v2::read_file" in (peB.by_nid[inner[4]]["path"] or ""))
            if len(a) == 2 and a[1][0] == "s":
                ns_lits["contract"] = a[1][1]
        R.inst(r2, "resolve:root-mapping-contracted-before-store", ok, sp=ctx["resolve"]["sp"], got=got,
               expect="root_mapping: tiny_v2::read_file(&root_path)?.contract_inner_class_names(ns)?")
    fn = c.fn("apply_diffs", impl_ty=VG)
    if not R.anchor(r3, "fn VersionGraph::apply_diffs", fn):
        return
    pe = PE()
    out, env = pe.run_body(fn, [S("self"), S("tv")])
    o = U.outcome_value(out)
    v = o[1] if len(o) > 1 else None
    tried = lambda t: U.kind_of(t) == "call" and t[4] in pe.by_nid and pe.by_nid[t[4]]["tried"]
    path_of = lambda t: (pe.by_nid[t[4]]["path"] or "") if U.kind_of(t) == "call" and t[4] in pe.by_nid else ""
    ok_ext = o[0] == "val" and U.is_call(v, "extend_inner_class_names") and path_of(v).endswith("extend_inner_class_names") \
        and len(U.call_args(v)) == 2 and U.call_args(v)[1][0] == "s"
    R.inst(r2, "apply_diffs:extend-before-return", ok_ext, sp=fn["sp"], got=showv(v)[:200] if v else o[0],
           expect="the returned value is <fold>?.extend_inner_class_names(ns)")
    rets = [n for n in H.walk(fn["body"], into_closures=False) if n.get("k") == "ret"]
    R.inst(r2, "apply_diffs:no-early-Ok-return", not [n for n in rets if not H.is_err_exit(n)], sp=fn["sp"])
    if not ok_ext:
        return
    ns_lits["extend"] = U.call_args(v)[1][1]
    fold = U.call_args(v)[0]
    # `seq.try_fold(init, |acc, x| ..)?` and `let mut acc = init; for x in seq { .. acc = ..?; }` have one normal form
    fd = U.describe_fold(pe, fold)
    ok_fold = fd is not None
    R.inst(r2, "apply_diffs:extends-the-fold-result", ok_fold, sp=fn["sp"], got=showv(fold)[:160],
           expect="the receiver of extend is a left fold over the path (try_fold(init, step)? or an accumulator updated in a for loop)")
    if not ok_fold:
        return
    seq, init = fd["src"], fd["init"]
    R.inst(r3, "fold-starts-from-root-mapping", T.show(init) == "$self.root_mapping", sp=fn["sp"], got=T.show(init), expect="self.root_mapping.clone()")
    pairs = pairs_of(seq, spec["window"])
    ok_w = pairs is not None
    R.inst(r3, "consecutive-pairs", ok_w, sp=fn["sp"], got=showv(seq)[:120], expect="<node path>.windows(2) (or <node path>.iter().zip(<node path>.iter().skip(1)))")
    elem = pairs[1] if ok_w else S("x")
    if ok_w:
        src = pairs[0]
        ok_p = U.kind_of(src) == "fld" and src[3][1] == "1" and U.is_call(src[3][0], "astar") and tried(src[3][0])
        R.inst(r3, "pairs-over-astar-node-path", ok_p, sp=fn["sp"], got=showv(src)[:120], expect="astar(..).ok_or_else(..)?.1")
        if ok_p:
            a = U.call_args(src[3][0])
            R.inst(r3, "search-graph-and-start", len(a) == 5 and T.show(a[0]) == "$self.graph" and T.show(a[1]) == "$self.root", sp=fn["sp"],
                   got=[T.show(x) for x in a[:2]], expect="astar(&self.graph, self.root, ..)")
            goal = pe.apply(a[2], [S("n")]) if len(a) == 5 and a[2][0] == "closure" else None
            R.inst(r3, "search-goal-is-requested-version", goal is not None and U.kind_of(goal) == "cmp" and
                   U.canon_guard(goal, True) == ("eq", "$n", "$tv.node_index"), sp=fn["sp"], got=showv(goal), expect="|n| n == target_version.node_index")
            ctx["astar_tried"] = True
    # one step of the fold
    res, ev2 = fd["step"](S("acc"), elem)
    ok_apply = U.is_call(res, "apply_to") and path_of(res).endswith("apply_to") and len(U.call_args(res)) == 3
    R.inst(r2, "step:result-is-apply_to", ok_apply, sp=fn["sp"], got=showv(res)[:200], expect="diff.apply_to(<accumulator>, ns) (error context allowed)")
    if ok_apply:
        d, acc, nsv = U.call_args(res)
        R.inst(r3, "step:applies-to-accumulator", acc == S("acc"), sp=fn["sp"], got=T.show(acc))
        if nsv[0] == "s":
            ns_lits["apply_to"] = nsv[1]
        ok_d = U.is_call(d, "read_file") and tried(d) and "tiny_v2_diff::read_file" in path_of(d)
        R.inst(r3, "step:diff-read-from-file", ok_d, sp=fn["sp"], got=showv(d)[:160], expect="tiny_v2_diff::read_file(path)?")
        if ok_d:
            p = U.call_args(d)[0]
            ok_e = False
            edge = None
            if U.kind_of(p) == "fld" and p[3][1] == "path" and U.kind_of(p[3][0]) == "idx":
                g, edge = p[3][0][3]
                ok_e = T.show(g) == "$self.graph" and U.is_call(edge, "find_edge") and tried(edge)
            R.inst(r3, "step:path-of-the-found-edge", ok_e, sp=fn["sp"], got=showv(p)[:160], expect="self.graph[find_edge(..)?].path")
            if ok_e:
                a = U.call_args(edge)
                R.inst(r3, "step:edge-in-path-direction", [T.show(x) for x in a] == ["$self.graph", "$x[0]", "$x[1]"], sp=fn["sp"],
                       got=[T.show(x) for x in a], expect="self.graph.find_edge(x[0], x[1])",
                       detail="edges are added parent -> child; the path runs root -> target")
    cond = [e for e in ev2 if e["kind"] in ("opaque", "loop")]
    R.inst(r3, "step:straight-line", not cond, sp=fn["sp"], got=len(cond))
    R.inst(r2, "namespace-literal-consistent", len(ns_lits) == 3 and len(set(ns_lits.values())) == 1, sp=fn["sp"], got=ns_lits,
           expect="the same string literal in contract_inner_class_names, apply_to and extend_inner_class_names")
    R.floor(r2, 6)
    R.floor(r3, 10)


# ------------------------------------------------------------------------------------ R05.4
def r05_4(c, R, spec, ctx):
    rid = "R05.4"
    R.rule(rid, "error paths: get(name) is Err for a name that is not in `versions` and Ok((split, entry of the stored node)) otherwise; "
                "apply_diffs: no path from the root is Err, a missing edge is Err; resolve's walker starts at the root, follows outgoing "
                "edges only, and continues to a successor v only after `!path.contains(v)` (otherwise Err) with v appended to the path")
    fn = c.fn("get", impl_ty=VG)
    if R.anchor(rid, "fn VersionGraph::get", fn):
        for known in (False, True):
            looked = []

            def get_hook(args, n, pe, known=known):
                looked.append(args)
                return T.V("Some", ("t", [S("split"), S("idx")])) if known else T.V("None")

            pe = PE(hooks={"get": get_hook})
            out, env = pe.run_body(fn, [S("self"), S("name")])
            o = U.outcome_value(out)
            if not known:
                R.inst(rid, "get:unknown-name:Err", o[0] == "err", sp=fn["sp"], got=o[0], expect="Err")
                R.inst(rid, "get:looks-up-versions-by-name", len(looked) == 1 and [T.show(x) for x in looked[0]] == ["$self.versions", "$name"], sp=fn["sp"],
                       got=[[T.show(x) for x in a] for a in looked])
            else:
                ok = False
                if o[0] == "ok" and o[1][0] == "t" and len(o[1][1]) == 2 and o[1][1][1][0] == "st":
                    sp_, ent = o[1][1]
                    ok = sp_ == S("split") and ent[2].get("node_index") == S("idx") and T.show(ent[2].get("node_data")) == "$self.graph[$idx]"
                R.inst(rid, "get:known-name:stored-node", ok, sp=fn["sp"], got=showv(o[1]) if len(o) > 1 else o[0],
                       expect="Ok((split, VersionEntry { node_index, node_data: &self.graph[node_index] }))")
    R.inst(rid, "apply_diffs:no-path:Err", bool(ctx.get("astar_tried")), sp=None, expect="astar(..).ok_or_else(..)? (None -> Err)",
           detail="evaluated in R05.3 (pairs-over-astar-node-path); an unreachable version must not resolve")
    # ---- walker
    B = ctx.get("B")
    if not R.anchor(rid, "resolve evaluated past the scan", B is not None and B[1] is not None):
        return
    peB, st, loopsB, _ = B
    fn = ctx["resolve"]
    wl = [(n, e) for n, e in loopsB if n.get("k") == "loop"]
    if not R.anchor(rid, "resolve: walker `while let` loop", len(wl) == 1, sp=fn["sp"]):
        return
    wnode, wenv = wl[0]
    inner = []

    def hook(pe, n, env):
        if n.get("k") == "for":
            inner.append((n, dict(env)))
            return T.sym("<succ>")
        return None

    popped = []

    def pop_hook(args, n, pe):
        popped.append((H.callee_name(n), args))
        return T.V("Some", ("t", [S("wpath"), S("head")]))

    pe = PE(for_hook=hook, hooks={"pop_front": pop_hook, "pop_back": pop_hook, "pop": pop_hook})
    pe.run(wnode["body"], dict(wenv))
    if not R.anchor(rid, "walker: `for v in <successors of head>`", len(inner) == 1 and len(popped) == 1, sp=wnode["sp"]):
        return
    walkers = popped[0][1][0]
    # starts at the root with an empty path
    ok_start = False
    if walkers[0] == "t" and len(walkers[1]) == 1 and walkers[1][0][0] == "t" and len(walkers[1][0][1]) == 2:
        p0, h0 = walkers[1][0][1]
        ok_start = h0 == S("rootnode") and U.is_call(p0, "new", "default") and not U.call_args(p0)
    R.inst(rid, "walker:starts-at-root", ok_start, sp=wnode["sp"], got=showv(walkers), expect="[(Vec::new(), root)]")
    inode, ienv = inner[0]
    it = PE().run(inode["iter"], dict(ienv))
    # `for v in g.neighbors_directed(..)` == `let succ: Vec<_> = g.neighbors_directed(..).collect(); for v in succ` (element-preserving adapters)
    itv = U.peel_term(it[1], *U.ITER_ADAPTERS) if it[0] == "ok" else None
    ok_dir = U.is_call(itv, "neighbors_directed") and len(U.call_args(itv)) == 3 and U.call_args(itv)[1] == S("head") \
        and U.call_args(itv)[2] == T.V(spec["walk_direction"]) and same(U.call_args(itv)[0], st[2].get("graph"))
    R.inst(rid, "walker:follows-outgoing-edges-of-head", ok_dir, sp=inode["sp"], got=showv(itv),
           expect="graph.neighbors_directed(head, Direction::%s)" % spec["walk_direction"])
    env = dict(ienv)
    T.match_pat(inode["pat"], S("v"), env)
    pe2 = PE()
    out = pe2.run(inode["body"], env)
    pushes = [e for e in pe2.trace if e["kind"] == "call" and e["name"] in ("push_back", "push_front", "push") and e["args"] and same(e["args"][0], walkers)]
    ok_one = len(pushes) == 1 and pushes[0]["cond"] == 0 and out[0] == "ok"
    R.inst(rid, "walker:enqueues-successor", ok_one and len(pushes[0]["args"]) == 2 and pushes[0]["args"][1][0] == "t"
           and pushes[0]["args"][1][1][1:] == [S("v")], sp=inode["sp"], got=[[T.show(x) for x in e["args"]] for e in pushes],
           expect="walkers.push_back((path + [v], v))")
    if ok_one:
        g = pe2.guards(before=pushes[0])
        R.inst(rid, "walker:cycle-check-dominates-enqueue", ("atom", "contains($wpath, $v)", False) in g, sp=inode["sp"], got=g,
               expect="if path.contains(&v) { bail!(loop) } before the successor is enqueued",
               detail="without it a cyclic directory makes resolve loop forever instead of reporting an error")
        skips = []
        for e in pe2.trace:
            if e["kind"] == "guard" and e.get("canon") == ("atom", "contains($wpath, $v)", False):
                break
            if e["kind"] == "skip":
                skips.append(e["canon"])
        R.inst(rid, "walker:cycle-check-for-every-successor", bool(g) and g[0] == ("atom", "contains($wpath, $v)", False) and not skips, sp=inode["sp"],
               got={"guards": g, "skips-before-the-check": skips},
               expect="the cycle check is the first condition evaluated for a successor (no skip/continue before it)",
               detail="a successor that is skipped before `path.contains(&v)` is tested (e.g. 'already visited') hides every cycle through it: "
                      "the directory is then resolved arbitrarily instead of being reported as malformed")
        ext = [e for e in pe2.trace if e["kind"] == "call" and e["name"] in ("push", "push_back") and [T.show(x) for x in e["args"]] == ["$wpath", "$v"]
               and e["cond"] == 0]
        newp = pushes[0]["args"][1][1][0] if pushes[0]["args"][1][0] == "t" else None
        R.inst(rid, "walker:path-extended-by-successor", len(ext) == 1 and newp == S("wpath"), sp=inode["sp"],
               got={"push": [[T.show(x) for x in e["args"]] for e in ext], "enqueued-path": showv(newp)},
               expect="let mut path = path.clone(); path.push(v);")
    R.floor(rid, 10)


# ------------------------------------------------------------------------------------ R05.5
def r05_5(c, R, spec, ctx):
    rid = "R05.5"
    R.rule(rid, "names and edges: add_node registers a plain version under its own name and a `client~server` version under both halves, "
                "both halves mapped to one node whose name is the whole string, with Split tag None / First / Second, reusing an existing "
                "entry (entry().or_insert*); a `parent#child.tinydiff` file adds the edge node(parent) -> node(child) carrying that file's "
                "path; the returned versions/graph are the ones the scan filled")
    fn = ctx.get("add_node")
    if R.anchor(rid, "fn resolve::add_node", fn):
        tags = spec["split_tags"]
        for split in (True, False):
            def so(args, n, pe, split=split):
                if len(args) == 2 and args[1] == ("s", spec["split_separator"]):
                    return T.V("Some", ("t", [S("client"), S("server")])) if split else T.V("None")
                return None

            pe = PE(hooks={"split_once": so})
            out, env = pe.run_body(fn, [S("versions"), S("graph"), S("name")])
            o = U.outcome_value(out)
            ret = o[1] if len(o) > 1 else None
            entries = pe.calls_named("entry")
            keys = [T.show(e["args"][1]) if len(e["args"]) == 2 and e["args"][0] == S("versions") else "?" for e in entries]
            ins = [e for e in pe.trace if e["kind"] == "call" and e["name"] in ("or_insert", "or_insert_with", "or_insert_with_key", "insert", "or_default")]
            opq = [e for e in pe.trace if e["kind"] in ("opaque", "loop")]
            pfx = "add_node:%s" % ("split" if split else "plain")
            R.inst(rid, pfx + ":keys", keys == (["$client", "$server"] if split else ["$name"]) and not opq, sp=fn["sp"], got=keys,
                   expect=["client half", "server half"] if split else ["the name"])
            R.inst(rid, pfx + ":keeps-existing-entry", len(ins) == len(entries) and all(e["name"].startswith("or_insert") and e["args"] and
                   any(U.kind_of(e["args"][0]) == "call" and e["args"][0][4] == en["nid"] for en in entries) for e in ins), sp=fn["sp"],
                   got=[e["name"] for e in ins], expect="entry(key).or_insert*(..): a version named by several files is one node")

            def inserted(e):
                """value an or_insert* call stores for a vacant entry"""
                if e["name"] == "or_insert":
                    return e["args"][1]
                if e["name"] == "or_insert_with" and e["args"][1][0] == "closure":
                    return pe.apply(e["args"][1], [])
                if e["name"] == "or_insert_with_key" and e["args"][1][0] == "closure":
                    return pe.apply(e["args"][1], [S("key")])
                return None

            vals = [inserted(e) for e in ins]
            if split and len(vals) == 2 and all(v is not None and v[0] == "t" and len(v[1]) == 2 for v in vals):
                (t1, n1), (t2, n2) = vals[0][1], vals[1][1]
                ok_new = U.is_call(n1, "add_node") and U.call_args(n1)[0] == S("graph") and U.is_call(U.call_args(n1)[1], "new") \
                    and U.call_args(U.call_args(n1)[1]) == [S("name")]
                R.inst(rid, pfx + ":node-named-by-whole-string", ok_new and t1 == T.V(tags["first_half"]), sp=fn["sp"], got=T.show(vals[0]),
                       expect="(Split::First, graph.add_node(NodeData::new(version_str)))")
                first_idx = U.mk_fld(ins[0].get("value"), "1") if ins[0].get("value") else None
                ok_same = first_idx is not None and U.kind_of(n2) == "fld" and n2[3][1] == "1" and same(n2[3][0], ins[0]["value"]) and t2 == T.V(tags["second_half"])
                R.inst(rid, pfx + ":both-halves-one-node", ok_same, sp=fn["sp"], got=T.show(vals[1]),
                       expect="(Split::Second, <node index stored for the client half>)")
                R.inst(rid, pfx + ":returns-that-node", ret is not None and U.kind_of(ret) == "fld" and ret[3][1] == "1" and same(ret[3][0], ins[0]["value"]),
                       sp=fn["sp"], got=showv(ret))
            elif (not split) and len(vals) == 1 and vals[0] is not None and vals[0][0] == "t" and len(vals[0][1]) == 2:
                t1, n1 = vals[0][1]
                nm = U.call_args(U.call_args(n1)[1]) if U.is_call(n1, "add_node") and len(U.call_args(n1)) == 2 and U.is_call(U.call_args(n1)[1], "new") else None
                ok_new = nm is not None and nm in ([S("key")], [S("name")]) and U.call_args(n1)[0] == S("graph")
                R.inst(rid, pfx + ":node-named-by-name", ok_new and t1 == T.V(tags["plain"]), sp=fn["sp"], got=T.show(vals[0]),
                       expect="(Split::None, graph.add_node(NodeData::new(name)))")
                R.inst(rid, pfx + ":returns-that-node", ret is not None and U.kind_of(ret) == "fld" and ret[3][1] == "1" and same(ret[3][0], ins[0]["value"]),
                       sp=fn["sp"], got=showv(ret))
            else:
                R.unrecognised(rid, pfx, "cannot read the values stored by entry().or_insert*", sp=fn["sp"])
    # NodeData::new keeps the name
    nd = c.fn("new", impl_ty="version_graph::NodeData")
    if R.anchor(rid, "fn NodeData::new", nd):
        pe = PE()
        out, env = pe.run_body(nd, [S("name")])
        o = U.outcome_value(out)
        ok = len(o) > 1 and o[1][0] == "st" and o[1][2].get("name") == S("name")
        R.inst(rid, "NodeData::new:name", ok, sp=nd["sp"], got=showv(o[1]) if len(o) > 1 else o[0])
    # edges
    cell = (ctx.get("scan") or {}).get(("diff", "none"))
    B = ctx.get("B")
    if R.anchor(rid, "scan cell for a parent#child.tinydiff file", cell is not None and B is not None and B[1] is not None):
        pe, out, env = cell
        peB, st, loopsB, scan_env = B
        adds = calls_of(pe, ctx.get("add_node"))
        edges = pe.calls_named("add_edge")
        fnr = ctx["resolve"]
        if len(edges) == 1 and len(edges[0]["args"]) == 4:
            g, a, b, data = edges[0]["args"]
            by_name = {}
            for e in adds:
                by_name[T.show(e["args"][-1])] = e.get("value")
            ok = by_name.get("$parent") is not None and by_name.get("$child") is not None and same(a, by_name["$parent"]) and same(b, by_name["$child"])
            R.inst(rid, "edge:parent-to-child", ok, sp=edges[0]["node"]["sp"], got=[T.show(a)[:60], T.show(b)[:60]],
                   expect="graph.add_edge(node(<before #>), node(<after #>), ..)")
            ok_p = data[0] == "st" and U.is_call(data[2].get("path"), "path") and U.call_args(data[2]["path"]) == [S("entry")]
            R.inst(rid, "edge:carries-its-file-path", ok_p, sp=edges[0]["node"]["sp"], got=showv(data), expect="EdgeData { path: entry.path() }")
            # the containers: same objects in add_node/add_edge and in the returned struct
        # run B: graph / versions fields are the locals created before the scan and passed to add_node
        vals = {}
        for e in adds:
            if len(e["args"]) == 3:
                vals.setdefault("versions", e["args"][0])
                vals.setdefault("graph", e["args"][1])
        okc = True
        for fld in ("versions", "graph"):
            have = st[2].get(fld)
            want = vals.get(fld)
            okc = okc and have is not None and want is not None and T.show(have) == T.show(want) and U.is_call(have, "new", "default", "with_capacity")
        # identity of the container locals: the arguments of add_node are the locals whose value reaches the struct
        an = [n for n in H.walk(fnr["body"]) if n.get("k") == "call" and ctx.get("add_node") is not None
              and ((n.get("callee") or {}).get("inst_key") or (n.get("callee") or {}).get("key")) == ctx["add_node"]["key"]]
        ids_v, ids_g = set(), set()
        for n in an:
            if len(n["args"]) == 3:
                r0 = H.place_root(n["args"][0])[0]
                r1 = H.place_root(n["args"][1])[0]
                ids_v.add(r0[0] if r0 else None)
                ids_g.add(r1[0] if r1 else None)
        lit = [n for n in H.walk(fnr["body"]) if n.get("k") == "struct" and (n.get("adt") or "").endswith("VersionGraph")]
        ok_ids = False
        if len(lit) == 1:
            fl = {f["name"]: H.local_of(f["e"]) for f in lit[0]["fields"]}
            ok_ids = len(ids_v) == 1 and len(ids_g) == 1 and fl.get("versions") and fl["versions"][0] in ids_v and fl.get("graph") and fl["graph"][0] in ids_g
        R.inst(rid, "returned-containers-are-the-scanned-ones", okc and ok_ids, sp=fnr["sp"],
               got={k: showv(v) for k, v in vals.items()}, expect="VersionGraph { versions, graph } = the map/graph add_node filled")
    R.floor(rid, 13)
