"""C18 — descriptor grammar tables, name predicates, checked-newtype discipline.

Predicates, validators and guards are compared as *boolean formulae over subject atoms* (lib/c18_sym.py): the program text of a function
is evaluated symbolically (early return, `?`, bail!, if/else, match, if-let, let-else, matches!, for-loops that return at the first
offending element, Iterator::all/any, Option/Result combinators, calls into helpers of the same crates inlined) and the resulting formula
is compared by truth table with the documented one.  Functions are anchored by role (what calls them / their signature); names of private
items are only tie-breakers.
"""
import json
import os
import re

from lib import c18_sym as S
from lib import c19_util as IU
from lib import hir as H
from lib import tables as T

SPEC = os.path.join(os.path.dirname(os.path.dirname(os.path.abspath(__file__))), "spec", "jvms_names.json")


def run(F, R, tier):
    spec = json.load(open(SPEC))
    duke = F.crate("duke")
    r18_1(duke, R, spec)
    r18_2(F, R, spec)
    validators = r18_4(F, R, spec)
    r18_3(F, R, spec, validators)
    r18_5(F, R, spec)
    r18_7(duke, R, spec)
    return ("A5 terminal tables of read_field_type/write_field_type against the JVMS grammar (all ASCII code points), position of V, "
            "255-dimension guard dominance, trailing-input rejection in the three parse(); A8 discipline for every from_inner_unchecked "
            "call site (106) incl. literal validation against an independent JVMS 4.2 predicate; truth-table equivalence of the five name "
            "predicates, of the validators of the seven name types and of the duke-macros checkers with the documented formulae (symbolic "
            "evaluation of the program text, helpers inlined); TryFrom: unchecked constructor only under the validator's Ok; split/join helper guards; "
            "R18.7: the three parse() evaluated on every string over { I L a / ; [ ( ) V } up to length 4 plus grammar samples with all "
            "single-character edits against a reference recogniser of the JVMS 4.3 grammar (acceptance and type structure)")


# ------------------------------------------------------------------------------------ R18.1
def _char_matches(fn_body):
    """match nodes whose arm patterns are JavaCodePoint consts (terminal dispatch)."""
    out = []
    for n in H.walk(fn_body):
        if n.get("k") == "match" and n.get("src") == "Normal":
            try:
                if any(H.pat_int_values(a["pat"]) for a in n["arms"]):
                    out.append(n)
            except ValueError:
                pass
    return out


RAW_TEXT_TYPES = ("java_string::owned::JavaString", "java_string::slice::JavaStr", "alloc::string::String", "str")


def _strip_ty(t):
    t = (t or "").strip()
    while t.startswith("&"):
        t = t[1:].strip()
        if t.startswith("'"):
            t = t.split(" ", 1)[1] if " " in t else t
        if t.startswith("mut "):
            t = t[4:]
    return t


def _conversions(node, crate, stream_ty, depth=0, seen=()):
    """Conversions raw text -> name newtype that happen while `node` is evaluated, following calls into helpers of the crate that receive
    the character stream (the parser state) or raw text.  -> [target type]"""
    convs = []
    for n in H.walk(node):
        if n.get("k") not in ("call", "mcall"):
            continue
        name = H.callee_name(n)
        c = n.get("callee") or {}
        args = H.call_args(n)
        arg_tys = [_strip_ty(a.get("ty")) for a in args]
        if name in ("try_from", "try_into", "from_inner_unchecked", "from_inner", "new_unchecked"):
            if any(t in RAW_TEXT_TYPES for t in arg_tys):
                target = c.get("self_ty") or c.get("impl_ty") or ""
                if name == "try_into":
                    target = n.get("ty") or ""
                convs.append("%s -> %s" % (name, target))
            continue
        key = c.get("inst_key") or c.get("key")
        b = crate.by_key.get(key)
        if b is not None and key not in seen and depth < 4 and any(t == stream_ty or t in RAW_TEXT_TYPES for t in arg_tys):
            convs.extend(_conversions(b["body"], crate, stream_ty, depth + 1, seen + (key,)))
    return convs


def _parse_sym(duke, rft):
    """Evaluator for the three parse(): read_field_type stays an opaque call atom."""
    rkey = rft["key"] if rft else None
    return S.Sym([duke], opaque_call=lambda c, body: body["key"] == rkey)


def r18_1(duke, R, spec):
    R.rule("R18.1", "read_field_type maps exactly the terminals B C D F I J S Z L to the JVMS types (plain and array position) and rejects every "
                    "other code point; write_field_type is the inverse table; V is accepted only in return position; the dimension counter is "
                    "incremented only below 255; the three parse() reject trailing input; method descriptors require '(' … ')'")
    rft = duke.fn("read_field_type")
    if R.anchor("R18.1", "fn read_field_type", rft):
        stream_ty = _strip_ty((rft.get("inputs") or [""])[0])
        ms = _char_matches(rft["body"])
        if R.anchor("R18.1", "two terminal-dispatch matches in read_field_type", len(ms) == 2, sp=rft["sp"]):
            for m in ms:
                # which position? the arm bodies construct Type::X (plain) or Type::Array(_, ArrayType::X)
                for cp in range(0x20, 0x7f):
                    ch = chr(cp)
                    # the dispatched code point is given to the match itself (whatever expression the scrutinee is)
                    ev = T.Evaluator(scrut_override={id(m): ("i", cp)})
                    try:
                        got = ev.match(m, {})
                    except T.Return as r:
                        got = r.v
                    want = spec["field_type_terminals"].get(ch)
                    if got[0] == "v" and got[1] == "Array":
                        inner = got[2][1] if len(got[2]) > 1 else ("sym", "?")
                        name = inner[1] if inner[0] == "v" else T.show(inner)
                    elif got[0] == "v":
                        name = got[1]
                    else:
                        name = "Err" if got[0] == "err" else T.show(got)
                    if want is None:
                        R.inst("R18.1", "read-terminal:%s:%r" % (_pos_of(m), ch), got[0] == "err", sp=m["sp"], expect="error", got=name,
                               nontrivial=ch in "VAEGHKLMNOPQRTUWXY;()[/.")
                    else:
                        R.inst("R18.1", "read-terminal:%s:%r" % (_pos_of(m), ch), name == want, sp=m["sp"], expect=want, got=name)
            # the text between `L` and `;` must be validated as an *object* class name in both positions (JVMS 4.3.2: ClassName,
            # not an array descriptor); ArrayType::Object stores a ClassName, so a ClassName::try_from would type-check too.
            # The conversion may sit in the arm or in a helper that continues reading the character stream (followed).
            for m in ms:
                arm = None
                for a in m["arms"]:
                    try:
                        vals = H.pat_int_values(a["pat"])
                    except ValueError:
                        vals = None
                    if vals and ord("L") in vals:
                        arm = a
                convs = _conversions(arm["body"], duke, stream_ty, seen=(rft["key"],)) if arm is not None else []
                okc = bool(convs) and all(t.startswith(("try_from ->", "try_into ->")) and "ObjClassName" in t for t in convs)
                R.inst("R18.1", "object-name-validated-as-ObjClassName:%s" % _pos_of(m), okc, sp=(arm or m)["sp"], got=convs,
                       expect="the name between `L` and `;` goes through ObjClassName::try_from (rejects empty names, '.', ';', '[' and array names)")
        # the 255 guard dominates the increment of the dimension counter (path condition at the increment, any guard shape)
        incs = [n for n in H.walk(rft["body"]) if n.get("k") == "assignop" and n["op"] in ("+", "+=")]
        ok = False
        sp = rft["sp"]
        why = "no `+= 1` on a u8 counter"
        if len(incs) == 1 and incs[0]["l"].get("ty") == "u8" and H.const_value(incs[0]["r"]) == 1:
            sp = incs[0]["sp"]
            sym = S.Sym([duke], opaque_call=lambda c, body: True)
            sym.watch_ids.add(id(incs[0]))
            sym.fn_value(rft)
            hits = sym.watch.get(id(incs[0]), [])
            why = "increment not reached by the evaluator"
            for pc, vals in hits:
                cur = vals[0]
                if cur and cur[0] == "s":
                    mx = spec["max_array_dimension"]
                    ok = S.implies(pc, S.f_not(S.atom("eq", cur[1], mx)))[0] or S.implies(pc, S.f_not(S.atom("ge", cur[1], mx)))[0]
                    why = "path condition at the increment: %s" % S.show(pc)
        R.inst("R18.1", "dimension-guard", ok and len(incs) == 1, sp=sp, got=why,
               detail="`array_dimension += 1` (u8) is reached only when the counter is not (yet) 255")
    # V only in return position; trailing input; parentheses
    parses = {}
    for b in duke.fns("parse"):
        it = b.get("impl_ty") or ""
        for nm in ("FieldDescriptorSlice", "MethodDescriptorSlice", "ReturnDescriptorSlice"):
            if it.endswith(nm):
                parses[nm] = b
    for nm in ("FieldDescriptorSlice", "MethodDescriptorSlice", "ReturnDescriptorSlice"):
        b = parses.get(nm)
        if not R.anchor("R18.1", "fn %s::parse" % nm, b):
            continue
        sym = _parse_sym(duke, rft)
        val = sym.fn_value(b)
        P = sym.positive(val)
        ats = S.atoms_of(P)
        for fr_pc in ():
            pass

        def it_atoms(method, arg=None):
            return [a for a in ats if a[0] == "iter" and a[1] == method and a[2] == "chars" and a[3] == "p0" and (arg is None or a[4] == (arg,))]
        v_tests = [n for n in H.walk(b["body"]) if n.get("k") == "mcall" and n["name"] in ("next_if_eq", "next_if") and n["args"] and H.const_value(n["args"][0]) == spec["void_terminal"]]
        v_at = it_atoms("next_if_eq", spec["void_terminal"])
        reads = [a for a in ats if a[0] == "call" and rft and a[1] == rft["key"]]
        if nm == "FieldDescriptorSlice":
            R.inst("R18.1", "void-position:%s" % nm, len(v_tests) == 0 and not v_at, sp=b["sp"], detail="V is not a field type")
        else:
            # the Option in the result is None exactly when `V` was consumed, and otherwise a field type has been read
            comps = _bool_components(val[2]) if val[0] == "b" and val[2] is not None else []
            ok = False
            got = "V tests: %d, optional components of the result: %d" % (len(v_tests), len(comps))
            if len(v_tests) == 1 and len(v_at) == 1 and len(comps) == 1 and len(reads) == 1:
                V = ("atom", v_at[0])
                rd = ("atom", reads[0])
                ok = (S.equivalent(S.f_and(P, comps[0]), S.f_and(P, S.f_not(V)))[0] and S.implies(S.f_and(P, S.f_not(V)), rd)[0]
                      and S.equivalent(S.f_and(P, V), S.FALSE)[0] is False)
                got = "Some iff %s (under success)" % S.show(_restrict(comps[0], P))
            R.inst("R18.1", "void-position:%s" % nm, ok, sp=b["sp"], got=got, detail="`V` => no return type, anything else => a field type")
        # trailing input: success implies that `chars.peek()` gave None
        pk = it_atoms("peek")
        ok = len(pk) == 1 and S.implies(P, S.f_not(("atom", pk[0])))[0] and S.equivalent(P, S.FALSE)[0] is False
        R.inst("R18.1", "trailing-input-rejected:%s" % nm, ok, sp=b["sp"], got="returns Ok iff " + S.show(P)[:300],
               detail="a successful return requires `chars.peek()` to be None")
        if nm == "MethodDescriptorSlice":
            op = it_atoms("next_if_eq", "(")
            ok_open = len(op) == 1 and S.implies(P, ("atom", op[0]))[0]
            R.inst("R18.1", "method-open-paren", ok_open, sp=b["sp"], got="returns Ok iff " + S.show(P)[:300])
            closes = [n for n in H.walk(b["body"]) if n.get("k") == "mcall" and n["name"] == "next_if_eq" and H.const_value(n["args"][0]) == ")"]
            ok_close = False
            for n in H.walk(b["body"]):
                if n.get("k") == "loop" and closes and any(x is closes[0] for x in H.walk(n)):
                    brk = [x for x in H.walk(n) if x.get("k") == "break"]
                    rds = [x for x in H.walk(n) if H.is_call(x, "read_field_type")]
                    ok_close = len(brk) == 1 and len(rds) == 1 and len(closes) == 1
            R.inst("R18.1", "method-parameter-loop", ok_close, sp=b["sp"], detail="parameters are read until `)`")
    # writer table: for every Type / ArrayType value the sequence of constants appended on the path taken (helpers of the module inlined,
    # terminals may travel through a local: `let c = match t {..}; string.push(c)`)
    wft = duke.fn("write_field_type")
    if R.anchor("R18.1", "fn write_field_type", wft):
        inv = {v: k for k, v in spec["field_type_terminals"].items()}
        owner = wft["path"].rsplit("::", 1)[0]
        helpers = {b["key"]: b for b in duke.bodies if b["path"].rsplit("::", 1)[0] == owner and b["key"] != wft["key"] and b.get("dk") == "Fn"}
        tadt = next((a for p_, a in duke.adts.items() if p_.endswith("descriptor::Type")), None)
        aadt = next((a for p_, a in duke.adts.items() if p_.endswith("descriptor::ArrayType")), None)
        seen = 0
        if R.anchor("R18.1", "enums descriptor::Type and descriptor::ArrayType", tadt and aadt, sp=wft["sp"]):
            def seq_for(value):
                ev = _WriterEval(inline=helpers)
                ev.run_fn(wft, [value, T.sym("out")])
                return [e for e in ev.effects if e[0] in ("push", "str", "loop")], ev

            def want_for(vname):
                return [("push", inv[vname])] if vname != "Object" else [("push", "L"), ("str", "name"), ("push", ";")]

            def norm(seq):
                return [(k_, ("name" if "name" in T.show(v) else T.show(v)) if k_ == "str" else (v[1] if v[0] == "s" else T.show(v))) for k_, v in seq]
            for v in tadt["variants"]:
                vn = v["name"]
                if vn == "Array":
                    continue
                val = T.V(vn, *([T.sym("name")] if v["fields"] else []))
                got, _ = seq_for(val)
                ok = vn in inv and norm(got) == want_for(vn)
                R.inst("R18.1", "write-terminal:Type::%s" % vn, ok, sp=wft["sp"], expect=want_for(vn) if vn in inv else "a JVMS field type", got=norm(got))
                seen += 1
            loop_ok = True
            first = True
            for v in aadt["variants"]:
                vn = v["name"]
                val = T.V("Array", T.sym("dim"), T.V(vn, *([T.sym("name")] if v["fields"] else [])))
                got, _ = seq_for(val)
                loops = [e for e in got if e[0] == "loop"]
                rest = [e for e in got if e[0] != "loop"]
                this_loop = (len(loops) == 1 and got and got[0][0] == "loop" and loops[0][1][0] == "st" and loops[0][1][1] == "Range"
                             and loops[0][1][2].get("start") == ("i", 0) and T.show(loops[0][1][2].get("end", ("sym", "?"))) == "dim"
                             and norm(loops[0][2]) == [("push", "[")])
                loop_ok = loop_ok and this_loop
                ok = vn in inv and norm(rest) == want_for(vn)
                R.inst("R18.1", "write-terminal:ArrayType::%s" % vn, ok, sp=wft["sp"], expect=want_for(vn) if vn in inv else "a JVMS field type", got=norm(rest))
                seen += 1
            R.inst("R18.1", "write-terminal:Type::Array", loop_ok, sp=wft["sp"], expect="'[' once per dimension (loop over 0..dimension), before the element type",
                   detail="one '[' per dimension, then the element type")
            R.inst("R18.1", "write-array-dimension-loop", loop_ok, sp=wft["sp"])
            seen += 1
        R.inst("R18.1", "write-table-size", seen == 19, sp=wft["sp"], expect=19, got=seen, nontrivial=False)
    R.floor("R18.1", 2 * 95 + 19 + 8)


class _WriterEval(T.Evaluator):
    """T.Evaluator that records, in order, what is appended to the output string on the evaluated path:
    ("push", const) / ("str", value) / ("loop", iterator value, [what one iteration appends])."""

    def __init__(self, inline=None):
        super().__init__(inline=inline, max_inline=3, calls={
            "push": lambda a: self._rec("push", a), "push_java": lambda a: self._rec("push", a),
            "push_java_str": lambda a: self._rec("str", a), "push_str": lambda a: self._rec("str", a),
            # `out.extend(iter::repeat(c).take(n))` / `extend(iter::repeat_n(c, n))` appends c n times: the same as `for _ in 0..n { out.push(c) }`
            "repeat": lambda a: T.V("repeat", a[0]) if len(a) == 1 else None,
            "repeat_n": lambda a: T.V("take", T.V("repeat", a[0]), a[1]) if len(a) == 2 else None,
            "take": lambda a: T.V("take", a[0], a[1]) if len(a) == 2 and a[0][0] == "v" and a[0][1] == "repeat" else None,
            "from": lambda a: a[0] if len(a) == 1 and T.is_sym(a[0]) else None,
            "extend": lambda a: self._extend(a)})

    def _extend(self, a):
        it = a[-1]
        if len(a) == 2 and it[0] == "v" and it[1] == "take" and it[2][0][0] == "v" and it[2][0][1] == "repeat":
            self.effects.append(("loop", ("st", "Range", {"start": ("i", 0), "end": it[2][1]}), [("push", it[2][0][2][0])]))
            return ("t", [])
        return None

    def _rec(self, kind, args):
        self.effects.append((kind, args[-1]))
        return ("t", [])

    def ev(self, n, env):
        if n.get("k") == "for":
            it = self.ev(n["iter"], env)
            saved, self.effects = self.effects, []
            try:
                try:
                    self.ev(n["body"], dict(env))
                except T.Break:
                    pass
                inner = [e for e in self.effects if e[0] in ("push", "str", "loop")]
            finally:
                self.effects = saved
            self.effects.append(("loop", it, inner))
            return ("t", [])
        return super().ev(n, env)


class _JoinEval(_WriterEval):
    """_WriterEval for string builders: every append is recorded with the string it goes to and whether it happens under a condition the
    evaluation cannot decide; identity views between a name type and its inner string are transparent."""
    VIEWS = ("into_inner", "as_inner", "as_java_str", "as_mut_inner", "as_inner_mut")
    MUTATORS = ("pop", "truncate", "clear", "insert", "insert_str", "insert_java", "insert_java_str", "remove", "retain", "drain", "replace_range")

    def __init__(self, inline=None):
        super().__init__(inline=inline)
        self.undecided = 0
        for v in self.VIEWS:
            self.calls[v] = lambda a: a[0] if a else None
        self.calls["from_inner_unchecked"] = lambda a: T.V("unchecked", a[-1]) if a else None

    def _rec(self, kind, args):
        self.effects.append((kind, args[-1], args[0] if len(args) > 1 else None, self.undecided > 0))
        return ("t", [])

    def if_(self, n, env):
        # is the condition decided?  (probe it first; the probe's own effects are dropped)
        ne, nc = len(self.effects), len(self.callvals)
        c = H.peel(n["cond"], refs=False)
        if c.get("k") == "letexpr":
            decided = T.match_pat(c["pat"], self.ev(c["init"], env), dict(env)) in (True, False)
        else:
            decided = self.ev(n["cond"], env) in (("b", True), ("b", False))
        del self.effects[ne:]
        del self.callvals[nc:]
        if decided:
            return super().if_(n, env)
        self.undecided += 1
        try:
            return super().if_(n, env)
        finally:
            self.undecided -= 1


def _bool_components(v):
    """Option/Result/bool-valued components of an abstract payload (struct / tuple-struct / tuple)."""
    out = []
    if v is None:
        return out
    if v[0] == "b":
        out.append(v[1])
    elif v[0] == "t":
        for x in v[1]:
            out.extend(_bool_components(x))
    elif v[0] == "st":
        for x in v[2].values():
            out.extend(_bool_components(x))
    return out


def _restrict(f, P):
    return f


def _pos_of(m):
    for a in m["arms"]:
        for x in H.walk(a["body"]):
            c = H.ctor_of(x)
            if c and c[1] == "Array":
                return "array"
    return "plain"


def _inside_match(root, x):
    chain = H.parents_of(root, x) or []
    return any(p.get("k") == "match" for p in chain)


# ------------------------------------------------------------------------------------ JVMS 4.2 reference predicates
def _valid_unqualified(s, spec):
    return len(s) > 0 and not any(c in s for c in spec["unqualified_forbidden"])


def _valid_for_type(tyname, s, spec):
    t = tyname.rsplit("::", 1)[-1].replace("Slice", "")
    if t == "ClassName":
        return s.startswith("[") or all(_valid_unqualified(p, spec) for p in s.split("/"))
    if t == "ObjClassName":
        return not s.startswith("[") and all(_valid_unqualified(p, spec) for p in s.split("/"))
    if t == "ArrClassName":
        return s.startswith("[")
    if t == "MethodName":
        return s in spec["method_special"] or (len(s) > 0 and not any(c in s for c in spec["method_forbidden"]))
    if t in ("FieldName", "ParameterName", "LocalVariableName"):
        return _valid_unqualified(s, spec)
    return None


# Reviewed constructions of a checked type from data that is not re-validated (frozen table).  A site is identified by its ROLE:
# (owner = impl type / module, multiset of parameter types, return type, constructed type) — not by the name of the function, so renaming or
# hoisting a private helper does not disturb it; `n` = number of reviewed sites with that role (an additional one is reported).
# kind `closed`: documented closed conversion between already-checked types; kind `other-owner`: argument built from already-checked names,
# decided under another property's rule (listed so that a NEW site is noticed).   (kind, label, owner, inputs, output, target, n, reason)
REVIEWED_SITES = [
    ('closed', 'duke::tree::class::ClassName::into_arr_and_obj',
     'duke::tree::class::ClassName', ('duke::tree::class::ClassName',),
     'core::result::Result<duke::tree::class::ArrClassName, duke::tree::class::ObjClassName>', 'ArrClassName', 1, 'guarded by is_array() (then-branch)'),
    ('closed', 'duke::tree::class::ClassName::into_arr_and_obj',
     'duke::tree::class::ClassName', ('duke::tree::class::ClassName',),
     'core::result::Result<duke::tree::class::ArrClassName, duke::tree::class::ObjClassName>', 'ObjClassName', 1, 'a valid ClassName that is not an array is an object class name (else-branch)'),
    ('closed', 'duke::tree::class::ClassNameSlice::as_arr_and_obj',
     'duke::tree::class::ClassNameSlice', ('&duke::tree::class::ClassNameSlice',),
     'core::result::Result<&duke::tree::class::ArrClassNameSlice, &duke::tree::class::ObjClassNameSlice>', 'ArrClassNameSlice', 1, 'guarded by is_array()'),
    ('closed', 'duke::tree::class::ClassNameSlice::as_arr_and_obj',
     'duke::tree::class::ClassNameSlice', ('&duke::tree::class::ClassNameSlice',),
     'core::result::Result<&duke::tree::class::ArrClassNameSlice, &duke::tree::class::ObjClassNameSlice>', 'ObjClassNameSlice', 1, 'non-array ClassName is an ObjClassName'),
    ('closed', '<duke::tree::class::ClassName as core::convert::From<duke::tree::class::ArrClassName>>::from',
     'duke::tree::class::ClassName as <duke::tree::class::ClassName as core::convert::From<duke::tree::class::ArrClassName>>', ('duke::tree::class::ArrClassName',),
     'duke::tree::class::ClassName', 'ClassName', 1, 'subset conversion'),
    ('closed', '<duke::tree::class::ClassName as core::convert::From<duke::tree::class::ObjClassName>>::from',
     'duke::tree::class::ClassName as <duke::tree::class::ClassName as core::convert::From<duke::tree::class::ObjClassName>>', ('duke::tree::class::ObjClassName',),
     'duke::tree::class::ClassName', 'ClassName', 1, 'subset conversion'),
    ('closed', 'duke::tree::class::ObjClassName::from_inner_class',
     'duke::tree::class::ObjClassName', ('duke::tree::class::ObjClassName', '&duke::tree::class::ObjClassNameSlice'),
     'duke::tree::class::ObjClassName', 'ObjClassName', 1, "valid name + '$' + valid name (no separator chars added)"),
    ('closed', 'duke::tree::class::ObjClassNameSlice::as_class_name',
     'duke::tree::class::ObjClassNameSlice', ('&duke::tree::class::ObjClassNameSlice',),
     '&duke::tree::class::ClassNameSlice', 'ClassNameSlice', 1, 'subset conversion'),
    ('closed', 'duke::tree::class::ObjClassNameSlice::get_simple_name',
     'duke::tree::class::ObjClassNameSlice', ('&duke::tree::class::ObjClassNameSlice',),
     '&duke::tree::class::ObjClassNameSlice', 'ObjClassNameSlice', 1, "a '/'-separated segment of a valid name"),
    ('closed', 'duke::tree::class::ObjClassNameSlice::split_inner_class_parent_and_name',
     'duke::tree::class::ObjClassNameSlice', ('&duke::tree::class::ObjClassNameSlice',),
     'core::option::Option<(&duke::tree::class::ObjClassNameSlice, &duke::tree::class::ObjClassNameSlice)>', 'ObjClassNameSlice', 2, "both halves checked non-empty, parent not ending in '/', inner without '/' (R18.5)"),
    ('closed', 'duke::tree::descriptor::ParsedFieldDescriptor::write',
     'duke::tree::descriptor::ParsedFieldDescriptor', ('&duke::tree::descriptor::ParsedFieldDescriptor',),
     'duke::tree::field::FieldDescriptor', 'FieldDescriptor', 1, 'printer output (FieldDescriptor::check_valid accepts everything today)'),
    ('closed', 'duke::tree::descriptor::ParsedMethodDescriptor::write',
     'duke::tree::descriptor::ParsedMethodDescriptor', ('&duke::tree::descriptor::ParsedMethodDescriptor',),
     'duke::tree::method::MethodDescriptor', 'MethodDescriptor', 1, 'printer output'),
    ('closed', 'duke::tree::descriptor::ParsedReturnDescriptor::write',
     'duke::tree::descriptor::ParsedReturnDescriptor', ('&duke::tree::descriptor::ParsedReturnDescriptor',),
     'duke::tree::descriptor::ReturnDescriptor', 'ReturnDescriptor', 1, 'printer output'),
    ('closed', '<duke::tree::descriptor::ReturnDescriptor as core::convert::From<duke::tree::field::FieldDescriptor>>::from',
     'duke::tree::descriptor::ReturnDescriptor as <duke::tree::descriptor::ReturnDescriptor as core::convert::From<duke::tree::field::FieldDescriptor>>', ('duke::tree::field::FieldDescriptor',),
     'duke::tree::descriptor::ReturnDescriptor', 'ReturnDescriptor', 1, 'FieldType is a ReturnDescriptor'),
    ('closed', 'duke::tree::descriptor::<impl duke::tree::field::FieldDescriptor>::from_arr_class',
     'duke::tree::field::FieldDescriptor', ('&duke::tree::class::ArrClassNameSlice',),
     'duke::tree::field::FieldDescriptor', 'FieldDescriptor', 1, 'an array class name is its own descriptor'),
    ('closed', 'duke::tree::descriptor::<impl duke::tree::field::FieldDescriptor>::from_obj_class',
     'duke::tree::field::FieldDescriptor', ('&duke::tree::class::ObjClassNameSlice',),
     'duke::tree::field::FieldDescriptor', 'FieldDescriptor', 1, "'L' name ';' wrapper"),
    ('other-owner', 'dukebox::remap::remap_jar_entry_name_java',
     'dukebox::remap', ('&java_string::slice::JavaStr', '&impl BRemapper'),
     'core::result::Result<java_string::owned::JavaString, anyhow::Error>', 'ObjClassNameSlice', 1, 'C07'),
    ('other-owner', 'dukenest::nester_run::replace_double_underscore_with_dollar',
     'dukenest::nester_run', ('&duke::tree::class::ObjClassNameSlice',),
     'duke::tree::class::ObjClassName', 'ObjClassName', 1, 'C14'),
    ('other-owner', 'dukenest::nester_jar::nest_jar::remap',
     'dukenest::nester_jar', ('&indexmap::map::IndexMap<duke::tree::class::ObjClassName, dukenest::nest::Nest>', '&dukenest::nest::Nest'),
     'duke::tree::class::ObjClassName', 'ObjClassName', 1, 'C14'),
    ('other-owner', "dukenest::nests_mapper_run::NestTypeA::<'a>::new",
     "dukenest::nests_mapper_run::NestTypeA<'a>", ("&'a duke::tree::class::ObjClassNameSlice",),
     "dukenest::nests_mapper_run::NestTypeA<'a>", 'ObjClassNameSlice', 2, 'C14'),
    ('other-owner', 'dukenest::nests_mapper_run::inner_name',
     'dukenest::nests_mapper_run', ('&duke::tree::class::ObjClassNameSlice', '&duke::tree::class::ObjClassNameSlice', '&duke::tree::class::ObjClassNameSlice'),
     'core::result::Result<duke::tree::class::ObjClassName, anyhow::Error>', 'ObjClassName', 1, 'C14'),
    ('other-owner', 'dukenest::nests_mapper_run::rsplit_underscore',
     'dukenest::nests_mapper_run', ('&duke::tree::class::ObjClassNameSlice',),
     'core::result::Result<core::option::Option<(&duke::tree::class::ObjClassNameSlice, &duke::tree::class::ObjClassNameSlice)>, anyhow::Error>', 'ObjClassNameSlice', 2, 'C14'),
    ('other-owner', 'dukenest::nests_mapper_run::construct_inner_name_from_anonymous_number',
     'dukenest::nests_mapper_run', ('java_string::owned::JavaString',),
     'core::result::Result<duke::tree::class::ObjClassName, anyhow::Error>', 'ObjClassName', 1, 'C14'),
    ('other-owner', 'feather_build_rs::insert_mappings::insert_mappings',
     'feather_build_rs::insert_mappings', ('feather_build_rs::PropagationDirection', 'bool', "&'version feather_build_rs::version_graph::VersionGraph", 'quill::tree::mappings_diff::MappingsDiff', "feather_build_rs::version_graph::VersionEntry<'version>"),
     'core::result::Result<(), anyhow::Error>', 'ObjClassName', 1, 'outside the listed properties (binary-only helper)'),
    ('other-owner', 'quill::action::insert_dummy::<impl quill::tree::mappings_diff::MappingsDiff>::insert_dummy_and_contract_inner_names',
     'quill::tree::mappings_diff::MappingsDiff', ('quill::tree::mappings_diff::MappingsDiff',),
     'core::result::Result<quill::tree::mappings_diff::MappingsDiff, anyhow::Error>', 'ParameterName', 1, 'C10 (p_<index> literal prefix + decimal digits)'),
    ('closed', 'quill::remapper::ARemapper::map_class_any',
     'quill::remapper::ARemapper', ('&Self', '&duke::tree::class::ClassNameSlice'),
     'core::result::Result<duke::tree::class::ClassName, anyhow::Error>', 'ArrClassName', 1, "result of map_desc on an array class name keeps the leading '['"),
    ('closed', 'quill::remapper::ARemapper::map_field_desc',
     'quill::remapper::ARemapper', ('&Self', '&duke::tree::field::FieldDescriptorSlice'),
     'core::result::Result<duke::tree::field::FieldDescriptor, anyhow::Error>', 'FieldDescriptor', 1, 'map_desc preserves descriptor shape (descriptor types accept everything today)'),
    ('closed', 'quill::remapper::ARemapper::map_method_desc',
     'quill::remapper::ARemapper', ('&Self', '&duke::tree::method::MethodDescriptorSlice'),
     'core::result::Result<duke::tree::method::MethodDescriptor, anyhow::Error>', 'MethodDescriptor', 1, 'map_desc preserves descriptor shape'),
    ('closed', 'quill::remapper::ARemapper::map_return_desc',
     'quill::remapper::ARemapper', ('&Self', '&duke::tree::descriptor::ReturnDescriptorSlice'),
     'core::result::Result<duke::tree::descriptor::ReturnDescriptor, anyhow::Error>', 'ReturnDescriptor', 1, 'map_desc preserves descriptor shape'),
    ('other-owner', 'quill::remapper::map_desc',
     'quill::remapper', ('&impl ARemapper + ?Sized', '&java_string::slice::JavaStr'),
     'core::result::Result<java_string::owned::JavaString, anyhow::Error>', 'ObjClassNameSlice', 1, 'C06 (R06.4)'),
]


def _owner_of(crate, b):
    """impl type (+ trait) of a method; for a free function the module that owns it (enclosing functions of a nested fn stripped)."""
    if b.get("impl_ty"):
        return b["impl_ty"] + ((" as " + b["impl_trait"]) if b.get("impl_trait") else "")
    segs = b["path"].split("::")[:-1]
    while len(segs) > 1 and "::".join(segs) in crate.by_path:
        segs = segs[:-1]
    return "::".join(segs)


_MARKER_TRAITS = ("Sized", "MetaSized", "PointeeSized")


def _canon_ty(t, tparams=None):
    """Type string of a signature, independent of spelling that does not change the type: lifetimes are dropped (`&'a T`, `Foo<'a>`,
    `Foo<'_>`: named, elided or anonymous) and a type parameter of the function itself is written by its bounds, so `fn f<R>(r: &R) where
    R: Tr + ?Sized`, `fn f<R: Tr + ?Sized>(r: &R)` and `fn f(r: &(impl Tr + ?Sized))` are the same role."""
    if not isinstance(t, str):
        return t
    if tparams:
        rx = re.compile(r"(?<![A-Za-z0-9_:])(%s)(?![A-Za-z0-9_:])" % "|".join(re.escape(p) for p in sorted(tparams, key=len, reverse=True)))
        t = rx.sub(lambda m: tparams[m.group(1)], t)
    t = re.sub(r"\bfor<[^<>]*>\s*", "", t)
    t = re.sub(r"&'[A-Za-z_][A-Za-z0-9_]*\s+", "&", t)
    t = re.sub(r"'[A-Za-z_][A-Za-z0-9_]*\s*,\s*", "", t)
    t = re.sub(r",\s*'[A-Za-z_][A-Za-z0-9_]*(?![A-Za-z0-9_'])", "", t)
    t = re.sub(r"(?:::)?<'[A-Za-z_][A-Za-z0-9_]*>", "", t)
    return t


def _tparams_of(b):
    """{name of a type parameter of the function itself (also the synthetic `impl Trait` ones): canonical `impl A + B [+ ?Sized]`}."""
    by = {}
    for x in b.get("bounds") or []:
        by.setdefault(x["param"], []).append(x["trait"].rsplit("::", 1)[-1])
    out = {}
    for p, trs in by.items():
        named = sorted(set(t for t in trs if t not in _MARKER_TRAITS))
        if "Sized" not in trs:
            named.append("?Sized")
        out[p] = "impl " + " + ".join(named or ["Sized"])
    return out


def _canon_owner(owner):
    """impl type (+ trait) of a method as it is; the module of a free function is reduced to its crate (moving a free function to another
    module of the crate keeps its role; the number of sites per role stays limited, so an additional site is still reported)."""
    owner = _canon_ty(owner)
    last = owner.rsplit("::", 1)[-1]
    if "<" in owner or " as " in owner or not last[:1].islower():
        return owner
    return owner.split("::", 1)[0]


def _canon_role(owner, inputs, output, target, tparams=None):
    return (_canon_owner(owner), tuple(sorted(_canon_ty(t, tparams) for t in (inputs or ()))), _canon_ty(output, tparams), target)


def _role(crate, b, target):
    return _canon_role(_owner_of(crate, b), b.get("inputs") or (), b.get("output"), target, _tparams_of(b))


def _users_index(crate):
    """key of a function -> bodies of the crate that mention it (call it or take it as a value; closures belong to their parent body)."""
    idx = {}
    for u in crate.bodies:
        if not isinstance(u.get("body"), dict):
            continue
        for n in H.walk(u["body"]):
            k = n.get("k")
            rec = n.get("callee") if k in ("call", "mcall") else n.get("res") if k == "path" else None
            if isinstance(rec, dict) and rec.get("r") == "def" and rec.get("dk") in ("Fn", "AssocFn"):
                for kk in (rec.get("key"), rec.get("inst_key")):
                    if kk and kk != u["key"]:
                        idx.setdefault(kk, {})[u["key"]] = u
    return idx


def _entry_for(crate, users, table, b, tshort, depth=0, seen=()):
    """The reviewed-table entry that covers an unchecked construction of `tshort` in body b: the entry of b's own role, or - if b is a
    private function (not visible outside its crate, not a trait method) - the one entry shared by every function of the crate that uses
    b: the body of a reviewed function (or of a closure in it) moved into a private helper / nested fn is still that function's site."""
    e = table.get(_role(crate, b, tshort))
    if e is not None:
        return e
    if depth >= 3 or b["key"] in seen or b.get("dk") not in ("Fn", "AssocFn") or b.get("impl_trait"):
        return None
    if not (b.get("vis") or "").startswith("Restricted"):
        return None
    us = users().get(b["key"]) or {}
    found = None
    for u in us.values():
        eu = _entry_for(crate, users, table, u, tshort, depth + 1, tuple(seen) + (b["key"],))
        if eu is None or (found is not None and eu is not found):
            return None
        found = eu
    return found


def r18_2(F, R, spec):
    R.rule("R18.2", "every call of a generated `from_inner_unchecked` is (a) inside the generating macro (identity view of self.0, or the "
                    "TryFrom impls of R18.4), (b) a string literal in a const that an independent JVMS 4.2 predicate accepts, (c) a documented "
                    "closed conversion between already-checked types (frozen table keyed by the role of the site: owner, signature, "
                    "constructed type; a private helper used only by functions of one such role shares it), or (d) owned by another "
                    "property's rule; anything else constructs a name type from unchecked data")
    table = {}
    for kind, label, owner, inputs, output, target, n, why in REVIEWED_SITES:
        table[_canon_role(owner, inputs, output, target)] = {"kind": kind, "label": label, "n": n, "why": why, "found": 0}
    n_sites = 0
    for cr, test in F.available():
        if cr == "fbr_entries" or test:
            continue
        c = F.crate(cr)
        uidx = []

        def users(c=c, uidx=uidx):
            if not uidx:
                uidx.append(_users_index(c))
            return uidx[0]
        for b in c.bodies:
            for n in H.walk(b["body"]):
                if n.get("k") not in ("call", "mcall") or H.callee_name(n) != "from_inner_unchecked":
                    continue
                n_sites += 1
                target = ((n.get("callee") or {}).get("impl_ty") or "?")
                tshort = target.rsplit("::", 1)[-1]
                key = "%s->%s" % (b["path"], tshort)
                mac = n.get("mac") or []
                arg = H.peel(n["args"][0]) if n.get("args") else {}
                if "make_string_str_like" in mac:
                    # identity view or TryFrom (R18.4)
                    ok = b["name"] in ("borrow", "deref", "try_from") if b.get("name") else False
                    R.inst("R18.2", "macro:" + key, ok, sp=n["sp"], nontrivial=False,
                           detail="inside make_string_str_like!: only Borrow/Deref (self.0) and TryFrom may construct")
                    continue
                lit = None
                if arg.get("k") == "call" and H.callee_name(arg) == "from_str" and arg["args"]:
                    lit = H.const_value(arg["args"][0])
                if b["dk"].startswith(("Const", "AssocConst")) and isinstance(lit, str):
                    v = _valid_for_type(target, lit, spec)
                    R.inst("R18.2", "literal:%s=%r" % (key, lit), v is True, sp=n["sp"], got=lit,
                           detail="literal must satisfy the JVMS predicate of %s" % tshort)
                    continue
                e = _entry_for(c, users, table, b, tshort)
                if e is not None:
                    e["found"] += 1
                    extra = e["found"] > e["n"]
                    R.inst("R18.2", "%s:%s->%s" % (e["kind"], e["label"], tshort), not extra, sp=n["sp"], nontrivial=e["kind"] == "closed",
                           detail=("more unchecked constructions with this role than were reviewed (%d)" % e["n"]) if extra else
                           (e["why"] if e["kind"] == "closed" else "decided under " + e["why"]), got=b["path"])
                    continue
                R.inst("R18.2", "unchecked:" + key, False, sp=n["sp"], got=H.render(n),
                       detail="%s is constructed from data that no rule shows to satisfy its validity predicate" % tshort)
    R.extra["from_inner_unchecked_sites"] = n_sites
    R.floor("R18.2", 100)


# ------------------------------------------------------------------------------------ reference formulae (JVMS 4.2, doc comments)
def _uq(Sb, forbidden):
    return S.f_and(S.f_not(S.atom("empty", Sb)), S.f_all([S.f_not(S.atom("has", Sb, c)) for c in sorted(forbidden)]))


def _spec_formulae(spec, Sb="p0"):
    sep = spec["segment_separator"]
    unq = _uq(Sb, spec["unqualified_forbidden"])
    me = S.f_or(S.f_any([S.atom("eq", Sb, s) for s in spec["method_special"]]), _uq(Sb, spec["method_forbidden"]))
    allseg = S.f_not(S.atom("any", "split:" + sep, Sb, S.f_not(_uq("$e1", spec["unqualified_forbidden"])), "$e1"))
    arr = S.atom("starts", Sb, spec["array_prefix"])
    return {
        "is_valid_unqualified_name": unq,
        "is_valid_method_name": me,
        "is_valid_class_name": S.f_or(arr, allseg),
        "is_valid_arr_class_name": arr,
        "is_valid_obj_class_name": S.f_and(S.f_not(arr), allseg),
    }


TYPE_PREDICATE = {"ClassName": "is_valid_class_name", "ArrClassName": "is_valid_arr_class_name", "ObjClassName": "is_valid_obj_class_name",
                  "FieldName": "is_valid_unqualified_name", "MethodName": "is_valid_method_name", "ParameterName": "is_valid_unqualified_name",
                  "LocalVariableName": "is_valid_unqualified_name"}
MACRO_ENTRY_TYPE = {"class_name": "ClassName", "arr_class_name": "ArrClassName", "obj_class_name": "ObjClassName", "field": "FieldName",
                    "method": "MethodName", "parameter": "ParameterName", "local_variable": "LocalVariableName"}


def _compare(f, want):
    cn = S.Canon()
    nf, nw = cn.norm(f), cn.norm(want)
    eq, cex = S.equivalent(nf, nw)
    return eq, cex, S.show(nf), S.show(nw)


def _report_unrec(R, rid, where, sym):
    for text, sp in sym.unrec:
        R.unrecognised(rid, where, text, sp=sp)


# ------------------------------------------------------------------------------------ R18.3
def r18_3(F, R, spec, validators):
    R.rule("R18.3", "each name predicate is truth-table equivalent (over the atoms emptiness, occurrence of each forbidden character, special "
                    "names, leading '[', all '/'-segments unqualified) to the documented JVMS 4.2 formula, and so is the compile-time checker "
                    "that each duke-macros proc-macro applies to its literal ('always keep in sync')")
    duke = F.crate("duke")
    mac = F.crate("duke_macros")
    want = _spec_formulae(spec)
    for name, wf in want.items():
        b = duke.fn(name, within="tree::names") or _predicate_by_role(duke, validators, name)
        if not R.anchor("R18.3", "fn duke::tree::names::" + name, b):
            continue
        sym = S.Sym([duke])
        f = sym.fn_formula(b)
        _report_unrec(R, "R18.3", "duke::tree::names::" + name, sym)
        eq, cex, got, exp = _compare(f, wf)
        R.inst("R18.3", "duke:" + name, eq, sp=b["sp"], expect=exp, got=got, detail=None if eq else "differs under %s" % cex)
    # siblings: by role — the checker each proc-macro entry point hands to the shared expansion helper
    n_entries = 0
    for entry, tname in MACRO_ENTRY_TYPE.items():
        eb = mac.body("duke_macros::" + entry)
        if not R.anchor("R18.3", "proc-macro duke_macros::" + entry, eb):
            continue
        sym = S.Sym([mac])
        checkers = []
        for n in H.walk(eb["body"], into_closures=False):
            if n.get("k") != "call":
                continue
            for a in n["args"]:
                a0 = H.peel(a)
                if a0.get("k") == "closure" or (a0.get("k") == "path" and (a0["res"].get("key") in mac.by_key)):
                    checkers.append(a0)
        if not R.anchor("R18.3", "checker argument in duke_macros::" + entry, len(checkers) == 1, sp=eb["sp"]):
            continue
        n_entries += 1
        fv, _ = sym.ev(checkers[0], {}, S.TRUE)
        f = sym.positive(sym.apply(fv, [("s", "p0")], S.TRUE))
        _report_unrec(R, "R18.3", "duke_macros::" + entry, sym)
        eq, cex, got, exp = _compare(f, want[TYPE_PREDICATE[tname]])
        idents = [H.const_value(x["args"][-1]) for x in H.walk(eb["body"]) if H.is_call(x, "push_ident") and x.get("args")]
        ty_ok = bool(idents) and idents[-1] == tname + "Slice"
        R.inst("R18.3", "duke-macros:%s!" % entry, eq and ty_ok, sp=eb["sp"], expect="%s for %sSlice" % (exp, tname), got="%s for %s" % (got, idents[-1] if idents else "?"),
               detail=None if eq else "differs under %s" % cex)
    # the named siblings (tie-breaker view; absent after a rename, then the entry-point instances above carry the rule)
    for name, wf in want.items():
        mb = mac.fn(name, within="names")
        if mb is None:
            continue
        sym = S.Sym([mac])
        f = sym.fn_formula(mb)
        _report_unrec(R, "R18.3", "duke_macros::names::" + name, sym)
        eq, cex, got, exp = _compare(f, wf)
        R.inst("R18.3", "duke-macros:" + name, eq, sp=mb["sp"], expect=exp, got=got, detail=None if eq else "differs under %s" % cex)
    R.floor("R18.3", 12)


def _predicate_by_role(duke, validators, name):
    """The bool-valued helper of the crate that the validator of a type with this predicate calls (used when the name is gone)."""
    cands = set()
    for t, pn in TYPE_PREDICATE.items():
        if pn != name or t not in validators:
            continue
        vb = validators[t]
        for n in H.walk(vb["body"]):
            if n.get("k") in ("call", "mcall"):
                k = (n.get("callee") or {}).get("key")
                hb = duke.by_key.get(k)
                if hb is not None and hb.get("output") == "bool" and len(hb.get("inputs") or ()) == 1:
                    cands.add(k)
    return duke.by_key[next(iter(cands))] if len(cands) == 1 else None


# ------------------------------------------------------------------------------------ R18.4
def r18_4(F, R, spec):
    R.rule("R18.4", "in every TryFrom generated by make_string_str_like! the unchecked constructor is reached only on paths where the "
                    "validator of the constructed type (an associated fn of the owned type returning Result<()>) returned Ok for the same "
                    "value; the validator of each name type is truth-table equivalent to the documented predicate of that type")
    duke = F.crate("duke")
    want = _spec_formulae(spec)
    validators = {}
    n = 0
    for b in duke.fns("try_from"):
        calls = [x for x in H.walk(b["body"]) if H.is_call(x, "from_inner_unchecked")]
        if not calls:
            continue
        n += 1
        tgt = ((calls[0].get("callee") or {}).get("impl_ty") or "")
        owner = tgt[:-5] if tgt.endswith("Slice") else tgt
        tshort = owner.rsplit("::", 1)[-1]

        def is_validator(c, body, owner=owner, me=b):
            return (body.get("impl_ty") == owner and (body.get("output") or "").startswith("core::result::Result<()")
                    and len(body.get("inputs") or ()) == 1 and body.get("name") != "try_from")
        sym = S.Sym([duke], opaque_call=is_validator)
        for c in calls:
            sym.watch_ids.add(id(c))
        sym.fn_value(b)
        ok = True
        got = []
        for c in calls:
            hits = sym.watch.get(id(c), [])
            if not hits:
                ok = False
                got.append("constructor not reached by the evaluator")
            for pc, args in hits:
                subj = args[0][1] if args and args[0][0] == "s" else None
                good = False
                for a in S.atoms_of(pc):
                    if a[0] == "call" and a[2] == (subj,) and subj is not None and S.implies(pc, ("atom", a))[0]:
                        good = True
                        validators.setdefault(tshort, duke.by_key[a[1]])
                if not good and tshort in TYPE_PREDICATE and subj is not None:
                    # validator inlined into the conversion: decide on the predicate itself
                    sym2 = S.Sym([duke])
                    sym2.watch_ids.add(id(c))
                    sym2.fn_value(b)
                    wf = S.rename_subject(want[TYPE_PREDICATE[tshort]], "p0", subj)
                    cn = S.Canon()
                    good = bool(sym2.watch.get(id(c))) and all(S.implies(cn.norm(pc2), cn.norm(wf))[0] for pc2, _ in sym2.watch[id(c)])
                got.append("reached when " + S.show(pc))
                ok = ok and good
        R.inst("R18.4", "tryfrom:%s" % b.get("impl_ty"), ok, sp=calls[0]["sp"], got=got,
               detail="from_inner_unchecked(value) only where Owned::check_valid(value) is Ok (match / if let Err / let-else / `?` alike)")
    R.floor("R18.4", 32)
    for t, pn in TYPE_PREDICATE.items():
        vb = validators.get(t)
        if vb is None:
            vb = next((b for b in duke.fns("check_valid") if (b.get("impl_ty") or "").rsplit("::", 1)[-1] == t), None)
        if not R.anchor("R18.4", "validator of %s" % t, vb):
            continue
        sym = S.Sym([duke])
        f = sym.fn_formula(vb)
        _report_unrec(R, "R18.4", "validator of " + t, sym)
        eq, cex, got, exp = _compare(f, want[pn])
        R.inst("R18.4", "check_valid:%s" % t, eq, sp=vb["sp"], expect="Ok iff " + exp, got="Ok iff " + got, detail=None if eq else "differs under %s" % cex)
    return validators


# ------------------------------------------------------------------------------------ R18.5
def r18_5(F, R, spec):
    R.rule("R18.5", "inner-class split/join helpers: split at the LAST '$' only when both sides are non-empty, the parent does not end in '/' "
                    "and the inner part has no '/'; join = parent + '$' + inner (so split∘join is the identity on simple inner names)")
    duke = F.crate("duke")
    sep = spec["inner_class_separator"]
    sp_fn = duke.fn("split_inner_class_parent_and_name")
    if R.anchor("R18.5", "fn split_inner_class_parent_and_name", sp_fn):
        rs = [n for n in H.walk(sp_fn["body"]) if n.get("k") == "mcall" and n["name"] in ("rsplit_once", "split_once")]
        R.inst("R18.5", "split-at-last-dollar", len(rs) == 1 and rs[0]["name"] == "rsplit_once" and H.const_value(rs[0]["args"][0]) == sep,
               sp=sp_fn["sp"], got=[H.render(x) for x in rs])
        sym = S.Sym([duke])
        val = sym.fn_value(sp_fn)
        _report_unrec(R, "R18.5", "split_inner_class_parent_and_name", sym)
        base = "p0.rsplit_once(%r)" % sep
        P, I = base + "#0", base + "#1"
        wf = S.f_all([S.atom("has", "p0", sep), S.f_not(S.atom("empty", P)), S.f_not(S.atom("empty", I)),
                      S.f_not(S.atom("ends", P, "/")), S.f_not(S.atom("has", I, "/"))])
        eq, cex, got, exp = _compare(sym.positive(val), wf)
        R.inst("R18.5", "split-guards", eq, sp=sp_fn["sp"], expect="Some iff " + exp, got="Some iff " + got, detail=None if eq else "differs under %s" % cex)
        payload = val[2] if val[0] == "b" else None
        R.inst("R18.5", "split-result-order", payload == ("t", [("s", P), ("s", I)]), sp=sp_fn["sp"], expect="(parent, inner)",
               got=sym.show_val(payload) if payload else None, nontrivial=False)
    j = duke.fn("from_inner_class")
    if R.anchor("R18.5", "fn from_inner_class", j):
        # evaluated, not pattern-matched: what is appended to which string on the path taken, with helpers of the function inlined
        # (nested fns, free fns of its module, other methods of the type) - the pushes may live in a helper
        mod = j["path"].rsplit("::", 2)[0] if j.get("impl_ty") else j["path"].rsplit("::", 1)[0]
        helpers = {b["key"]: b for b in duke.bodies if b["key"] != j["key"] and b.get("dk") in ("Fn", "AssocFn") and isinstance(b.get("body"), dict)
                   and b.get("name") not in _JoinEval.VIEWS
                   and (b["key"].startswith(j["key"] + "::") or (b.get("impl_ty") and b.get("impl_ty") == j.get("impl_ty") and not b.get("impl_trait"))
                        or (b.get("dk") == "Fn" and b["path"].rsplit("::", 1)[0] == mod))}
        ev = _JoinEval(inline=helpers)
        ret = ev.run_fn(j, [T.sym("parent"), T.sym("inner_name")])
        apps = [e for e in ev.effects if e[0] in ("push", "str", "loop")]
        bad = sorted(set(H.callee_name(e[1]) for e in ev.effects if e[0] == "callnode" and H.callee_name(e[1]) in _JoinEval.MUTATORS))
        recvs = []
        for e in apps:
            if e[0] != "loop" and e[2] not in recvs:
                recvs.append(e[2])
        pieces = None
        if len(recvs) == 1 and not any(e[0] == "loop" or e[3] for e in apps) and not bad:
            base = recvs[0]
            own = [e[1] for e in apps]
            if base == T.sym("parent"):
                pieces = [base] + own
            elif T.is_sym(base) and base[1].startswith(("new(", "with_capacity(", "default(")):
                pieces = own
        ok = pieces == [T.sym("parent"), ("s", sep), T.sym("inner_name")] and ret == T.V("unchecked", recvs[0])
        got = [T.show(x) for x in pieces] if pieces is not None else (
            ["%s%s %s onto %s" % ("if … " if len(e) > 3 and e[3] else "", e[0], T.show(e[1]) if e[0] != "loop" else "…", T.show(e[2]) if e[0] != "loop" and e[2] else "?")
             for e in apps] + ["also: " + x for x in bad])
        R.inst("R18.5", "join-shape", ok, sp=j["sp"], got=got, expect="parent ++ '$' ++ inner_name",
               detail=None if ok else "the returned name must be exactly parent, one `$`, inner_name appended unconditionally to one string; returned: " + T.show(ret))
    R.floor("R18.5", 3)


# ------------------------------------------------------------------------------------ R18.7 (the grammar, by evaluation)
def _ref_field_type(s, i, spec):
    """JVMS 4.3.2 FieldType at s[i:] -> (tree, next index) | None.  tree: 'I' | ('L', name) | ('[', dim, element)"""
    dim = 0
    while i < len(s) and s[i] == "[":
        dim += 1
        i += 1
    if dim > spec["max_array_dimension"] or i >= len(s):
        return None
    c = s[i]
    if c == "L":
        j = s.find(";", i + 1)
        if j < 0:
            return None
        name = s[i + 1:j]
        if not _valid_for_type("ObjClassName", name, spec):
            return None
        el, i = ("L", name), j + 1
    elif c in spec["field_type_terminals"]:
        el, i = c, i + 1
    else:
        return None
    return (("[", dim, el) if dim else el), i


def _ref_parse(kind, s, spec):
    """reference parse of a whole descriptor -> ("ok", tree) | ("err",).  field: tree; return: tree | None; method: ([trees], tree | None)"""
    if kind == "field":
        r = _ref_field_type(s, 0, spec)
        return ("ok", r[0]) if r and r[1] == len(s) else ("err",)
    if kind == "return":
        if s == spec["void_terminal"]:
            return ("ok", None)
        r = _ref_field_type(s, 0, spec)
        return ("ok", r[0]) if r and r[1] == len(s) else ("err",)
    if not s.startswith("("):
        return ("err",)
    i, params = 1, []
    while True:
        if i < len(s) and s[i] == ")":
            i += 1
            break
        r = _ref_field_type(s, i, spec)
        if not r:
            return ("err",)
        params.append(r[0])
        i = r[1]
    rest = _ref_parse("return", s[i:], spec)
    return ("ok", (params, rest[1])) if rest[0] == "ok" else ("err",)


def _tree_of(v):
    """abstract value of a parsed Type -> the reference's tree notation (None if it is not one)"""
    if IU.is_v(v) and not v[2]:
        return v[1]
    if IU.is_v(v, "Object") and len(v[2]) == 1:
        x = v[2][0]
        while isinstance(x, IU.St) and len(x.f) == 1:
            x = list(x.f.values())[0]
        return ("L", x[1]) if isinstance(x, tuple) and x[0] == "s" else None
    if IU.is_v(v, "Array") and len(v[2]) == 2 and isinstance(v[2][0], tuple) and v[2][0][0] == "i":
        el = _tree_of(v[2][1])
        return ("[", v[2][0][1], el) if el is not None and not (isinstance(el, tuple) and el[0] == "[") else None
    return None


def _parsed_of(kind, r):
    """abstract result of parse() -> ("ok", tree) | ("err",) | ("?", text)"""
    if IU.is_v(r, "Err"):
        return ("err",)
    if not (IU.is_v(r, "Ok") and len(r[2]) == 1 and isinstance(r[2][0], IU.St)):
        return ("?", IU.show(r)[:120])
    st = r[2][0]
    vals = list(st.f.values())
    if kind == "field" and len(vals) == 1:
        t = _tree_of(vals[0])
        return ("ok", t) if t is not None else ("?", IU.show(r)[:120])
    if kind == "return" and len(vals) == 1 and IU.is_v(vals[0], "Some", "None"):
        t = _tree_of(vals[0][2][0]) if vals[0][2] else None
        return ("ok", t) if (t is not None or not vals[0][2]) else ("?", IU.show(r)[:120])
    if kind == "method" and len(vals) == 2:
        ps = [x for x in vals if isinstance(x, IU.Lst)]
        rt = [x for x in vals if IU.is_v(x, "Some", "None")]
        if len(ps) == 1 and len(rt) == 1:
            pt = [_tree_of(x) for x in ps[0].items]
            t = _tree_of(rt[0][2][0]) if rt[0][2] else None
            if all(x is not None for x in pt) and (t is not None or not rt[0][2]):
                return ("ok", (pt, t))
    return ("?", IU.show(r)[:120])


def r18_7(duke, R, spec):
    R.rule("R18.7", "FieldDescriptorSlice::parse, ReturnDescriptorSlice::parse and MethodDescriptorSlice::parse, evaluated on the program text "
                    "(bounded abstract interpretation, helpers of the crate followed) for every string over { I L a / ; [ ( ) V } up to "
                    "length 4 and for grammar samples with every single-character deletion, insertion and substitution, accept exactly "
                    "the strings of the JVMS 4.3 grammar (object names by the documented ObjClassName predicate, at most 255 dimensions) "
                    "and yield the type structure the grammar assigns")
    import itertools
    parses = {}
    for b in duke.fns("parse"):
        it = b.get("impl_ty") or ""
        for kind, nm in (("field", "FieldDescriptorSlice"), ("method", "MethodDescriptorSlice"), ("return", "ReturnDescriptorSlice")):
            if it.endswith(nm) and not b.get("impl_trait"):
                parses[kind] = b
    sigma = "ILa/;[()V"
    probes = []
    for n in range(0, 5):
        probes.extend("".join(t) for t in itertools.product(sigma, repeat=n))
    samples = ["Ljava/lang/Object;", "[[La/b;", "[Z", "(ILa/b;[J)V", "(La;La;)La;", "()[[La/b/c;", "([La;[[I)La$b;", "(J)I", "D",
               "[" * spec["max_array_dimension"] + "I", "[" * (spec["max_array_dimension"] + 1) + "I", "([" * 1 + "[" * spec["max_array_dimension"] + "La;)V"]
    near = set(samples)
    for smp in samples[:9]:
        for i in range(len(smp) + 1):
            for ch in ";L[/(V)a":
                near.add(smp[:i] + ch + smp[i:])
                if i < len(smp):
                    near.add(smp[:i] + ch + smp[i + 1:])
            if i < len(smp):
                near.add(smp[:i] + smp[i + 1:])
    probes.extend(sorted(near - set(probes)))
    for kind in ("field", "return", "method"):
        b = parses.get(kind)
        if not R.anchor("R18.7", "fn %s::parse" % {"field": "FieldDescriptorSlice", "return": "ReturnDescriptorSlice", "method": "MethodDescriptorSlice"}[kind], b):
            continue
        bad, n_ok, unknown = [], 0, None
        for text in probes:
            want = _ref_parse(kind, text, spec)
            try:
                r = IU.Interp(duke, budget=200000).run(b, [IU.St(b["impl_ty"], {"0": IU.S(text)})])
            except IU.Unknown as e:
                unknown = (text, str(e)[:300])
                break
            except RecursionError:
                unknown = (text, "evaluation recursion too deep")
                break
            got = _parsed_of(kind, r)
            if got[0] == "ok":
                n_ok += 1
            if got != want:
                bad.append({"input": text if len(text) <= 40 else text[:12] + "…(%d chars)" % len(text),
                            "grammar": "rejects" if want[0] == "err" else want[1], "parse()": "Err" if got[0] == "err" else got[1]})
                if len(bad) >= 6:
                    break
        if unknown is not None:
            R.unrecognised("R18.7", "%s descriptor parse on %r" % (kind, unknown[0][:30]), unknown[1], sp=b["sp"])
            continue
        R.inst("R18.7", "grammar:%s-descriptor" % kind, not bad and n_ok > 0, sp=b["sp"], got=bad or None,
               expect="accepts exactly the JVMS %s descriptors among %d probe strings (%d of them) with the grammar's type structure" % (kind, len(probes), sum(1 for t in probes if _ref_parse(kind, t, spec)[0] == "ok")),
               detail="a string outside the grammar that parses (e.g. an object type whose `;` is missing at the end of the input), a string of the "
                      "grammar that is refused, or a different structure")
    R.floor("R18.7", 3)


def thorough(F, R, repo):
    """thorough tier only: rustc's own verdict from an external crate on the type-level half of R18.2 (compile-fail witnesses with twins)."""
    from lib import witness as W
    R.rule("R18.6", "witnesses compiled by rustc from an external crate: for every checked newtype the tuple constructor is private (E0603) and "
                    "from_inner_unchecked needs an unsafe block (E0133); each compile_fail block has a compiling twin")
    s = W.run(F, R, "R18.6", want_prefix=["duke::"])
    R.floor("R18.6", 30)
    return s
