"""C18 — descriptor grammar tables, name predicates, checked-newtype discipline."""
import json
import os

from lib import boolform as B
from lib import hir as H
from lib import tables as T

SPEC = os.path.join(os.path.dirname(os.path.dirname(os.path.abspath(__file__))), "spec", "jvms_names.json")


def run(F, R, tier):
    spec = json.load(open(SPEC))
    duke = F.crate("duke")
    r18_1(duke, R, spec)
    r18_2(F, R, spec)
    r18_3(F, R, spec)
    r18_4(duke, R, spec)
    r18_5(duke, R, spec)
    return ("A5 terminal tables of read_field_type/write_field_type against the JVMS grammar (all ASCII code points), position of V, "
            "255-dimension guard dominance, trailing-input rejection in the three parse(); A8 discipline for every from_inner_unchecked "
            "call site (106) incl. literal validation against an independent JVMS 4.2 predicate; truth-table equivalence of the five name "
            "predicates with the documented formulae and with their duke-macros siblings; TryFrom dominated by check_valid; split/join helper guards")


# ------------------------------------------------------------------------------------ R18.1
def _char_matches(fn_body):
    """match nodes whose arm patterns are JavaCodePoint consts (terminal dispatch)."""
    out = []
    for n in H.walk(fn_body):
        if n.get("k") == "match" and n.get("src") == "Normal":
            try:
                if any(H.pat_int_values(a["pat"]) for a in n["arms"]):
                    out.append(n)
            except ValueError:
                pass
    return out


def r18_1(duke, R, spec):
    R.rule("R18.1", "read_field_type maps exactly the terminals B C D F I J S Z L to the JVMS types (plain and array position) and rejects every "
                    "other code point; write_field_type is the inverse table; V is accepted only in return position; the dimension counter is "
                    "incremented only below 255; the three parse() reject trailing input; method descriptors require '(' … ')'")
    rft = duke.fn("read_field_type")
    if R.anchor("R18.1", "fn read_field_type", rft):
        ms = _char_matches(rft["body"])
        if R.anchor("R18.1", "two terminal-dispatch matches in read_field_type", len(ms) == 2, sp=rft["sp"]):
            for m in ms:
                # which position? the arm bodies construct Type::X (plain) or Type::Array(_, ArrayType::X)
                for cp in range(0x20, 0x7f):
                    ch = chr(cp)
                    loc = H.local_of(m["scrut"])
                    ev = T.Evaluator()
                    try:
                        got = ev.match(m, {loc[0]: ("i", cp)} if loc else {})
                    except T.Return as r:
                        got = r.v
                    want = spec["field_type_terminals"].get(ch)
                    if got[0] == "v" and got[1] == "Array":
                        pos = "array"
                        inner = got[2][1] if len(got[2]) > 1 else ("sym", "?")
                        name = inner[1] if inner[0] == "v" else T.show(inner)
                    elif got[0] == "v":
                        pos = "plain"
                        name = got[1]
                    else:
                        pos = None
                        name = "Err" if got[0] == "err" else T.show(got)
                    if want is None:
                        R.inst("R18.1", "read-terminal:%s:%r" % (_pos_of(m), ch), got[0] == "err", sp=m["sp"], expect="error", got=name,
                               nontrivial=ch in "VAEGHKLMNOPQRTUWXY;()[/.")
                    else:
                        R.inst("R18.1", "read-terminal:%s:%r" % (_pos_of(m), ch), name == want, sp=m["sp"], expect=want, got=name)
            # the text between `L` and `;` must be validated as an *object* class name in both positions (JVMS 4.3.2: ClassName,
            # not an array descriptor); ArrayType::Object stores a ClassName, so a ClassName::try_from would type-check too
            for m in ms:
                arm = None
                for a in m["arms"]:
                    try:
                        vals = H.pat_int_values(a["pat"])
                    except ValueError:
                        vals = None
                    if vals and ord("L") in vals:
                        arm = a
                convs = []
                if arm is not None:
                    for n in H.walk(arm["body"]):
                        if n.get("k") in ("call", "mcall") and H.callee_name(n) in ("try_from", "try_into", "from_inner_unchecked", "from_inner", "new_unchecked"):
                            c = n.get("callee") or {}
                            target = c.get("self_ty") or c.get("impl_ty") or ""
                            if H.callee_name(n) == "try_into":
                                target = n.get("ty") or ""
                            convs.append(target)
                okc = bool(convs) and all("ObjClassName" in t for t in convs)
                R.inst("R18.1", "object-name-validated-as-ObjClassName:%s" % _pos_of(m), okc, sp=(arm or m)["sp"], got=convs,
                       expect="the name between `L` and `;` goes through ObjClassName::try_from (rejects empty names, '.', ';', '[' and array names)")
        # the 255 guard dominates the increment of the dimension counter
        incs = [n for n in H.walk(rft["body"]) if n.get("k") == "assignop" and n["op"] in ("+", "+=")]
        ok = False
        sp = rft["sp"]
        for inc in incs:
            tgt = H.local_of(inc["l"])
            if not tgt:
                continue
            sp = inc["sp"]
            for kind, cond, pol in H.path_conditions(rft["body"], inc):
                c0 = H.peel(cond, refs=False)
                if kind == "after-exit" and c0.get("k") == "bin" and c0["op"] in ("==", ">=") and H.local_of(c0["l"]) and H.local_of(c0["l"])[0] == tgt[0] \
                        and H.const_value(c0["r"]) == spec["max_array_dimension"] and inc["l"].get("ty") == "u8":
                    ok = True
        R.inst("R18.1", "dimension-guard", ok and len(incs) == 1, sp=sp,
               detail="`array_dimension += 1` (u8) must come after `if array_dimension == 255 { bail }` on every path")
    # V only in return position; trailing input; parentheses
    parses = {}
    for b in duke.fns("parse"):
        it = b.get("impl_ty") or ""
        for nm in ("FieldDescriptorSlice", "MethodDescriptorSlice", "ReturnDescriptorSlice"):
            if it.endswith(nm):
                parses[nm] = b
    for nm in ("FieldDescriptorSlice", "MethodDescriptorSlice", "ReturnDescriptorSlice"):
        b = parses.get(nm)
        if not R.anchor("R18.1", "fn %s::parse" % nm, b):
            continue
        v_tests = [n for n in H.walk(b["body"]) if n.get("k") == "mcall" and n["name"] == "next_if_eq" and H.const_value(n["args"][0]) == spec["void_terminal"]]
        if nm == "FieldDescriptorSlice":
            R.inst("R18.1", "void-position:%s" % nm, len(v_tests) == 0, sp=b["sp"], detail="V is not a field type")
        else:
            ok = False
            if len(v_tests) == 1:
                # if chars.next_if_eq(&'V').is_some() { None } else { Some(read_field_type(..)?) }
                for n in H.walk(b["body"]):
                    if n.get("k") == "if" and any(x is v_tests[0] for x in H.walk(n["cond"])) and "else" in n:
                        c0, neg = H.negate_peel(n["cond"])
                        is_some = c0.get("k") == "mcall" and c0["name"] in ("is_some", "is_none")
                        pos_then = is_some and ((c0["name"] == "is_some") != neg)
                        then_v = H.ctor_of(H.peel(_tail(n["then"])))
                        else_has_read = any(H.is_call(x, "read_field_type") for x in H.walk(n["else"]))
                        then_has_read = any(H.is_call(x, "read_field_type") for x in H.walk(n["then"]))
                        if pos_then:
                            ok = bool(then_v) and then_v[1] == "None" and else_has_read
                        else:
                            else_v = H.ctor_of(H.peel(_tail(n["else"])))
                            ok = bool(else_v) and else_v[1] == "None" and then_has_read
            R.inst("R18.1", "void-position:%s" % nm, ok, sp=b["sp"], detail="`V` => no return type, anything else => a field type")
        # trailing input: the final Ok(..) is reached only after `if chars.peek().is_some() { bail }`
        tail = _tail(b["body"])
        ok = False
        for kind, cond, pol in H.path_conditions(b["body"], tail):
            if kind == "after-exit":
                c0, neg = H.negate_peel(cond)
                if c0.get("k") == "mcall" and c0["name"] == "is_some" and not neg and H.is_call(H.peel(c0["recv"]), "peek"):
                    ok = True
        R.inst("R18.1", "trailing-input-rejected:%s" % nm, ok, sp=tail.get("sp"),
               detail="`if chars.peek().is_some() { bail }` must precede the successful return")
        if nm == "MethodDescriptorSlice":
            opens = [n for n in H.walk(b["body"]) if n.get("k") == "mcall" and n["name"] == "next_if_eq" and H.const_value(n["args"][0]) == "("]
            closes = [n for n in H.walk(b["body"]) if n.get("k") == "mcall" and n["name"] == "next_if_eq" and H.const_value(n["args"][0]) == ")"]
            ok_open = False
            for n in H.walk(b["body"]):
                if n.get("k") == "if" and opens and any(x is opens[0] for x in H.walk(n["cond"])) and H.diverges(n["then"]):
                    c0, neg = H.negate_peel(n["cond"])
                    ok_open = c0.get("k") == "mcall" and ((c0["name"] == "is_none") != neg)
            R.inst("R18.1", "method-open-paren", ok_open and len(opens) == 1, sp=b["sp"])
            ok_close = False
            for n in H.walk(b["body"]):
                if n.get("k") == "loop" and closes and any(x is closes[0] for x in H.walk(n)):
                    brk = [x for x in H.walk(n) if x.get("k") == "break"]
                    reads = [x for x in H.walk(n) if H.is_call(x, "read_field_type")]
                    ok_close = len(brk) == 1 and len(reads) == 1
            R.inst("R18.1", "method-parameter-loop", ok_close, sp=b["sp"], detail="parameters are read until `)`")
    # writer table
    wft = duke.fn("write_field_type")
    if R.anchor("R18.1", "fn write_field_type", wft):
        inv = {v: k for k, v in spec["field_type_terminals"].items()}
        ms = [n for n in H.walk(wft["body"]) if n.get("k") == "match"]
        seen = 0
        for m in ms:
            for a in m["arms"]:
                v = H.pat_variant(a["pat"])
                if not v or not (v[0] or "").endswith(("descriptor::Type", "descriptor::ArrayType")):
                    continue
                if v[1] == "Array":
                    pushes = [H.const_value(x["args"][0]) for x in H.walk(a["body"], ) if x.get("k") == "mcall" and x["name"] == "push" and not _inside_match(a["body"], x)]
                    R.inst("R18.1", "write-terminal:Type::Array", pushes == ["["], sp=a["sp"], expect=["["], got=pushes,
                           detail="one '[' per dimension, then the element type")
                    fors = [x for x in H.walk(a["body"]) if x.get("k") == "for"]
                    okf = len(fors) == 1 and H.render(fors[0]["iter"]).startswith("Range { start: 0")
                    R.inst("R18.1", "write-array-dimension-loop", okf, sp=a["sp"])
                    seen += 1
                    continue
                pushes = [H.const_value(x["args"][0]) for x in H.walk(a["body"]) if x.get("k") == "mcall" and x["name"] == "push"]
                strs = [x for x in H.walk(a["body"]) if x.get("k") == "mcall" and x["name"] == "push_java_str"]
                want = [inv.get(v[1])] if v[1] != "Object" else ["L", ";"]
                ok = pushes == want and (len(strs) == (1 if v[1] == "Object" else 0))
                kind = (v[0] or "").rsplit("::", 1)[-1]
                R.inst("R18.1", "write-terminal:%s::%s" % (kind, v[1]), ok, sp=a["sp"], expect=want, got=pushes)
                seen += 1
        R.inst("R18.1", "write-table-size", seen == 19, sp=wft["sp"], expect=19, got=seen, nontrivial=False)
    R.floor("R18.1", 2 * 95 + 19 + 8)


def _pos_of(m):
    for a in m["arms"]:
        for x in H.walk(a["body"]):
            c = H.ctor_of(x)
            if c and c[1] == "Array":
                return "array"
    return "plain"


def _inside_match(root, x):
    chain = H.parents_of(root, x) or []
    return any(p.get("k") == "match" for p in chain)


def _tail(n):
    n = H.peel(n, refs=False)
    while n.get("k") == "block" and "tail" in n:
        n = H.peel(n["tail"], refs=False)
    return n


# ------------------------------------------------------------------------------------ JVMS 4.2 reference predicates
def _valid_unqualified(s, spec):
    return len(s) > 0 and not any(c in s for c in spec["unqualified_forbidden"])


def _valid_for_type(tyname, s, spec):
    t = tyname.rsplit("::", 1)[-1].replace("Slice", "")
    if t == "ClassName":
        return s.startswith("[") or all(_valid_unqualified(p, spec) for p in s.split("/"))
    if t == "ObjClassName":
        return not s.startswith("[") and all(_valid_unqualified(p, spec) for p in s.split("/"))
    if t == "ArrClassName":
        return s.startswith("[")
    if t == "MethodName":
        return s in spec["method_special"] or (len(s) > 0 and not any(c in s for c in spec["method_forbidden"]))
    if t in ("FieldName", "ParameterName", "LocalVariableName"):
        return _valid_unqualified(s, spec)
    return None


# closed conversions between checked types (frozen table; one line of reason each)
CLOSED = {
    ("duke::tree::class::ClassName::into_arr_and_obj", "ArrClassName"): "guarded by is_array() (then-branch)",
    ("duke::tree::class::ClassName::into_arr_and_obj", "ObjClassName"): "a valid ClassName that is not an array is an object class name (else-branch)",
    ("duke::tree::class::ClassNameSlice::as_arr_and_obj", "ArrClassNameSlice"): "guarded by is_array()",
    ("duke::tree::class::ClassNameSlice::as_arr_and_obj", "ObjClassNameSlice"): "non-array ClassName is an ObjClassName",
    ("<duke::tree::class::ClassName as core::convert::From<duke::tree::class::ArrClassName>>::from", "ClassName"): "subset conversion",
    ("<duke::tree::class::ClassName as core::convert::From<duke::tree::class::ObjClassName>>::from", "ClassName"): "subset conversion",
    ("duke::tree::class::ObjClassNameSlice::as_class_name", "ClassNameSlice"): "subset conversion",
    ("duke::tree::class::ObjClassName::from_inner_class", "ObjClassName"): "valid name + '$' + valid name (no separator chars added)",
    ("duke::tree::class::ObjClassNameSlice::get_simple_name", "ObjClassNameSlice"): "a '/'-separated segment of a valid name",
    ("duke::tree::class::ObjClassNameSlice::split_inner_class_parent_and_name", "ObjClassNameSlice"): "both halves checked non-empty, parent not ending in '/', inner without '/' (R18.5)",
    ("duke::tree::descriptor::ParsedFieldDescriptor::write", "FieldDescriptor"): "printer output (FieldDescriptor::check_valid accepts everything today)",
    ("duke::tree::descriptor::ParsedMethodDescriptor::write", "MethodDescriptor"): "printer output",
    ("duke::tree::descriptor::ParsedReturnDescriptor::write", "ReturnDescriptor"): "printer output",
    ("<duke::tree::descriptor::ReturnDescriptor as core::convert::From<duke::tree::field::FieldDescriptor>>::from", "ReturnDescriptor"): "FieldType is a ReturnDescriptor",
    ("duke::tree::descriptor::<impl duke::tree::field::FieldDescriptor>::from_arr_class", "FieldDescriptor"): "an array class name is its own descriptor",
    ("duke::tree::descriptor::<impl duke::tree::field::FieldDescriptor>::from_obj_class", "FieldDescriptor"): "'L' name ';' wrapper",
    ("quill::remapper::ARemapper::map_class_any", "ArrClassName"): "result of map_desc on an array class name keeps the leading '['",
    ("quill::remapper::ARemapper::map_field_desc", "FieldDescriptor"): "map_desc preserves descriptor shape (descriptor types accept everything today)",
    ("quill::remapper::ARemapper::map_method_desc", "MethodDescriptor"): "map_desc preserves descriptor shape",
    ("quill::remapper::ARemapper::map_return_desc", "ReturnDescriptor"): "map_desc preserves descriptor shape",
}
# sites outside C18's anchors whose argument is built from already-checked names; listed so that a NEW site is noticed
OTHER_OWNERS = {
    "dukebox::remap::remap_jar_entry_name_java": "C07",
    "dukenest::nester_run::replace_double_underscore_with_dollar": "C14",
    "dukenest::nester_jar::nest_jar::remap": "C14",
    "dukenest::nests_mapper_run::NestTypeA::<'a>::new": "C14",
    "dukenest::nests_mapper_run::inner_name": "C14",
    "dukenest::nests_mapper_run::rsplit_underscore": "C14",
    "dukenest::nests_mapper_run::construct_inner_name_from_anonymous_number": "C14",
    "feather_build_rs::insert_mappings::insert_mappings": "outside the listed properties (binary-only helper)",
    "quill::action::insert_dummy::<impl quill::tree::mappings_diff::MappingsDiff>::insert_dummy_and_contract_inner_names": "C10 (p_<index> literal prefix + decimal digits)",
    "quill::remapper::map_desc": "C06 (R06.4)",
}


def r18_2(F, R, spec):
    R.rule("R18.2", "every call of a generated `from_inner_unchecked` is (a) inside the generating macro (identity view of self.0, or the "
                    "TryFrom impls of R18.4), (b) a string literal in a const that an independent JVMS 4.2 predicate accepts, (c) a documented "
                    "closed conversion between already-checked types (frozen table), or (d) owned by another property's rule; anything else "
                    "constructs a name type from unchecked data")
    n_sites = 0
    for cr, test in F.available():
        if cr == "fbr_entries" or test:
            continue
        c = F.crate(cr)
        for b in c.bodies:
            for n in H.walk(b["body"]):
                if n.get("k") not in ("call", "mcall") or H.callee_name(n) != "from_inner_unchecked":
                    continue
                n_sites += 1
                target = ((n.get("callee") or {}).get("impl_ty") or "?")
                tshort = target.rsplit("::", 1)[-1]
                key = "%s->%s" % (b["path"], tshort)
                mac = n.get("mac") or []
                arg = H.peel(n["args"][0]) if n.get("args") else {}
                if "make_string_str_like" in mac:
                    # identity view or TryFrom (R18.4)
                    ok = b["name"] in ("borrow", "deref", "try_from") if b.get("name") else False
                    R.inst("R18.2", "macro:" + key, ok, sp=n["sp"], nontrivial=False,
                           detail="inside make_string_str_like!: only Borrow/Deref (self.0) and TryFrom may construct")
                    continue
                lit = None
                if arg.get("k") == "call" and H.callee_name(arg) == "from_str" and arg["args"]:
                    lit = H.const_value(arg["args"][0])
                if b["dk"].startswith(("Const", "AssocConst")) and isinstance(lit, str):
                    v = _valid_for_type(target, lit, spec)
                    R.inst("R18.2", "literal:%s=%r" % (key, lit), v is True, sp=n["sp"], got=lit,
                           detail="literal must satisfy the JVMS predicate of %s" % tshort)
                    continue
                if (b["path"], tshort) in CLOSED:
                    R.inst("R18.2", "closed:" + key, True, sp=n["sp"], detail=CLOSED[(b["path"], tshort)])
                    continue
                if b["path"] in OTHER_OWNERS:
                    R.inst("R18.2", "other-owner:" + key, True, sp=n["sp"], nontrivial=False, detail="decided under " + OTHER_OWNERS[b["path"]])
                    continue
                R.inst("R18.2", "unchecked:" + key, False, sp=n["sp"], got=H.render(n),
                       detail="%s is constructed from data that no rule shows to satisfy its validity predicate" % tshort)
    R.extra["from_inner_unchecked_sites"] = n_sites
    R.floor("R18.2", 100)


# ------------------------------------------------------------------------------------ R18.3
def _names_atom(crate, spec):
    def atom(n):
        k = n.get("k")
        if k == "mcall":
            nm = n["name"]
            if nm == "is_empty":
                return "empty"
            if nm == "starts_with" and H.const_value(n["args"][0]) == spec["array_prefix"]:
                return "starts_with_["
            if nm == "all":
                recv = H.peel(n["recv"])
                f = H.peel(n["args"][0])
                if recv.get("k") == "mcall" and recv["name"] == "split" and H.const_value(recv["args"][0]) == spec["segment_separator"]:
                    if f.get("k") == "path" and f["res"].get("path", "").endswith("is_valid_unqualified_name"):
                        return "all_segments_unqualified"
                if recv.get("k") == "mcall" and recv["name"] == "chars" and f.get("k") == "closure":
                    # |c| !matches!(c, A | B | ..)
                    body, neg = H.negate_peel(f["body"])
                    if body.get("k") == "match" and len(body["arms"]) == 2:
                        try:
                            vals = H.pat_int_values(body["arms"][0]["pat"])
                        except ValueError:
                            vals = None
                        t = H.const_value(body["arms"][0]["body"])
                        e = H.const_value(body["arms"][1]["body"])
                        if vals is not None and t is True and e is False and neg:
                            return "none_of{%s}" % "".join(sorted(chr(v) for v in vals))
            if nm == "contains":
                a = H.peel(n["args"][0])
                if a.get("k") == "array":
                    chars = [H.const_value(x) for x in a["es"]]
                    if all(isinstance(ch, str) for ch in chars):
                        return ("not", ("atom", "none_of{%s}" % "".join(sorted(chars))))
        if k == "bin" and n["op"] == "==":
            for a, b in ((n["l"], n["r"]), (n["r"], n["l"])):
                v = H.const_value(b)
                if isinstance(v, str):
                    return "eq:%s" % v
        return None
    return atom


def _spec_formulae(spec):
    uq = ("and", ("not", ("atom", "empty")), ("atom", "none_of{%s}" % "".join(sorted(spec["unqualified_forbidden"]))))
    me = ("and", ("not", ("atom", "empty")), ("atom", "none_of{%s}" % "".join(sorted(spec["method_forbidden"]))))
    special = ("or", ("atom", "eq:<init>"), ("atom", "eq:<clinit>"))
    return {
        "is_valid_unqualified_name": uq,
        "is_valid_method_name": ("or", special, me),
        "is_valid_class_name": ("or", ("atom", "starts_with_["), ("atom", "all_segments_unqualified")),
        "is_valid_arr_class_name": ("atom", "starts_with_["),
        "is_valid_obj_class_name": ("and", ("not", ("atom", "starts_with_[")), ("atom", "all_segments_unqualified")),
    }


def _ok_formula(block, atom, R, where):
    """Formula under which a Result-returning validity function returns Ok (statement form used in duke-macros)."""
    n = H.peel(block, refs=False)
    if n.get("k") != "block":
        return _ok_value(n, atom, R, where)
    conj = ("const", True)
    for s in n["stmts"]:
        s0 = H.peel(s, refs=False)
        if s0.get("k") == "if" and "else" not in s0 and H.diverges(s0["then"]) and _returns_err(s0["then"]):
            conj = ("and", conj, ("not", B.formula(s0["cond"], atom)))
        elif s0.get("k") == "for":
            it = H.peel(s0["iter"])
            if it.get("k") == "mcall" and it["name"] == "split":
                inner = _ok_formula(s0["body"], atom, R, where)
                conj = ("and", conj, ("atom", "all_segments:" + B.show(inner)))
            else:
                R.unrecognised("R18.3", where, "loop " + H.render(it), sp=s0.get("sp"))
        else:
            R.unrecognised("R18.3", where, H.render(s0)[:80], sp=s0.get("sp"))
    if "tail" in n:
        t0 = H.peel(n["tail"], refs=False)
        if t0.get("k") == "if" and "else" not in t0 and H.diverges(t0["then"]) and _returns_err(t0["then"]):
            return ("and", conj, ("not", B.formula(t0["cond"], atom)))
        return ("and", conj, _ok_value(n["tail"], atom, R, where))
    return conj


def _returns_err(n):
    for x in H.walk(n):
        if x.get("k") == "ret" and "e" in x:
            c = H.ctor_of(H.peel(x["e"]))
            return bool(c) and c[1] == "Err"
    return False


def _ok_value(n, atom, R, where):
    n = H.peel(n, refs=False)
    c = H.ctor_of(n)
    if c and c[1] == "Ok":
        return ("const", True)
    if c and c[1] == "Err":
        return ("const", False)
    if n.get("k") == "if" and "else" in n:
        return ("ite", B.formula(n["cond"], atom), _ok_formula(n["then"], atom, R, where), _ok_formula(n["else"], atom, R, where))
    if n.get("k") == "block":
        return _ok_formula(n, atom, R, where)
    R.unrecognised("R18.3", where, H.render(n)[:80], sp=n.get("sp"))
    return ("atom", "?" + H.render(n)[:40])


def r18_3(F, R, spec):
    R.rule("R18.3", "each name predicate is truth-table equivalent (over its atoms: emptiness, forbidden-character set, special names, "
                    "leading '[', all '/'-segments unqualified) to the documented JVMS 4.2 formula, and the compile-time sibling in "
                    "duke-macros ('always keep in sync') is equivalent to it")
    duke = F.crate("duke")
    mac = F.crate("duke_macros")
    want = _spec_formulae(spec)
    atom = _names_atom(duke, spec)
    uq_text = None
    for name, wf in want.items():
        b = duke.fn(name, within="tree::names")
        if not R.anchor("R18.3", "fn duke::tree::names::" + name, b):
            continue
        f = B.formula(b["body"], atom)
        eq, cex = B.equivalent(f, wf)
        R.inst("R18.3", "duke:" + name, eq, sp=b["sp"], expect=B.show(wf), got=B.show(f),
               detail=None if eq else "differs under %s" % cex)
        # sibling
        mb = mac.fn(name, within="names")
        if not R.anchor("R18.3", "fn duke_macros::names::" + name, mb):
            continue
        mf = _ok_formula(mb["body"], atom, R, "duke_macros::names::" + name)
        # the macros spell `all segments unqualified` as a loop: normalise that atom
        uq = B.show(("and", ("and", ("const", True), ("not", ("atom", "empty"))), ("not", ("not", ("atom", "none_of{%s}" % "".join(sorted(spec["unqualified_forbidden"])))))))
        mf2 = _rename_atoms(mf, spec)
        eq2, cex2 = B.equivalent(mf2, wf)
        R.inst("R18.3", "duke-macros:" + name, eq2, sp=mb["sp"], expect=B.show(wf), got=B.show(mf2),
               detail=None if eq2 else "differs under %s" % cex2)
    R.floor("R18.3", 10)


def _rename_atoms(f, spec):
    """all_segments:<formula text> -> all_segments_unqualified when the embedded formula is the unqualified-name formula."""
    if f[0] == "atom":
        if isinstance(f[1], str) and f[1].startswith("all_segments:"):
            return ("atom", "all_segments_unqualified") if _is_unqualified_text(f[1][len("all_segments:"):], spec) else f
        return f
    if f[0] == "const":
        return f
    return (f[0],) + tuple(_rename_atoms(x, spec) for x in f[1:])


def _is_unqualified_text(text, spec):
    fs = "".join(sorted(spec["unqualified_forbidden"]))
    norm = text.replace("(true && ", "").replace(" ", "")
    return "!empty" in norm and ("!!none_of{%s}" % fs) in norm and norm.count("none_of") == 1 and norm.count("empty") == 1 and "||" not in norm


# ------------------------------------------------------------------------------------ R18.4
def r18_4(duke, R, spec):
    R.rule("R18.4", "in every TryFrom generated by make_string_str_like! the unchecked constructor is reached only in the `Ok(())` arm of "
                    "`check_valid` applied to the same value; each check_valid of a name type delegates to the matching predicate")
    n = 0
    for b in duke.fns("try_from"):
        calls = [x for x in H.walk(b["body"]) if H.is_call(x, "from_inner_unchecked")]
        if not calls:
            continue
        n += 1
        call = calls[0]
        ok = False
        for kind, m, ai in H.path_conditions(b["body"], call):
            if kind == "arm":
                sc = H.peel(m["scrut"])
                if H.is_call(sc, "check_valid"):
                    v = H.pat_variant(m["arms"][ai]["pat"])
                    same = H.recv_root(sc["args"][0]) == H.recv_root(call["args"][0]) and H.recv_root(call["args"][0]) is not None
                    # check_valid must be the one of the constructed type's owner
                    owner = ((sc.get("callee") or {}).get("impl_ty") or "")
                    tgt = ((call.get("callee") or {}).get("impl_ty") or "").replace("Slice", "")
                    ok = bool(v) and v[1] == "Ok" and same and owner == tgt
        R.inst("R18.4", "tryfrom:%s" % b.get("impl_ty"), ok, sp=call["sp"],
               detail="match Owned::check_valid(value) { Ok(()) => from_inner_unchecked(value), Err => Err }")
    R.floor("R18.4", 32)
    want = {"ClassName": "is_valid_class_name", "ArrClassName": "is_valid_arr_class_name", "ObjClassName": "is_valid_obj_class_name",
            "FieldName": "is_valid_unqualified_name", "MethodName": "is_valid_method_name", "ParameterName": "is_valid_unqualified_name",
            "LocalVariableName": "is_valid_unqualified_name"}
    for b in duke.fns("check_valid"):
        t = (b.get("impl_ty") or "").rsplit("::", 1)[-1]
        if t not in want:
            continue
        top = H.peel(_only(b["body"]))
        ok = False
        got = H.render(b["body"])[:100]
        if top.get("k") == "if" and "else" in top:
            c0, neg = H.negate_peel(top["cond"])
            thn = H.ctor_of(H.peel(_tail(top["then"])))
            if H.is_call(c0, want[t]) and not neg and thn and thn[1] == "Ok" and H.diverges(top["else"]):
                ok = True
            elif H.is_call(c0, want[t]) and neg and H.diverges(top["then"]):
                els = H.ctor_of(H.peel(_tail(top["else"])))
                ok = bool(els) and els[1] == "Ok"
        R.inst("R18.4", "check_valid:%s" % t, ok, sp=b["sp"], expect="if names::%s(inner) { Ok(()) } else { bail }" % want[t], got=got)


def _only(n):
    n = H.peel(n, refs=False)
    while n.get("k") == "block" and not n["stmts"] and "tail" in n:
        n = H.peel(n["tail"], refs=False)
    return n


# ------------------------------------------------------------------------------------ R18.5
def r18_5(duke, R, spec):
    R.rule("R18.5", "inner-class split/join helpers: split at the LAST '$' only when both sides are non-empty, the parent does not end in '/' "
                    "and the inner part has no '/'; join = parent + '$' + inner (so split∘join is the identity on simple inner names)")
    sp_fn = duke.fn("split_inner_class_parent_and_name")
    if R.anchor("R18.5", "fn split_inner_class_parent_and_name", sp_fn):
        rs = [n for n in H.walk(sp_fn["body"]) if n.get("k") == "mcall" and n["name"] in ("rsplit_once", "split_once")]
        R.inst("R18.5", "split-at-last-dollar", len(rs) == 1 and rs[0]["name"] == "rsplit_once" and H.const_value(rs[0]["args"][0]) == spec["inner_class_separator"],
               sp=sp_fn["sp"], got=[H.render(x) for x in rs])
        somes = [n for n in H.walk(sp_fn["body"]) if H.ctor_of(n) and H.ctor_of(n)[1] == "Some" and n.get("k") == "call"]
        guards = set()
        names = {}
        if rs:
            for x in H.walk(sp_fn["body"]):
                if x.get("k") == "letexpr" and any(y is rs[0] for y in H.walk(x["init"])):
                    bs = H.pat_bindings(x["pat"])
                    if len(bs) == 2:
                        names = {bs[0][0]: "parent", bs[1][0]: "inner"}
        for s in somes:
            for kind, cond, pol in H.path_conditions(sp_fn["body"], s):
                if kind == "if" and pol:
                    for conj in _conjuncts(cond):
                        c0, neg = H.negate_peel(conj)
                        if c0.get("k") == "mcall" and neg:
                            who = H.local_of(c0["recv"])
                            role = names.get(who[0]) if who else None
                            arg = H.const_value(c0["args"][0]) if c0["args"] else None
                            guards.add((role, c0["name"], arg))
        want = {("parent", "is_empty", None), ("inner", "is_empty", None), ("parent", "ends_with", "/"), ("inner", "contains", "/")}
        R.inst("R18.5", "split-guards", guards == want, sp=sp_fn["sp"], expect=sorted(map(str, want)), got=sorted(map(str, guards)))
    j = duke.fn("from_inner_class")
    if R.anchor("R18.5", "fn from_inner_class", j):
        pushes = [n for n in H.walk(j["body"]) if n.get("k") == "mcall" and n["name"] in ("push", "push_java_str", "push_str")]
        seq = [(p["name"], H.const_value(p["args"][0]) if p["name"] == "push" else (H.recv_root(p["args"][0]) or (None, None))[1]) for p in pushes]
        pids = H.param_ids(j)
        base = H.recv_root(pushes[0]["recv"]) if pushes else None
        ok = (len(seq) == 2 and seq[0] == ("push", spec["inner_class_separator"]) and seq[1][0] == "push_java_str"
              and base is not None and H.origin_local(j["body"], base[0]) == pids[0]
              and H.origin_local(j["body"], H.recv_root(pushes[1]["args"][0])[0]) == pids[1])
        R.inst("R18.5", "join-shape", ok, sp=j["sp"], got=seq, expect="parent ++ '$' ++ inner_name")
    R.floor("R18.5", 3)


def _conjuncts(n):
    n = H.peel(n, refs=False)
    if n.get("k") == "bin" and n["op"] == "&&":
        return _conjuncts(n["l"]) + _conjuncts(n["r"])
    return [n]
