"""C13 — client/server jar merge is a faithful, annotated union (dukebox/src/merge.rs).

R13.1  merge_preserve_order: step structure of the order-preserving list merge (A10 tautology, paired cursors).
R13.2  decision tables: merge_slice side table, jar-level combination table, skips, byte-equal pass-through,
       EnvType names and annotation constants (A5).
R13.3  class_merger_merge field conformance (A4): every ClassFile / Field / Method field comes from the same-named
       field of client / server (or both), member lists are unions, one-sided members are marked with their side.
"""
import json
import os

from lib import hir as H
from lib import tables as T
from lib import boolform as B

SPEC = os.path.join(os.path.dirname(os.path.dirname(os.path.abspath(__file__))), "spec", "c13_merge.json")
MOD = "dukebox::merge"
SIDE_ADT = MOD + "::Side"

# the merge decides "class or resource" by the entry kind the storage layer reports: for zip-backed jars that is ZipFile::to_jar_entry_enum
# (a class exactly when the name ends in `.class`), decided by C07 R07.2 - a class reported as a resource is copied through without its
# side mark and without member merging (seed C13-13)
PREMISES = [("C07", ["R07.2:zip-entry-kind", "R07.2:zip-entry"])]

CLAIM = {
 "text": "Necessary conditions of the client/server merge, decided on the typed HIR of dukebox/src/merge.rs (premise evaluated with it: C07 R07.2 zip-entry-kind - a zip entry is reported as a class exactly when its name ends in `.class`): "
         "(R13.1) in merge_preserve_order every membership predicate `!S.contains(x)` tests the list x was NOT drawn from, "
         "the common-element step advances both cursors, every step emits the element it took and records progress, "
         "exactly one of the two remainders is appended filtered against the other list; "
         "(R13.2) merge_slice's presence table ((Some,Some,eq)->clone, (Some,Some)->inner(client,server), (Some,None)->side(Client), "
         "(None,Some)->side(Server)) evaluated for all 4 cells with the maps traced to the client/server parameters; the jar-level table "
         "(Client-only -> annotated Side::Client, Server-only -> library filter then Side::Server, Both -> Dir/Class/Other table with "
         "byte-equal pass-through and class_merger_merge(client, server), mismatching kinds -> error); the set of skipped entries equals "
         "{META-INF/*.SF|*.RSA, server-only library classes} by truth-table equivalence; EnvType constant names and the three annotation "
         "shapes equal the Fabric API table; "
         "(R13.3) each of the 26 ClassFile fields (and the explicit Field/Method fields of the member merge) is built from the same-named "
         "field of client and/or server and nothing else, interfaces/fields/methods use both sides in (client, server) order, members are "
         "keyed by (name, descriptor), one-sided members and interfaces get the annotation of their own side. merge_slice has no shortcut exit and its per-key decision is reached unconditionally. "
         "The side mark of a one-sided class (visit_sided_annotation) and of a one-sided field / method (the side callbacks) is pushed on every path "
         "that returns the element: no condition other than an error exit guards the push (an element that already carries annotations is marked "
         "too). Callbacks are read as functions whether they are closures written in place, closures bound to a local or fn items passed by name; "
         "the role of a merge_slice callback parameter is taken from how it is called (with a Side / with two elements), not from the spelling of "
         "its type; a private annotation helper whose callers all pass the same constant for a parameter is evaluated with that constant.",
 "note": "Not decided: exactly-once union and order preservation as behaviour over all list pairs (only the step structure that the "
         "behaviour needs), termination of the merge loop, content of merged access flags, zip attributes. Known findings: the third "
         "loop of merge_preserve_order tests the wrong list and the first loop advances one cursor only (order not preserved: "
         "[1,3] x [1,2,3] -> [1,3,2]); permitted_subclasses and record_components are dropped. "
         "Trusted: rustc HIR/typeck/const-eval; spec/c13_merge.json.",
 "technique": "static analysis: provenance of iterator cursors and closure parameters (tautology / paired-cursor rule), pattern-matrix "
              "evaluation of the presence and entry-kind tables, guard extraction + truth-table equivalence for the skip conditions, "
              "structure-preserving-map conformance of the ClassFile/Field/Method literals",
}


def run(F, R, tier):
    with open(SPEC) as f:
        spec = json.load(f)
    c = F.crate("dukebox")
    duke = F.crate("duke")
    r13_1(c, R)
    r13_2(c, R, spec)
    r13_3(c, duke, R, spec)
    r13_4(c, R)
    return ("A10 cursor/element provenance in merge_preserve_order (membership tests the other list, paired cursors advance together, "
            "emit/progress/tail structure); A5 tables: merge_slice presence table (4 cells), jar combination table, entry-kind table "
            "(9 cells), skip conditions by truth table, EnvType names, annotation shapes vs spec/c13_merge.json; A4 field conformance of "
            "the ClassFile / Field / Method literals of class_merger_merge against duke's ADT field lists")


# ------------------------------------------------------------------------------------ helpers
def _in_mod(b):
    return b["key"].startswith(MOD + "::")


def _find_fn(c, name, pred):
    """Anchor by def path first, by signature second (a rename inside the module does not trip it)."""
    b = c.by_key.get(MOD + "::" + name)
    if b is not None:
        return b
    cands = [b for b in c.bodies if _in_mod(b) and b.get("inputs") is not None and pred(b)]
    return cands[0] if len(cands) == 1 else None


def _is_slice(t):
    return (t or "").startswith("&[") or (t or "").startswith("&'a [") or (t or "").startswith("&'_ [")


def _contains_node(root, target):
    return any(x is target for x in H.walk(root))


def _closure_params(cl):
    return [H.pat_bindings(p) for p in cl["params"]]


def _side_ctor(n):
    """'Client' / 'Server' when n is the path `Side::X`."""
    c = H.ctor_of(H.peel(n))
    if c and (c[0] or "") == SIDE_ADT:
        return c[1]
    return None


def _mentions(n, lid):
    return H.mentions_local(n, lid)


def _resolve_plain_local(e, scope, limit=4):
    """follow a plain local to its `let` initialiser (an introduced local is the same value)"""
    for _ in range(limit):
        loc = H.local_of(e) if isinstance(e, dict) and H.peel(e).get("k") == "path" else None
        if not loc:
            return e
        init = H.let_init_of(scope, loc[0])
        if init is None:
            return e
        e = init
    return e


def _callable(n, scope, crates):
    """The function an argument in callback position denotes: a closure written in place, a closure held in a local
    (`let key = |f| ..; merge_slice(.., key, ..)`), or a `fn` item passed by name (a nested `fn` declared in the caller or a private
    function of the workspace crate).  -> {"params": [patterns], "body": node, "sp": span} or None."""
    x = H.peel(_resolve_plain_local(H.peel(n), scope))
    if x.get("k") == "closure":
        return {"params": x["params"], "body": x["body"], "sp": x.get("sp")}
    if x.get("k") == "path" and (x.get("res") or {}).get("r") == "def" and x["res"].get("dk") in ("Fn", "AssocFn"):
        for cr in crates:
            b = cr.by_key.get(x["res"].get("key"))
            if b is not None and isinstance(b.get("body"), dict) and b.get("params") is not None:
                return {"params": b["params"], "body": b["body"], "sp": b.get("sp")}
    return None


def _value_of(n):
    """Value expression of a closure/fn body: tail of the block after its statements."""
    n = H.peel(n, refs=False)
    while n.get("k") == "block" and "tail" in n:
        n = H.peel(n["tail"], refs=False)
    return n


# ------------------------------------------------------------------------------------ R13.1
LIST = ["first-list", "second-list"]
ADVANCE = ("next", "next_if", "next_if_eq", "nth", "advance_by")


def _success_region(root, call):
    """Region executed when `call` (an Option-returning cursor step) yielded Some(x): (nodes, bound ids) or (None, [])."""
    for n in H.walk(root):
        k = n.get("k")
        if k == "if":
            cnd = H.peel(n["cond"], refs=False)
            if cnd.get("k") == "letexpr" and H.peel(cnd["init"], refs=False) is call:
                v = H.pat_variant(cnd["pat"])
                if v and v[1] == "Some":
                    return [n["then"]], [i for i, _ in H.pat_bindings(cnd["pat"])]
                return None, []
        elif k == "match" and H.peel(n["scrut"], refs=False) is call:
            for a in n["arms"]:
                v = H.pat_variant(a["pat"])
                if v and v[1] == "Some":
                    return [a["body"]], [i for i, _ in H.pat_bindings(a["pat"])]
            return None, []
        elif k == "block":
            for i, s in enumerate(n["stmts"]):
                if s.get("k") == "let" and "els" in s and "init" in s and H.peel(s["init"], refs=False) is call:
                    v = H.pat_variant(s["pat"])
                    if v and v[1] == "Some":
                        return n["stmts"][i + 1:] + ([n["tail"]] if "tail" in n else []), [i2 for i2, _ in H.pat_bindings(s["pat"])]
                    return None, []
    return None, []


def r13_1(c, R):
    rid = "R13.1"
    R.rule(rid, "merge_preserve_order(first, second): a membership predicate `!S.contains(x)` applied to an element x drawn from a cursor "
                "over list L must have S = the OTHER list (S = L is a tautology that never fires); the common-element step (head of one "
                "cursor equals the head of the other) advances BOTH cursors; all three steps (common, first-only, second-only) exist, each "
                "pushes the element it took to the one result accumulator and records progress; after the loop the first remainder and "
                "the second remainder are appended, exactly one of them filtered against the other list")
    fn = _find_fn(c, "merge_preserve_order", lambda b: len(b["inputs"]) == 2 and all(_is_slice(t) for t in b["inputs"]))
    if not R.anchor(rid, "fn dukebox::merge::merge_preserve_order", fn):
        return
    body = fn["body"]
    pids = H.param_ids(fn)
    if not R.anchor(rid, "two list parameters", len(pids) == 2, sp=fn["sp"]):
        return

    def list_side(local_id):
        o = H.origin_local(body, local_id)
        return pids.index(o) if o in pids else None

    def classify_membership(cl, what, sp):
        """closure `|x| !S.contains(x)` -> (tested side, negated) or None (unrecognised reported)."""
        ps = _closure_params(cl)
        if len(ps) != 1 or len(ps[0]) != 1:
            R.unrecognised(rid, what, "predicate closure with a destructuring parameter", sp)
            return None
        x = ps[0][0][0]
        inner, neg = H.negate_peel(_value_of(cl["body"]))
        inner = H.peel(inner)
        if inner.get("k") == "mcall" and inner["name"] == "contains" and len(inner["args"]) == 1:
            rr = H.recv_root(inner["recv"])
            arg = H.local_of(inner["args"][0])
            if rr is None or arg is None or arg[0] != x or list_side(rr[0]) is None:
                R.unrecognised(rid, what, "membership test that is not `<list>.contains(<closure parameter>)`: " + H.render(inner), sp)
                return None
            handled.add(id(inner))
            return list_side(rr[0]), neg
        if inner.get("k") == "mcall" and inner["name"] == "any" and len(inner["args"]) == 1 and H.peel(inner["args"][0]).get("k") == "closure":
            # `<list>.iter().any(|y| y == x)`  ==  `<list>.contains(x)`
            acl = H.peel(inner["args"][0])
            aps = _closure_params(acl)
            cmp_ = H.peel(_value_of(acl["body"]))
            rr = H.recv_root(inner["recv"])
            chain, plain = H.peel(inner["recv"]), True
            while chain.get("k") == "mcall":
                plain = plain and chain["name"] in ("iter", "into_iter", "copied", "cloned")
                chain = H.peel(chain["recv"])
            ok = len(aps) == 1 and len(aps[0]) == 1 and cmp_.get("k") == "bin" and cmp_["op"] == "==" and plain and rr is not None \
                and list_side(rr[0]) is not None
            if ok:
                sides = [H.local_of(H.peel(cmp_["l"])), H.local_of(H.peel(cmp_["r"]))]
                ok = all(sides) and sorted(i for i, _ in sides) == sorted([x, aps[0][0][0]])
            if not ok:
                R.unrecognised(rid, what, "membership test that is not `<list>.iter().any(|y| y == <closure parameter>)`: " + H.render(inner), sp)
                return None
            return list_side(rr[0]), neg
        return "other"

    handled = set()       # ids of `contains` calls that were classified
    steps = []            # dicts: name, call, side, kind
    # ---- cursor steps (Peekable::next_if)
    for n in H.walk(body):
        if not (n.get("k") == "mcall" and n["name"] == "next_if"):
            continue
        cur = H.local_of(n["recv"])
        s = list_side(cur[0]) if cur else None
        cl = H.peel(_resolve_plain_local(n["args"][0], body)) if n["args"] else {}      # the predicate may be a closure held in a local
        if s is None or cl.get("k") != "closure":
            R.unrecognised(rid, "next_if", "next_if on something that is not a cursor over one of the two lists, or without a closure: " + H.render(n), n["sp"])
            continue
        where = "%s-cursor.next_if" % LIST[s]
        m = classify_membership(cl, where, n["sp"])
        if m is None:
            continue
        if m != "other":
            steps.append({"kind": "only", "side": s, "tested": m[0], "neg": m[1], "call": n, "cursor": cur[0]})
            continue
        # common-element step: predicate peeks at a cursor and compares its head with x
        x = _closure_params(cl)[0][0][0]
        peeks = [p for p in H.walk(cl["body"]) if p.get("k") == "mcall" and p["name"] == "peek" and H.local_of(p["recv"])
                 and list_side(H.local_of(p["recv"])[0]) is not None]
        eqs = [e for e in H.walk(cl["body"]) if e.get("k") == "bin" and e["op"] == "==" and _mentions(e, x)]
        bad = [e for e in H.walk(cl["body"]) if (e.get("k") == "bin" and e["op"] == "!=") or (e.get("k") == "un" and e["op"] == "!")]
        if len(peeks) == 1 and len(eqs) == 1 and not bad:
            steps.append({"kind": "common", "side": s, "peeked": list_side(H.local_of(peeks[0]["recv"])[0]), "call": n, "cursor": cur[0]})
        else:
            R.unrecognised(rid, where, "predicate is neither `!<list>.contains(x)` nor `<other cursor>.peek() == x`: " + H.render(cl["body"]), n["sp"])

    # ---- names and presence
    def step_name(st):
        return "common" if st["kind"] == "common" else ("first-only" if st["side"] == 0 else "second-only")
    seen = {}
    for st in steps:
        nm = step_name(st)
        seen[nm] = seen.get(nm, 0) + 1
        st["name"] = nm if seen[nm] == 1 else "%s#%d" % (nm, seen[nm])
    for nm in ("common", "first-only", "second-only"):
        R.inst(rid, "step:%s:present" % nm, seen.get(nm, 0) >= 1, sp=fn["sp"],
               detail="the merge loop needs a step that takes %s" % {"common": "an element that is at the head of both lists",
                                                                   "first-only": "elements of the first list that the second list does not contain",
                                                                   "second-only": "elements of the second list that the first list does not contain"}[nm])

    # ---- progress flag: `if flag { break }`
    flag = None
    for n in H.walk(body):
        if n.get("k") == "if" and "else" not in n and any(x.get("k") == "break" for x in H.walk(n["then"])):
            inner, neg = H.negate_peel(n["cond"])
            loc = H.local_of(inner)
            if loc and list_side(loc[0]) is None and (inner.get("ty") == "bool"):
                flag = (loc[0], neg) if flag is None else "many"
    accs = set()
    for st in steps:
        nm = st["name"]
        call = st["call"]
        if st["kind"] == "only":
            ok = st["tested"] != st["side"] and st["neg"]
            R.inst(rid, "step:%s:membership-tests-other-list" % nm, ok, sp=call["sp"],
                   expect="!%s.contains(x) for x drawn from the %s" % (LIST[1 - st["side"]], LIST[st["side"]]),
                   got="%s%s.contains(x) for x drawn from the %s" % ("!" if st["neg"] else "", LIST[st["tested"]], LIST[st["side"]]),
                   detail="an element drawn from a list is always contained in that list: the predicate is constantly false and the step never fires"
                   if st["tested"] == st["side"] else None)
        region, bound = _success_region(body, call)
        if region is None:
            R.unrecognised(rid, "step:" + nm, "cannot find the branch taken when the step yields Some(x) (accepted: if let / while let / match / let-else)", call["sp"])
            continue
        nodes = [x for r in region for x in H.walk(r)]
        if st["kind"] == "common":
            t = st["peeked"]
            adv = [x for x in nodes if x.get("k") == "mcall" and x["name"] in ADVANCE and H.local_of(x["recv"])
                   and list_side(H.local_of(x["recv"])[0]) == t and H.local_of(x["recv"])[0] != st["cursor"]]
            R.inst(rid, "step:%s:advances-both-cursors" % nm, t != st["side"] and len(adv) >= 1, sp=call["sp"],
                   expect="the %s cursor is advanced as well when its head was matched" % LIST[t],
                   got="only the %s cursor is advanced" % LIST[st["side"]] if not adv else "both advanced",
                   detail="the matched element stays at the head of the %s cursor, so every later element of that list is blocked behind it "
                          "and falls through to the tail, behind the rest of the other list" % LIST[t])
        pushes = [x for x in nodes if x.get("k") == "mcall" and x["name"] == "push" and len(x["args"]) == 1
                  and H.local_of(x["args"][0]) and H.local_of(x["args"][0])[0] in bound and H.local_of(x["recv"])]
        R.inst(rid, "step:%s:emits-element" % nm, len(pushes) == 1, sp=call["sp"],
               detail="the element taken from the cursor must be pushed to the result exactly once")
        for p in pushes:
            accs.add(H.local_of(p["recv"])[0])
        if flag and flag != "many":
            sets = [x for x in nodes if x.get("k") == "assign" and H.local_of(x["l"]) and H.local_of(x["l"])[0] == flag[0]]
            ok = len(sets) >= 1 and all(H.const_value(x["r"]) is flag[1] for x in sets)
            R.inst(rid, "step:%s:records-progress" % nm, ok, sp=call["sp"],
                   detail="a step that fired must keep the loop going (the loop exits when an iteration made no progress)")

    # ---- tails: appended after the loop
    step_regions = []
    for st in steps:
        region, _ = _success_region(body, st["call"])
        for r in region or []:
            step_regions.extend(id(x) for x in H.walk(r))
    step_regions = set(step_regions)
    tails = {0: [], 1: []}
    for n in H.walk(body):
        if n.get("k") == "mcall" and n["name"] in ("extend", "append", "extend_from_slice") and id(n) not in step_regions and len(n["args"]) == 1:
            arg = H.peel(n["args"][0])
            rr = H.recv_root(arg)
            s = list_side(rr[0]) if rr else None
            if s is None:
                continue
            acc = H.local_of(n["recv"])
            if acc:
                accs.add(acc[0])
            filt = None
            chain = arg
            bad = False
            while chain.get("k") == "mcall":
                if chain["name"] == "filter" and len(chain["args"]) == 1 and H.peel(chain["args"][0]).get("k") == "closure":
                    m = classify_membership(H.peel(chain["args"][0]), "%s-remainder.filter" % LIST[s], chain["sp"])
                    if m is None or m == "other":
                        bad = True
                    else:
                        filt = m
                elif chain["name"] not in ("cloned", "copied", "by_ref", "iter", "into_iter", "peekable"):
                    bad = True
                chain = H.peel(chain["recv"])
            if bad:
                R.unrecognised(rid, "tail:%s-remainder" % LIST[s], "remainder appended through an adapter the rule does not know: " + H.render(arg), n["sp"])
                continue
            tails[s].append((n, filt))
        elif n.get("k") == "for" and id(n) not in step_regions:
            # `for x in <remainder> { [if !other.contains(x)] { acc.push(x) } }`  ==  `acc.extend(<remainder>[.filter(..)])`
            it = H.peel(n["iter"])
            rr = H.recv_root(it)
            s = list_side(rr[0]) if rr else None
            lv = [i for i, _ in H.pat_bindings(n["pat"])]
            if s is None or len(lv) != 1:
                continue
            chain, bad = it, False
            while chain.get("k") == "mcall":
                if chain["name"] not in ("cloned", "copied", "by_ref", "iter", "into_iter", "peekable"):
                    bad = True
                chain = H.peel(chain["recv"])
            pushes = [x for x in H.walk(n["body"]) if x.get("k") == "mcall" and x["name"] == "push" and len(x["args"]) == 1
                      and H.local_of(x["args"][0]) and H.local_of(x["args"][0])[0] == lv[0] and H.local_of(x["recv"])]
            if bad or len(pushes) != 1:
                R.unrecognised(rid, "tail:%s-remainder" % LIST[s], "loop over a remainder that is not `for x in rest { [if ..] acc.push(x) }`: " + H.render(n)[:120], n["sp"])
                continue
            accs.add(H.local_of(pushes[0]["recv"])[0])
            filt = None
            for kind, cond, pol in H.path_conditions(n["body"], pushes[0]):
                inner, neg = H.negate_peel(cond) if kind in ("if", "after-exit") else (None, False)
                inner = H.peel(inner) if inner is not None else {}
                if inner.get("k") == "mcall" and inner["name"] == "contains" and len(inner["args"]) == 1 and H.local_of(inner["args"][0]) \
                        and H.local_of(inner["args"][0])[0] == lv[0] and H.recv_root(inner["recv"]) and list_side(H.recv_root(inner["recv"])[0]) is not None:
                    handled.add(id(inner))
                    filt = (list_side(H.recv_root(inner["recv"])[0]), neg == bool(pol))
                else:
                    R.unrecognised(rid, "tail:%s-remainder" % LIST[s], "condition on a remainder element that is not a membership test: " + H.render(cond)[:100], n["sp"])
            tails[s].append((n, filt))
    for s in (0, 1):
        R.inst(rid, "tail:%s-remainder:appended" % LIST[s], len(tails[s]) == 1, sp=fn["sp"],
               detail="what is left of the %s when the loop stops (exhausted or incompatible orders) must still reach the result" % LIST[s])
        for n, filt in tails[s]:
            if filt is not None:
                R.inst(rid, "tail:%s-remainder:membership-tests-other-list" % LIST[s], filt[0] != s and filt[1], sp=n["sp"],
                       expect="filter(|x| !%s.contains(x))" % LIST[1 - s], got="filter(|x| %s%s.contains(x))" % ("!" if filt[1] else "", LIST[filt[0]]))
    nfilt = sum(1 for s in (0, 1) for _, f in tails[s] if f is not None)
    R.inst(rid, "tail:exactly-one-remainder-filtered", nfilt == 1, sp=fn["sp"], got="%d filtered remainders" % nfilt,
           detail="elements left in both remainders must be emitted once: none filtered duplicates them, both filtered loses them")
    # ---- one accumulator, returned
    ret = H.recv_root(_value_of(body))
    R.inst(rid, "result:single-accumulator-returned", len(accs) == 1 and ret is not None and ret[0] in accs, sp=fn["sp"],
           detail="all steps and tails push to the one vector the function returns")
    # ---- every membership test in the function was classified
    for n in H.walk(body):
        if n.get("k") == "mcall" and n["name"] == "contains" and id(n) not in handled:
            rr = H.recv_root(n["recv"])
            if rr and list_side(rr[0]) is not None:
                R.unrecognised(rid, "contains", "membership test on an input list outside a recognised step/tail predicate: " + H.render(n), n["sp"])
    R.floor(rid, 14)


# ------------------------------------------------------------------------------------ R13.2
class _SliceEv(T.Evaluator):
    """merge_slice presence table: `<map built from client|server>.get(k)` is Some(E_side) / None per cell;
    calls of the closure parameters stay constructor-like terms; `?` on such a call is transparent (the element it
    yields on success); a local that is not bound yet is evaluated from its `let` initialiser (introduced locals)."""

    def __init__(self, body, pids, fnparams, present):
        super().__init__()
        self.body = body
        self.pids = pids
        self.fnparams = fnparams
        self.present = present
        self.bad = []
        self._resolving = set()

    def ev(self, n, env):
        k = n.get("k")
        if k == "try":
            v = self.ev(n["e"], env)
            if v[0] == "v" and (v[1].startswith("call:") or v[1] == "if"):
                return _strip_ok(v)
            if v[0] == "v" and v[1] == "Ok":
                return v[2][0] if v[2] else ("t", [])
        if k == "path" and n["res"].get("r") == "local":
            lid = n["res"]["id"]
            if lid not in env and lid not in self._resolving and lid not in self.pids:
                init = H.let_init_of(self.body, lid)
                if init is not None:
                    self._resolving.add(lid)
                    try:
                        env[lid] = self.ev(init, env)
                    finally:
                        self._resolving.discard(lid)
        return super().ev(n, env)

    def call(self, n, c, args, env):
        if n.get("k") == "call" and (c or {}).get("r") == "local":
            role = self.fnparams.get(c["id"])
            if role:
                return T.V("call:" + role, *args)
        if n.get("k") == "mcall" and n["name"] == "get":
            rr = H.recv_root(n["recv"])
            o = H.origin_local(self.body, rr[0]) if rr else None
            if o in self.pids[:2]:
                s = self.pids.index(o)
                return T.V("Some", T.sym("E_" + ("client", "server")[s])) if self.present[s] else T.V("None")
            self.bad.append(H.render(n))
        return super().call(n, c, args, env)


def _strip_ok(v):
    """The element a per-key decision yields, whether it is written `Ok(x)` / `f(..)` (collected as Result) or `x` / `f(..)?`."""
    if v[0] == "v" and v[1] == "Ok" and len(v[2]) == 1:
        return _strip_ok(v[2][0])
    if v[0] == "v" and v[1] == "if" and len(v[2]) == 3:
        return ("v", "if", [v[2][0], _strip_ok(v[2][1]), _strip_ok(v[2][2])])
    return v


def _lca(root, targets):
    """Deepest node of `root` whose subtree contains every node of `targets` (identity)."""
    chains = []
    want = set(id(t) for t in targets)
    for n, parents in H.walk_with_parents(root):
        if id(n) in want:
            chains.append(list(parents) + [n])
    if len(chains) != len(want) or not chains:
        return None
    out = None
    for level in zip(*chains):
        if all(x is level[0] for x in level):
            out = level[0]
        else:
            break
    return out


def r13_2(c, R, spec):
    rid = "R13.2"
    R.rule(rid, "merge tables: merge_slice (present on both & equal -> clone, both -> inner(client, server), client only -> side(_, Client), "
                "server only -> side(_, Server)); jar level: names of the first jar are tagged Client, of the second Server; a client-only "
                "class gets Side::Client, a server-only class Side::Server, a class on both sides no class-level side; Both: (Dir,Dir)->Dir, "
                "(Class,Class)-> written bytes equal ? into_class_repr (byte pass-through) : class_merger_merge(client, server), "
                "(Other,Other)-> data of one side, different kinds -> error; skipped entries = {META-INF/*.SF|*.RSA} + {server-only library "
                "classes}; Side -> \"CLIENT\"/\"SERVER\"; annotation types/elements = Fabric API")
    _slice_table(c, R, rid)
    _jar_table(c, R, rid, spec)
    _side_names_and_annotations(c, R, rid, spec)
    R.floor(rid, 39)


def _slice_table(c, R, rid):
    fn = _find_fn(c, "merge_slice", lambda b: len(b["inputs"]) == 5 and _is_slice(b["inputs"][0]) and _is_slice(b["inputs"][1]))
    if not R.anchor(rid, "fn dukebox::merge::merge_slice", fn):
        return
    body = fn["body"]
    pids = H.param_ids(fn)
    ins = fn["inputs"]
    # the callback parameters by role.  The role is read from how the parameter is CALLED in the body (a callback that receives a
    # `Side` value is the one-sided handler, one that receives two elements merges a pair), so `side: impl Fn(&T, Side) -> Result<T>`
    # and `side: OnSide` with `where OnSide: Fn(&T, Side) -> Result<T>` are the same parameter.
    fn_bounded = set(x["param"] for x in fn.get("bounds") or [] if (x.get("trait") or "").rsplit("::", 1)[-1] in ("Fn", "FnMut", "FnOnce"))
    fnparams = {}
    for pid, t in zip(pids[2:], ins[2:]):
        t = t or ""
        if not ("Fn(" in t or "FnMut(" in t or t.lstrip("&").strip() in fn_bounded):
            continue
        shapes = set()
        for x in H.walk(body):
            if x.get("k") == "call" and (x.get("callee") or {}).get("r") == "local" and x["callee"]["id"] == pid:
                tys = [(a.get("ty") or "") for a in x["args"]]
                shapes.add("side" if SIDE_ADT in tys else ("inner" if len(tys) == 2 else "key"))
        if len(shapes) == 1 and list(shapes)[0] != "key":
            fnparams[pid] = list(shapes)[0]
    if not R.anchor(rid, "merge_slice parameters (client, server, get_key, side, inner)", len(pids) == 5 and sorted(fnparams.values()) == ["inner", "side"]
                    and _is_slice(ins[0]) and _is_slice(ins[1]), sp=fn["sp"]):
        return
    # the merged key order
    mpo = [n for n in H.walk(body) if n.get("k") == "call" and H.callee_name(n) == "merge_preserve_order"]
    if not R.anchor(rid, "merge_slice: call of merge_preserve_order", len(mpo) == 1, sp=fn["sp"]):
        return
    sides = []
    for a in mpo[0]["args"]:
        rr = H.recv_root(a)
        o = H.origin_local(body, rr[0]) if rr else None
        sides.append(pids.index(o) if o in pids[:2] else None)
    R.inst(rid, "slice:key-order-from-both-sides", sorted(x for x in sides if x is not None) == [0, 1], sp=mpo[0]["sp"], got=sides,
           detail="the merged key order must be computed from the client keys and the server keys")
    # every result comes out of the per-key decision: no shortcut that returns one side as it is (seed C13-7: `if server.is_empty()
    # { return Ok(client.to_vec()) }` leaves one-sided members unmarked)
    early = H.success_returns(body)
    R.inst(rid, "slice:no-shortcut-exit", not early, sp=(early[0].get("sp") if early else fn["sp"]),
           expect="the only successful result is the collected per-key decision", got=[H.render(n)[:100] for n in early],
           detail="an element present on one side only must pass through side(_, Client|Server) whatever the other list contains")
    # the per-key decision: the smallest expression containing every call of the `side` / `inner` callbacks
    # (a closure mapped over the key order, the body of a `for` loop, a `match`, an if-let chain ...)
    cbs = [n for n in H.walk(body) if n.get("k") == "call" and (n.get("callee") or {}).get("r") == "local" and n["callee"]["id"] in fnparams]
    dec = _lca(body, cbs) if len(cbs) >= 2 else None
    if not R.anchor(rid, "merge_slice: per-key decision (expression containing the calls of `side` and `inner`)", dec is not None
                    and dec.get("k") in ("match", "if", "block", "closure"), sp=fn["sp"]):
        return
    if dec.get("k") == "closure":
        dec = dec["body"]
    dconds = H.path_conditions(body, dec, skip_error_exits=True)
    R.inst(rid, "slice:decision-unconditional", not dconds, sp=dec.get("sp"), expect="the per-key decision is reached for every pair of lists",
           got=[(k, H.render(cn)[:60] if k != "arm" else "match arm", p) for k, cn, p in dconds])
    E = {0: T.sym("E_client"), 1: T.sym("E_server")}

    def cell(pc, ps):
        ev = _SliceEv(body, pids, fnparams, (pc, ps))
        try:
            v = ev.ev(dec, {})
        except T.Return as r:
            v = r.v
        except T.Break:
            v = T.sym("<break>")
        return _strip_ok(v), ev.bad

    def norm_both(v):
        """-> (value when equal, value when different) or None"""
        if v[0] == "v" and v[1] == "if" and len(v[2]) == 3 and T.is_sym(v[2][0]):
            g = v[2][0][1]
            if g in ("(E_client == E_server)", "(E_server == E_client)"):
                return v[2][1], v[2][2]
            if g in ("(E_client != E_server)", "(E_server != E_client)"):
                return v[2][2], v[2][1]
        return None
    v, bad = cell(True, True)
    nb = norm_both(v)
    R.inst(rid, "slice:cell:both/equal", nb is not None and nb[0] in (E[0], E[1]), sp=dec["sp"],
           expect="<the shared element>.clone() under the guard client == server", got=T.show(v),
           detail="shared members are unmarked")
    R.inst(rid, "slice:cell:both/different", nb is not None and nb[1] == T.V("call:inner", E[0], E[1]), sp=dec["sp"],
           expect="inner(client element, server element)", got=T.show(v))
    for (pc, ps, nm, s) in ((True, False, "client-only", 0), (False, True, "server-only", 1)):
        v, bad2 = cell(pc, ps)
        bad = bad + bad2
        want = T.V("call:side", E[s], T.V(("Client", "Server")[s]))
        R.inst(rid, "slice:cell:%s" % nm, v == want, sp=dec["sp"], expect=T.show(want), got=T.show(v),
               detail="a member present on one side only is marked with that side")
    for b in sorted(set(bad)):
        R.unrecognised(rid, "merge_slice", "lookup that is not rooted in the client/server parameter: " + b, dec["sp"])


def _name_atom_factory(name_ids, c=None, scope=None, depth=0):
    """Leaf predicates over the entry name: `name.starts_with/ends_with/contains(<const>)`.  A bool local of `scope` is the expression it
    was initialised with; a call of a bool-valued function of the module with the name as an argument (an extracted predicate such as
    `is_signature_file(name)`) is the formula of that function's body over its parameter."""
    def atom(n):
        n = H.peel(n)
        if n.get("k") == "mcall" and n["name"] in ("starts_with", "ends_with", "contains") and len(n["args"]) == 1:
            rr = H.recv_root(n["recv"])
            v = H.const_value(n["args"][0])
            if rr and rr[0] in name_ids and isinstance(v, str):
                return "%s:%s" % (n["name"], v)
        if n.get("k") == "path" and n["res"].get("r") == "local" and n.get("ty") == "bool" and scope is not None and depth < 3:
            init = H.let_init_of(scope, n["res"]["id"])
            if init is not None:
                return B.formula(init, _name_atom_factory(name_ids, c, scope, depth + 1))
        if n.get("k") == "call" and c is not None and depth < 3 and n.get("ty") == "bool":
            helper = c.by_key.get((n.get("callee") or {}).get("key"))
            if helper is not None and _in_mod(helper) and isinstance(helper.get("body"), dict) and len(helper.get("params") or []) == len(n["args"]):
                ids = set()
                for prm, a in zip(helper["params"], n["args"]):
                    rr = H.recv_root(a)
                    if rr and rr[0] in name_ids:
                        ids |= set(i for i, _ in H.pat_bindings(prm))
                if ids:
                    return B.formula(_value_of(helper["body"]), _name_atom_factory(ids, c, helper["body"], depth + 1))
        return None
    return atom


def _spec_formula(f):
    if isinstance(f, str):
        return ("atom", f)
    if f[0] == "not":
        return ("not", _spec_formula(f[1]))
    out = _spec_formula(f[1])
    for x in f[2:]:
        out = (f[0], out, _spec_formula(x))
    return out


def _and(fs):
    out = None
    for f in fs:
        out = f if out is None else ("and", out, f)
    return out if out is not None else ("const", True)


def _forwarders(c, seeds, need_side):
    """Keys of `seeds` plus the functions of the module that (transitively) call one of them; with `need_side` only callers
    that hand one of their own Side-typed parameters on (so that the Side constant at THEIR call site is the side marked)."""
    out = set(seeds)
    changed = True
    while changed:
        changed = False
        for b in c.bodies:
            if not _in_mod(b) or b["key"] in out or not isinstance(b.get("body"), dict) or b.get("inputs") is None:
                continue
            side_params = set(p for p, t in zip(H.param_ids(b), b["inputs"]) if (t or "") == SIDE_ADT) if len(H.param_ids(b)) == len(b["inputs"]) else set()
            for x in H.walk(b["body"]):
                if x.get("k") == "call" and (x.get("callee") or {}).get("key") in out:
                    if need_side and not any(H.local_of(a) and H.local_of(a)[0] in side_params for a in x["args"]):
                        continue
                    out.add(b["key"])
                    changed = True
                    break
    return out


def _jar_table(c, R, rid, spec):
    fn = c.by_key.get(MOD + "::merge")
    if not R.anchor(rid, "fn dukebox::merge::merge", fn):
        return
    body = fn["body"]
    pids = H.param_ids(fn)
    if not R.anchor(rid, "merge(client, server)", len(pids) == 2, sp=fn["sp"]):
        return

    def jar_side(expr_or_id):
        lid = expr_or_id
        if isinstance(expr_or_id, dict):
            rr = H.recv_root(expr_or_id)
            if rr is None:
                return None
            lid = rr[0]
        o = H.origin_local(body, lid, limit=12)
        return pids.index(o) if o in pids else None

    # ---- J1: which jar's names are tagged Client / Server
    tags = {}
    for n in H.walk(body):
        if n.get("k") == "mcall" and n["name"] == "map" and n["args"] and H.peel(n["args"][0]).get("k") == "closure":
            ctors = [H.ctor_of(x) for x in H.walk(H.peel(n["args"][0])["body"]) if x.get("k") == "call"]
            vs = [v for (a, v) in [x for x in ctors if x] if (a or "").endswith("::MergeSide")]
            if vs and any(x.get("k") == "mcall" and x["name"] == "names" for x in H.walk(n["recv"])):
                for v in vs:
                    tags.setdefault(v, []).append((jar_side(n["recv"]), n["sp"]))
    for i, v in enumerate(("Client", "Server")):
        got = tags.get(v, [])
        R.inst(rid, "jar:names-tagged:%s" % v, len(got) == 1 and got[0][0] == i, sp=got[0][1] if got else fn["sp"],
               expect="entry names of parameter #%d are tagged %s" % (i, v), got=[g[0] for g in got],
               detail="merge(client, server): the first jar is the client")

    # ---- functions of the module that mark a class with a side / that lead to class_merger_merge
    vs_fn = _find_fn(c, "visit_sided_annotation", lambda b: any("Side" in t for t in b["inputs"]) and "ClassFile" in (b.get("output") or ""))
    marking = _forwarders(c, {vs_fn["key"]} if vs_fn else set(), need_side=True)
    cmm_fn = _find_fn(c, "class_merger_merge", lambda b: len(b["inputs"]) == 2 and all(t.endswith("::ClassFile") for t in b["inputs"]))
    merging = _forwarders(c, {cmm_fn["key"]} if cmm_fn else set(), need_side=False)

    def _calls_any(n, keys):
        return any(x.get("k") == "call" and (x.get("callee") or {}).get("key") in keys for x in H.walk(n))
    # ---- the per-entry loop
    loops = [n for n in H.walk(body) if n.get("k") == "for" and _calls_any(n["body"], merging)]
    if not R.anchor(rid, "merge: per-entry loop (contains the class_merger_merge call)", len(loops) == 1, sp=fn["sp"]):
        return
    loop = loops[0]
    name_ids = set(i for i, _ in H.pat_bindings(loop["pat"]))
    # matches on the entry name (scrutinee rooted in a loop binding, &str) and on the combination
    name_matches = [n for n in H.walk(loop["body"]) if n.get("k") == "match" and (n["scrut"].get("ty") or "").endswith("str")
                    and H.recv_root(n["scrut"]) and H.recv_root(n["scrut"])[0] in name_ids]
    for m in name_matches:
        for a in m["arms"]:
            for i, _ in H.pat_bindings(a["pat"]):
                name_ids.add(i)
    comb = [n for n in H.walk(loop["body"]) if n.get("k") == "match" and "MergeCombination" in (n["scrut"].get("ty") or "")
            and _calls_any(n, marking | merging)]
    if not R.anchor(rid, "merge: `match merge_combination { Client, Server, Both }` producing the entry content", len(comb) == 1, sp=loop["sp"]):
        return
    comb = comb[0]
    arms = {}
    for a in comb["arms"]:
        v = H.pat_variant(a["pat"])
        if v and "guard" not in a:
            arms[v[1]] = a
    if not R.anchor(rid, "merge: arms Client/Server/Both", sorted(arms) == ["Both", "Client", "Server"], sp=comb["sp"]):
        return
    # ---- J2: class-level side annotation per arm (directly or through a private helper that forwards its Side parameter)
    for v in ("Client", "Server"):
        calls = [x for x in H.walk(arms[v]["body"]) if x.get("k") == "call" and (x.get("callee") or {}).get("key") in marking]
        got = [_side_ctor(a) for x in calls for a in x["args"] if _side_ctor(a)]
        R.inst(rid, "jar:%s-only:class-marked-with-own-side" % v.lower(), len(calls) >= 1 and got == [v] * len(calls), sp=arms[v]["body"]["sp"],
               expect="visit_sided_annotation(class, Side::%s)" % v, got=got)
        handles = [jar_side(x["recv"]) for x in H.walk(arms[v]["body"]) if x.get("k") == "mcall" and x["name"] == "by_entry_key"]
        R.inst(rid, "jar:%s-only:entry-read-from-own-jar" % v.lower(), handles == [("Client", "Server").index(v)], sp=arms[v]["body"]["sp"], got=handles)
    calls = [x for x in H.walk(arms["Both"]["body"]) if x.get("k") == "call" and (x.get("callee") or {}).get("key") in marking]
    R.inst(rid, "jar:both:class-not-side-marked", not calls, sp=arms["Both"]["body"]["sp"],
           detail="a class present in both jars carries no class-level side annotation")

    # ---- J3/J6: skipped entries (every `continue` of the loop body)
    atom = _name_atom_factory(name_ids, c, loop["body"])
    found = []
    for n, parents in H.walk_with_parents(loop["body"]):
        if n.get("k") != "continue":
            continue
        restrict = None
        fs = []
        ok = True
        chain = list(parents) + [n]
        for i, p in enumerate(chain[:-1]):
            nxt = chain[i + 1]
            k = p.get("k")
            if k == "match":
                for ai, a in enumerate(p["arms"]):
                    if a["body"] is not nxt:
                        continue
                    if p is comb:
                        restrict = (H.pat_variant(a["pat"]) or (None, "?"))[1]
                    elif any(p is m for m in name_matches):
                        # arm of the match on the entry name: a guarded catch-all contributes its guard, the final
                        # catch-all contributes nothing (the negated earlier arms are not needed: no expected skip
                        # overlaps the literal / signature arms), a literal-name arm is not a recognised skip shape
                        catch_all = a["pat"].get("k") in ("bind", "wild") and "sub" not in a["pat"]
                        earlier_catch_all = any(b["pat"].get("k") in ("bind", "wild") and "sub" not in b["pat"] and "guard" not in b for b in p["arms"][:ai])
                        if not catch_all or earlier_catch_all:
                            ok = False
                        elif "guard" in a:
                            fs.append(B.formula(a["guard"], atom))
                    else:
                        ok = False
            elif k == "if":
                cnd = H.peel(p["cond"], refs=False)
                if cnd.get("k") == "letexpr":
                    ok = False
                elif nxt is p["then"]:
                    fs.append(B.formula(p["cond"], atom))
                elif p.get("else") is nxt:
                    fs.append(("not", B.formula(p["cond"], atom)))
            elif k in ("closure", "loop", "for"):
                ok = False
        found.append({"restrict": restrict, "formula": _and(fs), "ok": ok, "sp": n["sp"]})
    expected = spec["skips"]
    used = set()
    for nm, e in expected.items():
        want = _spec_formula(e["formula"])
        cands = [f for f in found if f["ok"] and f["restrict"] == e["applies_to"]]
        eq = [f for f in cands if B.equivalent(f["formula"], want)[0]]
        for f in eq:
            used.add(id(f))
        R.inst(rid, "skip:%s" % nm, len(eq) == 1, sp=(cands[0]["sp"] if cands else loop["sp"]),
               expect="%s entries are skipped iff %s" % (e["applies_to"] or "all", B.show(want)),
               got=[B.show(f["formula"]) for f in cands])
    for f in found:
        if id(f) not in used:
            R.inst(rid, "skip:unexpected:%s" % (f["restrict"] or "any"), False, sp=f["sp"], got=B.show(f["formula"]),
                   detail="an entry is dropped from the merged jar under a condition that is neither the signature-file skip nor the "
                          "server-library filter" + ("" if f["ok"] else " (condition shape not recognised)"))
    for v in ("Client", "Both"):
        rets = [x for x in H.walk(arms[v]["body"], into_closures=False) if x.get("k") in ("continue", "break")]
        R.inst(rid, "skip:none-in:%s" % v, not rets, sp=arms[v]["body"]["sp"],
               detail="every %s entry is kept" % {"Client": "client-only", "Both": "shared"}[v])
    # ---- manifest arm produces an entry
    for m in name_matches:
        for a in m["arms"]:
            s = H.pat_str_value(a["pat"])
            if s is not None:
                R.inst(rid, "entry-kept:%s" % s, not H.diverges(a["body"]), sp=a["body"]["sp"],
                       detail="a name handled by its own arm still yields exactly one entry")

    # ---- J4/J5: Both: entry-kind table
    kinds = spec["entry_kinds"]
    tabs = [n for n in H.walk(arms["Both"]["body"]) if n.get("k") == "match" and H.peel(n["scrut"]).get("k") == "tuple"
            and len(H.peel(n["scrut"])["es"]) == 2 and all("JarEntryEnum" in (e.get("ty") or "") for e in H.peel(n["scrut"])["es"])]
    if not R.anchor(rid, "merge/Both: `match (client kind, server kind)`", len(tabs) == 1, sp=arms["Both"]["body"]["sp"]):
        return
    tab = tabs[0]
    es = H.peel(tab["scrut"])["es"]
    pos_side = [jar_side(e) for e in es]
    R.inst(rid, "both:kinds-from-both-jars", sorted(x for x in pos_side if x is not None) == [0, 1], sp=tab["sp"], got=pos_side,
           detail="the two entries compared are the client's and the server's entry of that name")
    if sorted(x for x in pos_side if x is not None) != [0, 1]:
        return

    def pick(k0, k1):
        val = ("t", [T.V(k0, T.sym("p0")) if k0 != "Dir" else T.V("Dir"), T.V(k1, T.sym("p1")) if k1 != "Dir" else T.V("Dir")])
        for a in tab["arms"]:
            env = {}
            r = T.match_pat(a["pat"], val, env)
            if r is True and "guard" not in a:
                return a
            if r is None or (r is True and "guard" in a):
                return None
        return None

    def bind_sides(a):
        """binding id -> jar side, from the tuple pattern positions."""
        out = {}
        p = H.pat_peel(a["pat"]) if a["pat"].get("k") != "ptuple" else a["pat"]
        if p.get("k") == "ptuple" and len(p["pats"]) == 2:
            for pos, sp_ in enumerate(p["pats"]):
                for i, _ in H.pat_bindings(sp_):
                    out[i] = pos_side[pos]
        return out

    def trace(expr, arm, bs):
        """(side, method names on the way) of a value derived from an arm binding through receivers and lets."""
        names = []
        cur = H.peel(expr)
        for _ in range(12):
            n = cur
            while True:
                n = H.peel(n)
                k = n.get("k")
                if k == "mcall":
                    names.append(n["name"])
                    n = n["recv"]
                elif k in ("field", "index", "try", "cast"):
                    n = n["e"]
                else:
                    break
            loc = H.local_of(n)
            if not loc:
                return None, names
            if loc[0] in bs:
                return bs[loc[0]], names
            init = H.let_init_of(arm["body"], loc[0])
            if init is None:
                return None, names
            cur = H.peel(init)
        return None, names

    for k0 in kinds:
        for k1 in kinds:
            a = pick(k0, k1) if pos_side == [0, 1] else pick(k1, k0)
            key = "both:cell:%s/%s" % (k0, k1)
            if a is None:
                R.inst(rid, key, False, sp=tab["sp"], detail="no decidable arm for this pair of entry kinds")
                continue
            if k0 != k1:
                R.inst(rid, key, H.is_err_exit(a["body"]) or (H.diverges(a["body"]) and any(x.get("k") == "ret" for x in H.walk(a["body"]))), sp=a["body"]["sp"],
                       expect="error (a name cannot be a %s in one jar and a %s in the other)" % (k0, k1), got=H.render(a["body"])[:120])
                continue
            bs = bind_sides(a)
            if k0 == "Dir":
                cv = H.ctor_of(H.peel(_value_of(a["body"])))
                R.inst(rid, key, bool(cv) and cv[1] == "Dir", sp=a["body"]["sp"], expect="Dir", got=H.render(a["body"])[:80])
            elif k0 == "Other":
                outs = [x for x in H.walk(a["body"]) if x.get("k") == "call" and (H.ctor_of(x) or (None, None))[1] == "Other"]
                srcs = [trace(x["args"][0], a, bs) for x in outs]
                ok = len(outs) >= 1 and all(s in (0, 1) and any(nm in ("get_data_owned", "get_data") for nm in names) for s, names in srcs)
                R.inst(rid, key, ok and not H.diverges(a["body"]), sp=a["body"]["sp"], expect="Other(<data of the client or server entry>)",
                       got=[(s, names) for s, names in srcs])
            else:
                _both_class(R, rid, a, bs, trace, c)


def _unwrap_value(v):
    """Strip `Ok(..)` / `Class(..)` / `Some(..)` / `?` / refs around a value expression."""
    while True:
        v = H.peel(v, tries=True)
        if v.get("k") == "call" and (H.ctor_of(v) or (None, None))[1] in ("Ok", "Class", "Some") and len(v["args"]) == 1:
            v = v["args"][0]
            continue
        return v


def _resolve_cmp(cond, scope):
    """(comparison node, holds-when-cond-true?) for a condition that is `a == b` / `a != b`, possibly negated and possibly
    held in a local bool (`let identical = a == b; ... if identical`)."""
    inner, neg = H.negate_peel(cond)
    for _ in range(4):
        loc = H.local_of(inner) if H.peel(inner).get("k") == "path" else None
        if not loc:
            break
        init = H.let_init_of(scope, loc[0])
        if init is None:
            return None
        inner, n2 = H.negate_peel(init)
        neg = neg != n2
    inner = H.peel(inner, refs=False)
    if inner.get("k") == "bin" and inner["op"] in ("==", "!="):
        return inner, (inner["op"] == "==") != neg
    return None


def _returned(block):
    """a diverging block `{ stmts; return X }` seen as the block computing X"""
    b = H.peel(block, refs=False)
    if b.get("k") == "block":
        items = list(b["stmts"]) + ([b["tail"]] if "tail" in b else [])
        if items:
            last = H.peel(items[-1], refs=False)
            if last.get("k") == "ret" and "e" in last:
                return {"k": "block", "stmts": items[:-1], "tail": last["e"], "sp": b.get("sp")}
    return block


def _both_class(R, rid, a, bs, trace, c=None, depth=0):
    """`a` = {"body": <code handling a class present in both jars>}, `bs` = binding id -> jar side."""
    ifs = []
    cands = []
    for n in H.walk(a["body"], into_closures=False):
        if n.get("k") == "if" and "else" in n:
            cands.append(n)
        elif n.get("k") == "block":
            # `if c { ...; return X }  <rest>`  ==  `if c { .. } else { <rest> }`
            for i, st in enumerate(n["stmts"]):
                s0 = H.peel(st, refs=False)
                if s0.get("k") == "if" and "else" not in s0 and H.diverges(s0["then"]):
                    rest = {"k": "block", "stmts": n["stmts"][i + 1:], "sp": s0["sp"]}
                    if "tail" in n:
                        rest["tail"] = n["tail"]
                    cands.append({"k": "if", "cond": s0["cond"], "then": _returned(s0["then"]), "else": rest, "sp": s0["sp"]})
    for n in cands:
        rc = _resolve_cmp(n["cond"], a["body"])
        if rc:
            cnd, eq_when_true = rc
            l = trace(cnd["l"], a, bs)
            r = trace(cnd["r"], a, bs)
            if sorted(x for x in (l[0], r[0]) if x is not None) == [0, 1] and "write" in l[1] and "write" in r[1]:
                ifs.append((n, eq_when_true))
    if not ifs and c is not None and depth < 2:
        # the case may be handled by a private helper of the module: follow the call, parameters inherit the jar sides
        for x in H.walk(a["body"]):
            if x.get("k") == "call" and ((x.get("callee") or {}).get("key") or "").startswith(MOD + "::") and H.callee_name(x) != "class_merger_merge":
                helper = c.by_key.get(x["callee"]["key"])
                if not helper or not isinstance(helper.get("body"), dict):
                    continue
                sides = [trace(arg, a, bs) for arg in x["args"]]
                hp = [H.pat_bindings(p) for p in helper["params"]]
                if sorted(sd[0] for sd in sides if sd[0] is not None) == [0, 1] and all(sd[1] == [] for sd in sides if sd[0] is not None) \
                        and len(hp) == len(sides) and all(len(b) == 1 for b in hp):
                    bs2 = {hp[i][0][0]: sides[i][0] for i in range(len(sides)) if sides[i][0] is not None}
                    return _both_class(R, rid, {"body": helper["body"]}, bs2, trace, c, depth + 1)
    ok_if = len(ifs) == 1
    R.inst(rid, "both:cell:Class/Class:compares-written-bytes", ok_if, sp=a["body"]["sp"],
           expect="if client.write()? == server.write()? { pass through } else { merge }",
           detail="identical classes are recognised by comparing the bytes of both sides")
    if not ok_if:
        return
    n, eq_when_true = ifs[0]
    eq_br, ne_br = (n["then"], n["else"]) if eq_when_true else (n["else"], n["then"])
    reprs = [x for x in H.walk(eq_br) if x.get("k") == "mcall" and x["name"] == "into_class_repr"]
    heavy = [x for x in H.walk(eq_br) if x.get("k") in ("call", "mcall") and H.callee_name(x) in ("class_merger_merge", "read", "visit_sided_annotation", "read_class")]
    v = _unwrap_value(_value_of(eq_br))
    okv = len(reprs) == 1 and v is reprs[0] and trace(reprs[0]["recv"], a, bs)[0] in (0, 1) and trace(reprs[0]["recv"], a, bs)[1] == []
    R.inst(rid, "both:cell:Class/Class:equal->byte-pass-through", okv and not heavy, sp=eq_br["sp"],
           expect="<the client's or server's entry itself>.into_class_repr() without reading / merging / annotating it",
           got=H.render(v)[:160])
    merges = [x for x in H.walk(ne_br) if x.get("k") == "call" and H.callee_name(x) == "class_merger_merge"]
    okm = False
    got = None
    if len(merges) == 1 and len(merges[0]["args"]) == 2:
        t0 = trace(merges[0]["args"][0], a, bs)
        t1 = trace(merges[0]["args"][1], a, bs)
        got = [t0[0], t1[0]]
        okm = t0[0] == 0 and t1[0] == 1 and "read" in t0[1] and "read" in t1[1]
    R.inst(rid, "both:cell:Class/Class:different->class_merger_merge(client, server)", okm, sp=ne_br["sp"],
           expect="class_merger_merge(<client entry>.read()?, <server entry>.read()?)", got=got,
           detail="swapped arguments mark client-only members SERVER and vice versa")
    v2 = _unwrap_value(_value_of(ne_br))
    okp = False
    if len(merges) == 1 and v2.get("k") == "struct" and v2.get("variant") == "Parsed" and len(v2["fields"]) == 1:
        fe = v2["fields"][0]["e"]
        loc = H.local_of(fe)
        src = H.let_init_of(ne_br, loc[0]) if loc else fe
        okp = src is not None and any(x is merges[0] for x in H.walk(src))
    R.inst(rid, "both:cell:Class/Class:different->parsed-result-kept", okp, sp=ne_br["sp"], got=H.render(v2)[:120],
           expect="ClassRepr::Parsed { class: <result of class_merger_merge> }")


class _AnnEv(T.Evaluator):
    """Value of an annotation-building expression for one Side: helpers of the module are inlined (an extracted `env_type_value(side)` is
    the literal it returns), a local that is not bound is evaluated from its `let` initialiser, a Side-typed local without one (a
    parameter) stands for the side of the cell, `FieldDescriptor::from_class(C)` keeps its argument."""

    def __init__(self, scope, inline, side):
        super().__init__(calls={"from_class": lambda a: T.V("from_class", *a)}, inline=inline, max_inline=3)
        self.scope = scope
        self.side = side
        self.side_locals = set()
        self.seen = set()
        self._resolving = set()

    def ev(self, n, env):
        k = n.get("k")
        if k == "struct":
            self.seen.add(id(n))
        if k == "path" and n["res"].get("r") == "local" and self.depth == 0:
            lid = n["res"]["id"]
            if lid not in env and lid not in self._resolving:
                init = H.let_init_of(self.scope, lid)
                if init is not None:
                    self._resolving.add(lid)
                    try:
                        env[lid] = self.ev(init, env)
                    finally:
                        self._resolving.discard(lid)
                elif n.get("ty") == SIDE_ADT:
                    self.side_locals.add(lid)
                    return T.V(self.side)
        return super().ev(n, env)


def _class_of(v):
    """class name constant of `FieldDescriptor::from_class(CONST)` (or of the bare constant)"""
    if v[0] == "v" and v[1] == "from_class" and len(v[2]) == 1:
        v = v[2][0]
    return v[1] if v[0] == "s" else "?" + T.show(v)[:60]


def _value_shape(v):
    """shape of an abstract ElementValue"""
    if v[0] == "st" and v[1] == "Enum":
        return {"enum": _class_of(v[2]["type_name"])} if "type_name" in v[2] else "?Enum"
    if v[0] == "v":
        return {"Class": "class", "ArrayType": "array", "AnnotationInterface": "annotation"}.get(v[1], v[1])
    return "?" + T.show(v)[:60]


def _pair_literals(e, scope):
    """ElementValuePair struct literals of an `element_value_pairs` expression (not those of nested annotations); a plain local is
    the expression it was initialised with (`let pairs = vec![..]; Annotation { element_value_pairs: pairs, .. }`)"""
    stack, pairs, seen = [e], [], set()
    while stack:
        x = stack.pop()
        if x.get("k") == "path" and x["res"].get("r") == "local" and x["res"]["id"] not in seen:
            seen.add(x["res"]["id"])
            init = H.let_init_of(scope, x["res"]["id"])
            if init is not None:
                stack.append(init)
            continue
        if x.get("k") == "struct" and (x.get("adt") or "").endswith("::ElementValuePair"):
            pairs.append(x)
            continue
        if x.get("k") == "struct" and (x.get("adt") or "").endswith("::Annotation"):
            continue
        stack.extend(H.children(x))
    return pairs


def _has_sym(v):
    """does an abstract value contain anything that is not a constant (a symbol, an uninterpreted call)?"""
    if not isinstance(v, tuple) or not v:
        return True
    if v[0] in ("s", "i", "b", "c"):
        return False
    if v[0] == "v":
        return any(_has_sym(x) for x in v[2])
    if v[0] == "t":
        return any(_has_sym(x) for x in v[1])
    if v[0] == "st":
        return any(_has_sym(x) for x in v[2].values())
    return True


def _callsite_constant(mod_bodies, key, i):
    """The one constant every call of function `key` in the crate passes as argument #i (a private helper generalised by a parameter
    that all of its callers fill with the same constant is the helper with that constant in place), else None."""
    vals = []
    for b in mod_bodies:
        for x in H.walk(b["body"]):
            if x.get("k") == "call" and (x.get("callee") or {}).get("key") == key:
                if i >= len(x["args"]):
                    return None
                try:
                    v = T.Evaluator().ev(x["args"][i], {})
                except Exception:
                    return None
                if _has_sym(v):
                    return None
                vals.append(v)
            elif x.get("k") == "path" and (x.get("res") or {}).get("r") == "def" and x["res"].get("key") == key:
                return None     # the function is also used as a value (passed by name): not all of its arguments are visible
    if vals and all(v == vals[0] for v in vals):
        return vals[0]
    return None


def _annotation_value(b, n, inline, side, mod_bodies=()):
    """Annotation struct literal `n` of body `b`, evaluated for one side -> ({type, pairs{name: abstract value}}, evaluator)."""
    ev = _AnnEv(b["body"], inline, side)
    env = {}
    for i, (pid, t) in enumerate(zip(H.param_ids(b), b.get("inputs") or [])):
        if "Side" not in (t or ""):
            k = _callsite_constant(mod_bodies, b["key"], i) if b.get("vis", "").startswith("Restricted") else None
            env[pid] = k if k is not None else T.sym("$arg%d" % i)
    out = {"type": None, "pairs": {}}
    for f in n["fields"]:
        if f["name"] == "annotation_type":
            out["type"] = _class_of(ev.ev(f["e"], env))
        elif f["name"] == "element_value_pairs":
            for p in _pair_literals(f["e"], b["body"]):
                ev.seen.add(id(p))
                nm, val = None, None
                for pf in p["fields"]:
                    if pf["name"] == "name":
                        v = ev.ev(pf["e"], env)
                        nm = v[1] if v[0] == "s" else "?" + T.show(v)[:40]
                    elif pf["name"] == "value":
                        val = ev.ev(pf["e"], env)
                out["pairs"][nm] = val
    return out, ev


def _annotation_records(c, spec):
    """Every Annotation literal of the module, evaluated for both sides (private helpers inlined):
    ([(body, literal, shape, {side: value record}, {side: evaluator})], ids of the struct literals the evaluations went through)"""
    mod_bodies = [b for b in c.bodies if _in_mod(b) and isinstance(b.get("body"), dict)]
    inline = {b["key"]: b for b in mod_bodies if b.get("params") is not None}
    crate_bodies = [b for b in c.bodies if isinstance(b.get("body"), dict)]      # a crate-private helper can only be called from here
    anns = []
    reached = set()
    for b in mod_bodies:
        for n in H.walk(b["body"]):
            if n.get("k") == "struct" and (n.get("adt") or "").endswith("::annotation::Annotation"):
                vals, evs = {}, {}
                for v in spec["env_type_constants"]:
                    vals[v], evs[v] = _annotation_value(b, n, inline, v, crate_bodies)
                    reached |= evs[v].seen
                shp = [{"type": vals[v]["type"], "pairs": {k: _value_shape(x) if x is not None else None for k, x in vals[v]["pairs"].items()}}
                       for v in spec["env_type_constants"]]
                shape = shp[0] if all(x == shp[0] for x in shp) else {"type": "?differs by side", "pairs": {}}
                anns.append((b, n, shape, vals, evs))
    return anns, reached


def _sided_annotation_fns(c, spec):
    """Keys of the function that builds the `Environment(value = EnvType.X)` annotation from its Side parameter (by role: the function
    whose Annotation literal has that type), plus private wrappers handing their own Side parameter on to it."""
    anns, _ = _annotation_records(c, spec)
    seeds = set(b["key"] for (b, n, shape, _, _) in anns if shape["type"] == spec["annotations"]["sided"]["type"])
    return _forwarders(c, seeds, need_side=True)


def _side_names_and_annotations(c, R, rid, spec):
    mod_bodies = [b for b in c.bodies if _in_mod(b) and isinstance(b.get("body"), dict)]
    roles = {w["type"]: nm for nm, w in spec["annotations"].items()}
    anns, reached = _annotation_records(c, spec)
    # ---- EnvType constant names: every enum-valued element of an annotation, as a function of the side
    n_enum = 0
    for (b, n, shape, vals, evs) in anns:
        role = roles.get(shape["type"], b["name"])
        for pname, sh in sorted(shape["pairs"].items(), key=lambda kv: str(kv[0])):
            if not isinstance(sh, dict) or "enum" not in sh:
                continue
            n_enum += 1
            for v, want in spec["env_type_constants"].items():
                val = vals[v]["pairs"][pname]
                got = val[2].get("const_name") if val[0] == "st" else None
                one_side = len(evs[v].side_locals) == 1
                R.inst(rid, "env-type-name:%s:%s" % (role, v), one_side and got == ("s", want), sp=n["sp"], expect=want,
                       got=(T.show(got) if got else "?") if one_side else "const_name is not a function of one Side value",
                       detail="element `%s` of the %s annotation built in %s" % (pname, role, b["name"]))
    R.anchor(rid, "enum-valued annotation elements carrying the side (Environment.value, EnvironmentInterface.value)", n_enum >= 2)
    for b in mod_bodies:
        for n in H.walk(b["body"]):
            if n.get("k") == "struct" and n.get("variant") == "Enum" and (n.get("adt") or "").endswith("::ElementValue") and id(n) not in reached:
                R.unrecognised(rid, "env-type-name:%s" % b["name"], "ElementValue::Enum literal that no annotation literal of the module "
                               "evaluates to (directly or through a helper call)", n["sp"])
    # ---- annotation shapes
    shapes = [(b, n, s) for (b, n, s, _, _) in anns]
    for nm, want in spec["annotations"].items():
        got = [(b, n, s) for (b, n, s) in shapes if s["type"] == want["type"]]
        ok = len(got) == 1 and got[0][2]["pairs"] == want["pairs"]
        R.inst(rid, "annotation:%s" % nm, ok, sp=got[0][1]["sp"] if got else None, expect=want, got=[s for (_, _, s) in got] or [s for (_, _, s) in shapes],
               detail="annotation type and element names/kinds as declared by the Fabric API")
    for (b, n, s) in shapes:
        if s["type"] not in [w["type"] for w in spec["annotations"].values()]:
            R.inst(rid, "annotation:unknown-type:%s" % b["name"], False, sp=n["sp"], got=s,
                   detail="an annotation of a type that is not one of Environment / EnvironmentInterface / EnvironmentInterfaces")
    # the `itf` element names the interface parameter
    mk = [a for a in anns if a[2]["type"] == spec["annotations"]["interface"]["type"]]
    if R.anchor(rid, "function building the EnvironmentInterface annotation", len(mk) == 1):
        b, n, shape, vals, evs = mk[0]
        ok = True
        got = {}
        for v in spec["env_type_constants"]:
            val = vals[v]["pairs"].get("itf")
            got[v] = T.show(val) if val is not None else None
            ok = ok and val is not None and val[0] == "v" and val[1] == "Class" and len(val[2]) == 1 and "$arg" in T.show(val[2][0])
        R.inst(rid, "annotation:interface:itf-is-the-interface", ok, sp=b["sp"], got=got, expect="ElementValue::Class(<descriptor of the interface parameter>)",
               detail="`itf` must be the class of the one-sided interface")
    # ---- class-level marking helper
    vs = _find_fn(c, "visit_sided_annotation", lambda b: any("Side" in t for t in b["inputs"]) and "ClassFile" in (b.get("output") or ""))
    if R.anchor(rid, "fn dukebox::merge::visit_sided_annotation", vs):
        _mark_check(R, rid, "class-marking:visit_sided_annotation", vs["body"], H.param_ids(vs), vs["inputs"], vs["sp"], via="read",
                    sided=_sided_annotation_fns(c, spec))


def _success_value(e):
    """`X?`, `match X { Ok(v) => v, Err(e) => return Err(..) }` and `if let Ok(v) = X { v } else { return .. }` all stand for the
    value X yields on success: -> X"""
    for _ in range(4):
        e = H.peel(e, tries=True)
        k = e.get("k")
        if k == "match" and len(e["arms"]) == 2:
            good = [a for a in e["arms"] if (H.pat_variant(a["pat"]) or (None, None))[1] in ("Ok", "Some") and len(H.pat_bindings(a["pat"])) == 1
                    and H.local_of(H.peel(a["body"])) and H.local_of(H.peel(a["body"]))[0] == H.pat_bindings(a["pat"])[0][0] and "guard" not in a]
            bad = [a for a in e["arms"] if a not in good and H.diverges(a["body"])]
            if len(good) == 1 and len(bad) == 1:
                e = e["scrut"]
                continue
        if k == "if" and "else" in e and H.peel(e["cond"], refs=False).get("k") == "letexpr" and H.diverges(e["else"]):
            le = H.peel(e["cond"], refs=False)
            bs = H.pat_bindings(le["pat"])
            if (H.pat_variant(le["pat"]) or (None, None))[1] in ("Ok", "Some") and len(bs) == 1 and H.local_of(H.peel(e["then"])) \
                    and H.local_of(H.peel(e["then"]))[0] == bs[0][0]:
                e = le["init"]
                continue
        return e
    return e


def _binding_init(body, lid):
    """initialiser of the local `lid`: `let x = init`, or `let Ok(x) = init else { <diverges> }` (the success value of init)"""
    init = H.let_init_of(body, lid)
    if init is not None:
        return _success_value(init)
    for n in H.walk(body):
        if n.get("k") == "let" and "init" in n and "els" in n and (H.pat_variant(n["pat"]) or (None, None))[1] in ("Ok", "Some"):
            bs = H.pat_bindings(n["pat"])
            if len(bs) == 1 and bs[0][0] == lid:
                return _success_value(n["init"])
    return None


def _mark_check(R, rid, key, body, pids, input_tys, sp, via, sided):
    """`body` clones/reads its element parameter into a local, pushes sided_annotation(<its Side parameter>) onto one of the
    local's annotation lists and returns Ok(local).  `sided` = keys of the functions building the Environment annotation."""
    side_p = [p for p, t in zip(pids, input_tys) if "Side" in (t or "")]
    elem_p = [p for p, t in zip(pids, input_tys) if "Side" not in (t or "")]
    pushes = []
    for n in H.walk(body):
        if n.get("k") == "mcall" and n["name"] == "push" and len(n["args"]) == 1:
            arg = H.peel(_resolve_plain_local(n["args"][0], body))      # `let a = sided_annotation(side); list.push(a)`
            if arg.get("k") == "call" and (arg.get("callee") or {}).get("key") in sided:
                pushes.append((n, arg))
    ok = False
    got = None
    if len(pushes) == 1 and len(side_p) == 1 and len(elem_p) == 1:
        n, arg = pushes[0]
        root, path = H.place_root(n["recv"])
        for _ in range(3):
            # `let list = &mut e.runtime_visible_annotations; list.push(..)`: a mutable borrow of a place is that place
            al = H.let_init_of(body, root[0]) if root else None
            if al is None or al.get("k") != "ref" or not al.get("mut") or H.peel(al).get("k") not in ("field", "path"):
                break
            r2, p2 = H.place_root(al)
            if r2 is None:
                break
            root, path = r2, p2 + path
        a0 = ([H.local_of(x) for x in arg["args"] if H.local_of(x) and H.local_of(x)[0] in side_p] or [None])[0]
        v = H.peel(_value_of(body))
        ret_ok = False
        if v.get("k") == "call" and (H.ctor_of(v) or (None, None))[1] == "Ok" and root:
            r0 = H.local_of(v["args"][0])
            ret_ok = bool(r0) and r0[0] == root[0]
        init = _binding_init(body, root[0]) if root else None
        init_ok = False
        if init is not None:
            rr = H.recv_root(init)
            names = [x["name"] for x in H.walk(init) if x.get("k") == "mcall"]
            init_ok = bool(rr) and rr[0] == elem_p[0] and via in names
        got = {"list": path, "side-arg": a0[1] if a0 else None, "returns-marked-value": ret_ok, "marked-value-is-the-element": init_ok}
        ok = (len(path) == 1 and path[0] in ("runtime_visible_annotations", "runtime_invisible_annotations")
              and a0 is not None and a0[0] == side_p[0] and ret_ok and init_ok)
    R.inst(rid, key, ok, sp=sp, got=got,
           expect="let mut e = <element>.%s(); e.runtime_(in)visible_annotations.push(sided_annotation(<side parameter>)); Ok(e)" % via)
    # the mark is added whatever the element already carries (seed C13-9: `if !annotations.iter().any(|a| a.annotation_type == ENVIRONMENT)
    # { push }` leaves an element that already has the OTHER side's annotation unmarked): no condition other than the error exit of a
    # `?` / `bail!` lies on the path to the push, and it is not inside a loop or closure of its own
    for n, _ in pushes[:1] if len(pushes) == 1 else []:
        conds = H.path_conditions(body, n, skip_error_exits=True)
        inside = [p.get("k") for p in (H.parents_of(body, n) or []) if p.get("k") in ("for", "loop", "closure")]
        R.inst(rid, key + ":unconditional", not conds and not inside, sp=n.get("sp"),
               expect="the side annotation is pushed for every element that reaches this function",
               got=[(k, H.render(cn)[:90] if k != "arm" else "match arm #%s of %s" % (p, H.render(cn["scrut"])[:50]), p) for k, cn, p in conds] + inside,
               detail="an element present on one side only is marked with that side, whatever annotations it already has")


# ------------------------------------------------------------------------------------ R13.3
def _conforms(fname, names, types):
    """the output field is built from the same-named input field, and from no other field that could be mistaken for it
    (same type); `*` = the whole input value"""
    if fname not in names:
        return False
    for g in names:
        if g == fname:
            continue
        if g == "*" or g not in types or types.get(g) == types.get(fname):
            return False
    return True


def r13_3(c, duke, R, spec):
    rid = "R13.3"
    R.rule(rid, "class_merger_merge(client, server): every field of the ClassFile literal is built from the same-named field of client "
                "and/or server and from no other field (a constant is a drop); interfaces, fields and methods are built from both sides, "
                "passed in (client, server) order; members are keyed by (name, descriptor); the explicit fields of the merged Field / "
                "Method literal come from the same-named field of the two members and the rest from one of them; a one-sided field / "
                "method is a clone marked with sided_annotation(its side); a one-sided interface is listed under its own side")
    fn = _find_fn(c, "class_merger_merge", lambda b: len(b["inputs"]) == 2 and all(t.endswith("::ClassFile") for t in b["inputs"]))
    if not R.anchor(rid, "fn dukebox::merge::class_merger_merge", fn):
        return
    body = fn["body"]
    pids = H.param_ids(fn)
    lits = [n for n in H.walk(body) if n.get("k") == "struct" and (n.get("adt") or "").endswith("::class::ClassFile")]
    adt = duke.adts.get("duke::tree::class::ClassFile")
    if not (R.anchor(rid, "ClassFile literal in class_merger_merge", len(lits) == 1, sp=fn["sp"]) and R.anchor(rid, "struct duke::tree::class::ClassFile", adt)):
        return
    lit = lits[0]
    all_fields = [f["name"] for f in adt["variants"][0]["fields"]]
    ftypes = {f["name"]: f["ty"] for f in adt["variants"][0]["fields"]}

    def sources(e, roots, scope, depth=0, seen=None):
        """{(root index, first field)} of every place rooted at one of `roots`, following local lets of `scope`."""
        seen = set() if seen is None else seen
        out = set()
        for n, parents in H.walk_with_parents(e):
            if n.get("k") == "path" and n["res"].get("r") == "local":
                lid = n["res"]["id"]
                if lid in roots:
                    par = parents[-1] if parents else None
                    # climb over refs / derefs to the field projection
                    j = len(parents) - 1
                    while j >= 0 and parents[j].get("k") in ("ref", "un"):
                        j -= 1
                    par = parents[j] if j >= 0 else None
                    if par is not None and par.get("k") == "field":
                        out.add((roots.index(lid), par["name"]))
                    else:
                        out.add((roots.index(lid), "*"))
                elif lid not in seen and depth < 4:
                    init = H.let_init_of(scope, lid)
                    if init is not None:
                        seen.add(lid)
                        out |= sources(init, roots, scope, depth + 1, seen)
        return out

    explicit = {f["name"]: f["e"] for f in lit["fields"]}
    base = lit.get("base") if isinstance(lit.get("base"), dict) else None
    for fname in all_fields:
        key = "field:ClassFile.%s" % fname
        if fname not in explicit:
            ok = base is not None and sources(base, pids, body) and all(f == "*" for _, f in sources(base, pids, body))
            R.inst(rid, key, bool(ok), sp=lit["sp"], detail="field not listed: must come from a `..client` / `..server` base")
            continue
        e = explicit[fname]
        src = sources(e, pids, body)
        names = sorted(set(f for _, f in src))
        if not src:
            R.inst(rid, key, False, sp=e["sp"], expect="built from client.%s and/or server.%s" % (fname, fname), got=H.render(e)[:80],
                   detail="the field is a constant: the attribute of both inputs is dropped from the merged class")
            continue
        R.inst(rid, key, _conforms(fname, names, ftypes), sp=e["sp"],
               expect="client.%s / server.%s, and no other field of the same type (a field of a different type can only enter through a "
                      "transformation, e.g. the interface lists feeding the EnvironmentInterfaces annotation)" % (fname, fname),
               got=sorted("%s.%s" % (("client", "server")[s], f) for s, f in src))
        if fname in spec["union_fields"]:
            R.inst(rid, "union:ClassFile.%s" % fname, sorted(s for s, f in src if f == fname) == [0, 1], sp=e["sp"],
                   got=sorted(("client", "server")[s] for s, f in src if f == fname),
                   detail="the merged class contains the %s of either side" % fname)

    # ---- merge_slice / merge_preserve_order call sites: (client, server) argument order
    for n in H.walk(body):
        if n.get("k") == "call" and H.callee_name(n) in ("merge_slice", "merge_preserve_order") and len(n["args"]) >= 2:
            s0 = sources(n["args"][0], pids, body)
            s1 = sources(n["args"][1], pids, body)
            f0 = sorted(set(f for _, f in s0))
            what = f0[0] if len(f0) == 1 else "?"
            ok = len(s0) == 1 and len(s1) == 1 and list(s0)[0][0] == 0 and list(s1)[0][0] == 1 and list(s0)[0][1] == list(s1)[0][1]
            R.inst(rid, "sides:%s(ClassFile.%s)" % (H.callee_name(n), what), ok, sp=n["sp"],
                   expect="(&client.%s, &server.%s, ..)" % (what, what), got=[sorted(s0), sorted(s1)],
                   detail="merge_slice marks elements missing from its second list CLIENT and from its first list SERVER")
            if H.callee_name(n) != "merge_slice" or len(n["args"]) != 5:
                continue
            # the three callbacks: closures written in place, closures held in a local, or `fn` items passed by name
            keycl, sidecl, innercl = [_callable(a, body, (c, duke)) for a in n["args"][2:5]]
            # key
            if keycl is not None and len(_closure_params(keycl)) == 1 and len(_closure_params(keycl)[0]) == 1:
                p = _closure_params(keycl)[0][0][0]
                flds = sorted(set(f for _, f in sources(keycl["body"], [p], keycl["body"])))
                want = sorted(spec["member_identity"].get(what, []))
                R.inst(rid, "key:ClassFile.%s" % what, flds == want and bool(want), sp=keycl["sp"], expect=want, got=flds,
                       detail="two members are the same member iff these fields agree")
            else:
                R.unrecognised(rid, "key:ClassFile.%s" % what, "key function is not a one-parameter closure / fn item of the workspace",
                               (keycl or H.peel(n["args"][2])).get("sp"))
            # side callback
            if what in spec["marked_member_lists"]:
                if sidecl is not None and len(sidecl["params"]) == 2:
                    cps = [b[0][0] if len(b) == 1 else None for b in _closure_params(sidecl)]
                    _mark_check(R, rid, "mark:ClassFile.%s" % what, sidecl["body"], cps, ["elem", "Side"], sidecl["sp"], via="clone",
                                sided=_sided_annotation_fns(c, spec))
                else:
                    R.unrecognised(rid, "mark:ClassFile.%s" % what, "side callback is not a two-parameter closure / fn item of the workspace",
                                   (sidecl or H.peel(n["args"][3])).get("sp"))
            # merged member literal
            if innercl is None and what in spec["marked_member_lists"]:
                R.unrecognised(rid, "merged:ClassFile.%s" % what, "callback merging a member present on both sides is not a closure / fn item "
                               "of the workspace", H.peel(n["args"][4]).get("sp"))
            if innercl is not None and len(innercl["params"]) == 2:
                cps = [b[0][0] if len(b) == 1 else None for b in _closure_params(innercl)]
                mlits = [x for x in H.walk(innercl["body"]) if x.get("k") == "struct" and (x.get("adt") or "").startswith("duke::tree::")
                         and "(" not in (x.get("adt") or "")]
                for ml in mlits:
                    tname = ml["adt"].rsplit("::", 1)[-1]
                    for f in ml["fields"]:
                        src = sources(f["e"], cps, innercl["body"])
                        names = sorted(set(x for _, x in src))
                        mt = duke.adts.get(ml["adt"])
                        mtypes = {x["name"]: x["ty"] for x in mt["variants"][0]["fields"]} if mt else {}
                        R.inst(rid, "field:%s.%s" % (tname, f["name"]), _conforms(f["name"], names, mtypes), sp=f["e"]["sp"],
                               expect="client.%s / server.%s of the two members being merged" % (f["name"], f["name"]),
                               got=sorted("%s.%s" % (("client", "server")[s], x) for s, x in src))
                    b2 = ml.get("base") if isinstance(ml.get("base"), dict) else None
                    madt = duke.adts.get(ml["adt"])
                    nfields = len(madt["variants"][0]["fields"]) if madt else None
                    if b2 is not None or (nfields is not None and nfields != len(ml["fields"])):
                        bs = sources(b2, cps, innercl["body"]) if b2 is not None else set()
                        R.inst(rid, "field:%s.<rest>" % tname, len(bs) == 1 and list(bs)[0][1] == "*", sp=(b2 or ml)["sp"],
                               expect="..client.clone() or ..server.clone()", got=sorted(bs))

    # ---- one-sided interfaces: which side(s) an interface is listed under, as a function of (implemented by client, by server)
    def side_of_local(lid):
        """the Side constant(s) the elements of a local list are later annotated with"""
        out = set()
        for n in H.walk(body):
            if n.get("k") == "mcall" and n["name"] in ("map", "for_each", "flat_map") and n["args"] and H.peel(n["args"][0]).get("k") == "closure":
                rr = H.recv_root(n["recv"])
                if rr and rr[0] == lid:
                    for x in H.walk(H.peel(n["args"][0])["body"]):
                        if _side_ctor(x):
                            out.add(_side_ctor(x))
            elif n.get("k") == "for":
                rr = H.recv_root(n["iter"])
                if rr and rr[0] == lid:
                    for x in H.walk(n["body"]):
                        if _side_ctor(x):
                            out.add(_side_ctor(x))
        return out

    def presence_atom(n):
        n0 = H.peel(_resolve_plain_local(n, body))
        if n0.get("k") == "mcall" and n0["name"] == "contains" and len(n0["args"]) == 1:
            src = sources(n0["recv"], pids, body)
            if len(src) == 1 and list(src)[0][1] == "interfaces":
                return "in:" + ("client", "server")[list(src)[0][0]]
        return None

    def is_presence_table(n):
        if n.get("k") != "match" or H.peel(n["scrut"]).get("k") != "tuple":
            return None
        ats = [presence_atom(e) for e in H.peel(n["scrut"])["es"]]
        return ats if len(ats) == 2 and sorted(a or "" for a in ats) == ["in:client", "in:server"] else None

    def holds(conds, cell):
        """truth of the path conditions for a cell {in:client, in:server}; None if a condition is not understood"""
        for kind, cn, extra in conds:
            if kind == "arm" and is_presence_table(cn):
                ats = is_presence_table(cn)
                val = ("t", [("b", cell[a]) for a in ats])
                chosen = None
                for i, arm in enumerate(cn["arms"]):
                    r = T.match_pat(arm["pat"], val, {})
                    if r is True and "guard" not in arm:
                        chosen = i
                        break
                    if r is not False:
                        return None
                if chosen != extra:
                    return False
            elif kind in ("if", "after-exit"):
                f = B.formula(cn, presence_atom)
                if any(str(x).startswith("?") for x in B.atoms(f)):
                    return None
                if B.ev(f, cell) != bool(extra):
                    return False
            elif kind == "arm":
                continue        # e.g. an enclosing `for`/`match` desugaring unrelated to presence
            else:
                return None
        return True
    # listing sites: pushes onto a list that is annotated with a side later, direct annotations, and filtered lists
    sites = []      # (sides, path conditions | formula, node)
    for n in H.walk(body):
        if n.get("k") == "mcall" and n["name"] in ("push", "insert") and H.local_of(n["recv"]):
            sl = side_of_local(H.local_of(n["recv"])[0])
            if sl:
                sites.append((sl, ("conds", H.path_conditions(body, n)), n))
        elif n.get("k") == "let" and "init" in n and n["pat"].get("k") == "bind" and side_of_local(n["pat"]["id"]):
            ad = []
            x = H.peel(n["init"])
            while x.get("k") == "mcall":
                ad.append(x)
                x = H.peel(x["recv"])
            for m_ in ad:
                if m_["name"] == "filter" and m_["args"] and H.peel(m_["args"][0]).get("k") == "closure":
                    sites.append((side_of_local(n["pat"]["id"]), ("formula", B.formula(_value_of(H.peel(m_["args"][0])["body"]), presence_atom)), m_))
    tables = [n for n in H.walk(body) if is_presence_table(n)]
    if R.anchor(rid, "class_merger_merge: one-sided interface lists (lists filled per interface and annotated with a Side)", len(sites) >= 2, sp=fn["sp"]):
        used = set()
        for sl, how, n in sites:
            if how[0] == "formula":
                used |= set(B.atoms(how[1]))
            else:
                for kind, cn, extra in how[1]:
                    if kind == "arm" and is_presence_table(cn):
                        used |= {"in:client", "in:server"}
                    elif kind in ("if", "after-exit"):
                        used |= set(B.atoms(B.formula(cn, presence_atom)))
        R.inst(rid, "interfaces:presence-from-both-sides", {"in:client", "in:server"} <= used and not any(str(u).startswith("?") for u in used),
               sp=fn["sp"], got=sorted(str(u)[:60] for u in used))
        for (pc, ps, nm, want) in ((True, False, "client-only", {"Client"}), (False, True, "server-only", {"Server"}),
                                   (True, True, "both", set()), (False, False, "neither", set())):
            cell = {"in:client": pc, "in:server": ps}
            got = set()
            undecided = False
            for sl, how, n in sites:
                if how[0] == "formula":
                    if any(str(x).startswith("?") for x in B.atoms(how[1])):
                        undecided = True
                        continue
                    env_ = dict(cell)
                    r = B.ev(how[1], env_)
                else:
                    r = holds(how[1], cell)
                if r is None:
                    undecided = True
                elif r:
                    got |= sl
            R.inst(rid, "interfaces:cell:%s" % nm, got == want and not undecided, sp=fn["sp"],
                   expect=sorted(want) or "not listed", got=(sorted(got) + (["<undecided condition>"] if undecided else [])) or "not listed",
                   detail="an interface implemented on one side only is listed in EnvironmentInterfaces with that side")
    R.floor(rid, 52)


# ------------------------------------------------------------------------------------ R13.4
def r13_4(c, R):
    """Key-space agreement of the in-memory jar that `merge` reads: names() must hand out exactly the keys by_entry_key() understands."""
    rid = "R13.4"
    R.rule(rid, "entries are found under the key their name was listed with: for `&ParsedJar`, entry_keys() is 0..entries.len(), by_entry_key(k) is "
                "entries.get_index(k), and names() walks the same `entries` map front to back with only element-wise adaptors before the single "
                "`enumerate()` (no filter/skip/rev/sort between the map and the index), so index i of names() is position i of get_index")
    impls = [b for b in c.bodies if "storage::parsed" in b["key"] and (b.get("impl_trait_path") or "").endswith("OpenedJar") and b.get("name")]
    by = {b["name"]: b for b in impls}
    if not R.anchor(rid, "impl OpenedJar for &ParsedJar {entry_keys, by_entry_key, names}", all(k in by for k in ("entry_keys", "by_entry_key", "names"))):
        return

    def chain(n):
        """method chain root-first: (root node, [names])"""
        names = []
        n = H.peel(n)
        while n.get("k") == "mcall":
            names.append(n["name"])
            n = H.peel(n["recv"])
        return n, list(reversed(names))

    def tail(b):
        n = H.peel(b["body"])
        while n.get("k") == "block" and "tail" in n and not n["stmts"]:
            n = H.peel(n["tail"])
        return n
    # names()
    root, ch = chain(tail(by["names"]))
    rfields = [f for _, f in H.field_accesses(root)] if root.get("k") == "field" else []
    ELEMENTWISE = {"keys", "iter", "map", "as_str", "as_ref", "cloned", "copied", "inspect", "by_ref", "into_iter"}
    REORDER = {"filter", "filter_map", "skip", "skip_while", "take", "take_while", "rev", "step_by", "chain", "zip", "flat_map", "flatten", "sorted",
               "dedup", "peekable", "scan", "map_while", "cycle", "fuse"}
    bad = [x for x in ch if x in REORDER]
    unknown = [x for x in ch if x not in ELEMENTWISE and x not in REORDER and x != "enumerate"]
    if unknown:
        R.unrecognised(rid, "names()", "iterator adaptor(s) %s between `entries` and the index" % unknown, sp=by["names"]["sp"])
    R.inst(rid, "names:walks-entries", rfields[-1:] == ["entries"], sp=by["names"]["sp"], got=H.render(root))
    R.inst(rid, "names:index-is-map-position", ch.count("enumerate") == 1 and not bad and (not ch or ch.index("enumerate") >= 1), sp=by["names"]["sp"],
           got=ch, expect="entries.keys()/iter() -> element-wise adaptors -> enumerate()",
           detail="an adaptor that drops or reorders elements before enumerate() shifts every later key: by_entry_key(i) then returns another entry")
    # entry_keys(): 0..entries.len()
    t = tail(by["entry_keys"])
    ok = False
    if t.get("k") == "struct" and (t.get("adt") or "").endswith("Range"):
        f = {x["name"]: x["e"] for x in t["fields"]}
        end = H.peel(f.get("end", {}))
        ok = H.const_value(f.get("start", {})) == 0 and end.get("k") == "mcall" and end["name"] == "len" and H.place_root(end["recv"])[1][-1:] == ["entries"]
    R.inst(rid, "entry_keys:0..len", ok, sp=by["entry_keys"]["sp"], got=H.render(t))
    # by_entry_key(k): entries.get_index(k)
    gi = [n for n in H.walk(by["by_entry_key"]["body"]) if n.get("k") == "mcall" and n["name"] == "get_index"]
    ok = False
    if len(gi) == 1:
        kparam = H.param_ids(by["by_entry_key"])
        a = H.local_of(gi[0]["args"][0])
        ok = H.place_root(gi[0]["recv"])[1][-1:] == ["entries"] and bool(a) and a[0] == kparam[-1]
    R.inst(rid, "by_entry_key:get_index(key)", ok, sp=by["by_entry_key"]["sp"])
    R.floor(rid, 4)
