"""C10 — dummy-mapping filters remove exactly the placeholder entries.

R10.1  Mappings::remove_dummy: per level (class, field, method, parameter) the keep-predicate of the `retain` closure is,
       as a truth table, `javadoc present OR child map non-empty OR NOT(name[namespace] present AND placeholder(name))` with the
       placeholder prefixes / constants of the doc comment tested by `starts_with` / `==`; the namespace index is the one looked
       up from the `namespace` argument; child maps are filtered before the parent's predicate reads them; the levels nest
       class > {field, method > parameter}; nothing else is mutated and `self` is returned.
R10.2  MappingsDiff::insert_dummy_and_contract_inner_names: per level the validator table over Action
       (None->keep, Add->drop, Remove(a)->keep and rewrite to Edit(a, placeholder), Edit->keep), the placeholder source per level
       (key.name / p_<key.index> / simple inner name or key), the retention formula
       `(validator AND (info.is_diff OR javadoc.is_diff)) OR child map non-empty`, children first, rewrite before is_diff.
"""
import json
import os

from lib import hir as H
from lib import tables as T
from lib import boolform as B
from lib import c09_util as U
from lib import c06_util as N

SPEC = os.path.join(os.path.dirname(os.path.dirname(os.path.abspath(__file__))), "spec", "dummy_filters.json")
ACTION = "quill::tree::mappings_diff::action::Action"
ORDER = ("class", "field", "method", "parameter")
# value of Namespaces::get_namespace(self, name) as a normal-form term (notation of lib/c06_util)
NS_VALUE = '#Namespace(position($self.names, lam(bin("==", elem($self.names), $name))))'

CLAIM = {
    "text": "Decided on the typed HIR of the two filters: (R10.1) in Mappings::remove_dummy the four nested `retain` closures exist on "
            "self.classes > {fields, methods > parameters}; each closure's keep-predicate is truth-table equivalent to "
            "`javadoc.is_some() OR child map non-empty OR NOT(names[ns] is Some AND placeholder)` where placeholder is exactly "
            "starts_with(\"C_\")|starts_with(\"net/minecraft/unmapped/C_\") for classes, starts_with(\"f_\") for fields, "
            "starts_with(\"m_\")|==<init>|==<clinit> for methods, starts_with(\"p_\") for parameters (prefix test, not contains/ends_with; "
            "constants const-evaluated), every atom reads the closure's own node, the names index is the Namespace obtained from "
            "get_namespace(<namespace argument>) (which returns the position of the equal name), each child `retain` is evaluated before the "
            "parent's `is_empty` test, no assignment or removing call other than `retain` occurs and Ok(self) is returned; "
            "(R10.2) in MappingsDiff::insert_dummy_and_contract_inner_names, for each of the four levels, the validator match over Action is "
            "None->true, Add->false, Remove(a)->true with the single rewrite `node.info = Edit(a, placeholder)`, Edit->true, with no rewrite "
            "in the other arms; the placeholder is key.name (field, method), \"p_\" followed by key.index (parameter), "
            "get_inner_class_name() or else the key (class); the retain predicate is truth-table equivalent to "
            "`(validator AND (info.is_diff() OR javadoc.is_diff())) OR child map non-empty`; child retains precede the parent's is_empty "
            "test, the rewrite precedes info.is_diff(), nothing else is assigned or removed; Action::is_diff is false exactly for None and "
            "Edit(x, x) (5 cells); Ok(self) is returned. Oracle: spec/dummy_filters.json.",
    "note": "Not decided: idempotence and the exact set of removed entries as a law over all runtime mapping sets / diffs, behaviour of "
            "IndexMap::retain, Option::is_some_and, JavaStr::starts_with, get_inner_class_name (trusted library / other "
            "properties), output of the eprintln! diagnostics. Trusted: rustc HIR/typeck/const-eval, the FormatArgs templates of the driver, "
            "JavaString::from / ParameterName::from_inner_unchecked keep the string, spec/dummy_filters.json (transcribed from the doc "
            "comment of remove_dummy and the property statement).",
    "technique": "static analysis: boolean keep-predicates compared by truth table (lib/boolform.py), decision-table extraction of the "
                 "Action validator by pattern-matrix evaluation (lib/tables.py), evaluation-order and nesting checks on the typed HIR",
}


def run(F, R, tier):
    with open(SPEC) as f:
        spec = json.load(f)
    q = F.crate("quill")
    r10_1(q, R, spec["remove_dummy"])
    r10_2(q, R, spec["insert_dummy"])
    return ("keep-predicates of the 4+4 nested retain closures compared by truth table with the documented rule; placeholder "
            "prefixes/constants, namespace index provenance, children-before-parent evaluation order; Action validator table "
            "(16 cells) with the rewrite of Remove to Edit(old, placeholder) and the placeholder source per level; oracle: "
            "spec/dummy_filters.json (doc comment of remove_dummy + property statement)")


# ===================================================================================== level discovery
def _plain(path):
    return [p for p in path if not p.startswith(".")]


def _retains_on(scope, root_id, field, into_closures):
    out = []
    for n in H.walk(scope, into_closures=into_closures):
        if n.get("k") == "mcall" and n["name"] == "retain":
            root, path = H.place_root(n["recv"])
            if root and root[0] == root_id and _plain(path) == [field]:
                out.append(n)
    return out


def _as_closure(q, arg):
    """The predicate handed to `retain` as a closure node, whatever the spelling: a closure, a function of the crate passed by name
    (`retain(helper)`: the closure `|k, v| helper(k, v)`, i.e. the helper's parameters and body), or a closure that only forwards its
    parameters to such a function (`retain(|k, v| helper(k, v))`)."""
    def of_fn(res):
        fb = q.by_key.get(res.get("inst_key")) or q.by_key.get(res.get("key"))
        if fb is not None and isinstance(fb.get("body"), dict) and res.get("dk") in ("Fn", "AssocFn"):
            return {"k": "closure", "params": fb["params"], "body": fb["body"], "sp": fb.get("sp"), "key": fb.get("key"), "from_fn": True}
        return None
    if arg.get("k") == "path" and arg["res"].get("r") == "def":
        return of_fn(arg["res"]) or arg
    if arg.get("k") == "closure":
        b = H.peel(arg["body"], refs=False)
        if b.get("k") == "call" and (b.get("callee") or {}).get("r") == "def" and len(b["args"]) == len(arg["params"]):
            pids = [p.get("id") if p.get("k") == "bind" else None for p in arg["params"]]
            aids = [(H.local_of(a) or (None,))[0] for a in b["args"]]
            if None not in pids and pids == aids:
                return of_fn(b["callee"]) or arg
    return arg


def _levels(R, rid, q, fn, self_id, spec_levels, need_key):
    """level -> {retain, closure, k (id or None), v (id), body}. Missing/odd shapes -> anchor / unrecognised (fail closed)."""
    out = {}
    for lv in ORDER:
        sl = spec_levels[lv]
        if sl["parent"] is None:
            cands = _retains_on(fn["body"], self_id, sl["map"], True)
        else:
            par = out.get(sl["parent"])
            if par is None:
                continue
            cands = _retains_on(par["closure"], par["v"], sl["map"], False)
        if not R.anchor(rid, "%s level: `%s.%s.retain(..)`" % (lv, sl["parent"] or "self", sl["map"]), len(cands) == 1, sp=fn["sp"]):
            continue
        rt = cands[0]
        clo = _as_closure(q, H.peel(rt["args"][0])) if rt["args"] else {}
        if clo.get("k") != "closure" or len(clo.get("params", [])) != 2:
            R.unrecognised(rid, "level:" + lv, "retain argument is not a two-parameter closure: %s" % H.render(clo)[:120], rt["sp"])
            continue
        pk, pv = clo["params"]
        if pv.get("k") != "bind" or (need_key and pk.get("k") != "bind"):
            R.unrecognised(rid, "level:" + lv, "retain closure parameters are not plain bindings", clo["sp"])
            continue
        ok_ty = sl["node"] in (pv.get("ty") or "")
        R.inst(rid, "level-node:" + lv, ok_ty, sp=clo["sp"], expect="&mut " + sl["node"], got=pv.get("ty"), nontrivial=False)
        out[lv] = {"retain": rt, "closure": clo, "k": pk.get("id") if pk.get("k") == "bind" else None, "v": pv["id"], "body": clo["body"]}
    return out


def _closure_formula(body, atom):
    """Boolean formula of a predicate closure body: the tail expression, with early exits folded in —
    `if c { return x; } rest`  ==  if c then x else rest."""
    b = H.peel(body, refs=False)
    if b.get("k") != "block":
        return B.formula(b, atom)
    f = B.formula(b["tail"], atom) if "tail" in b else ("atom", "?no-result")
    for st in reversed(b["stmts"]):
        s0 = H.peel(st, refs=False)
        if s0.get("k") == "if" and "else" not in s0:
            r = _returned(s0["then"])
            if r is not None:
                f = ("ite", B.formula(s0["cond"], atom), B.formula(r, atom), f)
        elif s0.get("k") == "ret" and "e" in s0:
            f = B.formula(s0["e"], atom)
    return f


def _returned(blk):
    """expression returned by a block that consists of `return e` only"""
    b = H.peel(blk, refs=False)
    if b.get("k") == "block":
        items = b["stmts"] + ([b["tail"]] if "tail" in b else [])
        if len(items) != 1:
            return None
        b = H.peel(items[0], refs=False)
    if b.get("k") == "ret" and "e" in b:
        return b["e"]
    return None


def _result_expr(body):
    """The expression a closure body evaluates to (tail of its block)."""
    b = H.peel(body, refs=False)
    if b.get("k") == "block":
        return b.get("tail")
    return b


def _children_first(R, rid, lv, L, children, empties):
    pos = U.preorder_pos(L["closure"])
    for c in children:
        rts = _retains_on(L["closure"], L["v"], c, False)
        es = empties.get(c, [])
        if not rts or not es:
            R.inst(rid, "children-first:%s.%s" % (lv, c), False, sp=L["closure"]["sp"],
                   detail="no `%s.retain(..)` or no `%s.is_empty()` found at this level" % (c, c))
            continue
        ok = max(pos[id(x)] for x in rts) < min(pos[id(x)] for x in es)
        early = [x for x in H.walk(L["closure"], into_closures=False) if x.get("k") == "ret" and pos[id(x)] < max(pos[id(y)] for y in rts)]
        R.inst(rid, "children-first:%s.%s" % (lv, c), ok and not early, sp=(early[0] if early else rts[0])["sp"],
               detail=("an early `return` leaves the closure before the `%s` map is filtered" % c) if early else
               "the `%s` map must be filtered before the parent's keep-predicate reads `%s.is_empty()` (bottom-up removal)" % (c, c))


def _returns_self(R, rid, fn, self_id):
    res = H.peel(_result_expr(fn["body"]) or {}, refs=False)
    ok = False
    if res.get("k") == "call" and (H.ctor_of(res) or (None, None))[1] == "Ok" and len(res["args"]) == 1:
        l = H.local_of(res["args"][0])
        ok = bool(l) and l[0] == self_id
    R.inst(rid, "returns-self", ok, sp=fn["sp"], expect="Ok(self)", got=H.render(res)[:120], nontrivial=False)


# ===================================================================================== R10.1
REMOVING = {"clear", "remove", "swap_remove", "shift_remove", "swap_remove_entry", "shift_remove_entry", "pop", "drain", "truncate",
            "take", "insert", "retain_mut", "split_off", "swap_remove_index", "shift_remove_index", "extend", "replace"}


def r10_1(q, R, spec):
    rid = "R10.1"
    R.rule(rid, "remove_dummy: per level keep = javadoc present OR child map non-empty OR NOT(name in the given namespace is present AND "
                "is a placeholder: documented prefixes via starts_with, <init>/<clinit> via ==); own node's fields; namespace index from "
                "get_namespace(namespace argument); children filtered before the parent predicate; only `retain` mutates; returns Ok(self)")
    fn = q.fn("remove_dummy", within="action::remove_dummy")
    if not R.anchor(rid, "fn Mappings::remove_dummy", fn):
        return
    pids = H.param_ids(fn)
    if not R.anchor(rid, "remove_dummy(self, namespace)", len(pids) == 2, sp=fn["sp"]):
        return
    self_id, ns_param = pids
    levels = _levels(R, rid, q, fn, self_id, spec["levels"], need_key=False)
    lookup_keys = set()
    for lv in ORDER:
        L = levels.get(lv)
        if L is None:
            continue
        sl = spec["levels"][lv]
        rec = {"empty": {}, "ns": [], "foreign": []}
        f = _closure_formula(L["body"], _remove_atom(L, rec, q, fn["body"]))
        name = ("atom", "name-present")
        tests = [("atom", "prefix:" + p) for p in sl["prefixes"]] + [("atom", "eq:" + e) for e in sl["equals"]]
        ph = tests[0]
        for t in tests[1:]:
            ph = ("or", ph, t)
        ref = ("atom", "javadoc")
        for c in sl["children"]:
            ref = ("or", ref, ("not", ("atom", "empty:" + c)))
        ref = ("or", ref, ("not", ("and", name, ph)))
        eq, cex = B.equivalent(f, ref)
        R.inst(rid, "keep:" + lv, eq, sp=L["closure"]["sp"], expect=B.show(ref), got=B.show(f),
               detail=None if eq else "differs for %s" % ", ".join("%s=%s" % kv for kv in sorted(cex.items())))
        # the names index is the namespace looked up from the argument
        ok_ns = bool(rec["ns"])
        got_ns = []
        for ix in rec["ns"]:
            l = H.local_of(ix)
            init = H.let_init_of(fn["body"], l[0]) if l else None
            src = H.peel(init, tries=True) if init is not None else {}
            while src.get("k") == "mcall" and src["name"] in ("context", "with_context"):      # anyhow context only decorates the error
                src = H.peel(src["recv"], tries=True)
            good = False
            if src.get("k") == "mcall" and len(src["args"]) == 1 and (src.get("callee") or {}).get("key") in q.by_key:
                root, _ = H.place_root(src["recv"])
                a = H.local_of(src["args"][0])
                good = bool(root) and root[0] == self_id and bool(a) and a[0] == ns_param
                if good:
                    lookup_keys.add(src["callee"]["key"])
            got_ns.append(H.render(init) if init is not None else H.render(ix))
            ok_ns = ok_ns and good
        R.inst(rid, "ns-index:" + lv, ok_ns, sp=L["closure"]["sp"], expect="names[self.get_namespace(namespace)?]", got=got_ns,
               detail="'only depends on the mapping in the namespace given'")
        _children_first(R, rid, lv, L, sl["children"], rec["empty"])
    # Mappings::get_namespace -> Namespaces::get_namespace -> position of the equal name
    _ns_lookup(q, R, rid, lookup_keys)
    # nothing else is changed
    bad = []
    for n in H.walk(fn["body"]):
        if n.get("k") in ("assign", "assignop"):
            bad.append(H.render(n)[:80])
        elif n.get("k") == "mcall" and n["name"] in REMOVING:
            root, _ = H.place_root(n["recv"])
            if root:
                bad.append(H.render(n)[:80])
    R.inst(rid, "only-retain-mutates", not bad, sp=fn["sp"], got=bad, expect="no assignment / removing call besides retain",
           detail="'returns every other entry unchanged'")
    _returns_self(R, rid, fn, self_id)
    R.floor(rid, 19)


def _remove_atom(L, rec, q=None, fn_body=None):
    """Atoms of a remove_dummy keep-predicate.  The name test may be written as
      names[ns].as_ref().is_some_and(P) / .is_none_or(P) / .map_or(const, P)   with P a closure, a let-bound closure or a function,
      match &names[ns] { Some(x) => F(x), None => G }   /   if let Some(x) = &names[ns] { F(x) } else { G }
    and, inside, `x.as_inner().starts_with(lit)`, `x == CONST` (literal or named constant, consts arrive evaluated)."""
    v_id = L["v"]
    root_body = L["body"]
    name_ids = set()          # locals bound to the (present) name of this node

    def names_place(e):
        """index node when `e` is `<this node>.info.names[<ns>]` (through as_ref / refs), 'other' for another node's names, else None"""
        root, path = H.place_root(e)
        if _plain(path) != ["info", "names", "[]"]:
            return None
        if not (root and root[0] == v_id):
            return "other"
        ix = [x for x in H.walk(e) if x.get("k") == "index"]
        return ix[0] if len(ix) == 1 else None

    def predicate(arg):
        """(param id, body) of the predicate passed to is_some_and & co."""
        c = H.peel(arg)
        if c.get("k") == "path" and c["res"].get("r") == "local":
            for scope in (root_body, fn_body):
                init = H.let_init_of(scope, c["res"]["id"]) if scope is not None else None
                if init is not None:
                    c = H.peel(init)
                    break
        if c.get("k") == "closure" and len(c["params"]) == 1 and c["params"][0].get("k") == "bind":
            return c["params"][0]["id"], c["body"]
        if c.get("k") == "path" and c["res"].get("r") == "def" and q is not None and c["res"].get("key") in q.by_key:
            fb = q.by_key[c["res"]["key"]]
            ids = H.param_ids(fb)
            if len(ids) == 1:
                return ids[0], fb["body"]
        return None

    def some_none_arms(n):
        """match on Option: (binding ids of Some(..), Some-arm body, None-arm body)"""
        some_arm = none_arm = None
        for a in n["arms"]:
            if "guard" in a:
                return None
            v = H.pat_variant(a["pat"])
            if v and v[1] == "Some" and some_arm is None:
                some_arm = a
            elif (v and v[1] == "None") or H.pat_peel(a["pat"]).get("k") == "wild":
                none_arm = none_arm or a
            else:
                return None
        if some_arm is None or none_arm is None:
            return None
        return [i for i, _ in H.pat_bindings(some_arm["pat"])], some_arm["body"], none_arm["body"]

    def atom(n):
        k = n.get("k")
        if k == "path" and n["res"].get("r") == "local":
            init = H.let_init_of(root_body, n["res"]["id"])
            if init is not None:
                return B.formula(init, atom)
            return None
        if k == "letexpr":                       # `if let Some(x) = &names[ns]`
            ix = names_place(n["init"])
            v = H.pat_variant(n["pat"])
            if isinstance(ix, dict) and v and v[1] == "Some":
                rec["ns"].append(ix["i"])
                name_ids.update(i for i, _ in H.pat_bindings(n["pat"]))
                return ("atom", "name-present")
            if ix == "other":
                return ("atom", "name-of-another-node:" + H.render(n["init"]))
            return None
        if k == "match":
            ix = names_place(n["scrut"])
            arms = some_none_arms(n) if isinstance(ix, dict) else None
            if arms:
                rec["ns"].append(ix["i"])
                name_ids.update(arms[0])
                return ("ite", ("atom", "name-present"), B.formula(arms[1], atom), B.formula(arms[2], atom))
            if ix == "other":
                return ("atom", "name-of-another-node:" + H.render(n["scrut"]))
            return None
        if k == "bin" and n["op"] in ("==", "!="):
            for a, b in ((n["l"], n["r"]), (n["r"], n["l"])):
                l = H.local_of(a)
                val = H.const_value(b)
                if l and l[0] in name_ids and isinstance(val, str):
                    f = ("atom", "eq:" + val)
                    return f if n["op"] == "==" else ("not", f)
            return None
        if k != "mcall":
            return None
        nm = n["name"]
        root, path = H.place_root(n["recv"])
        pp = _plain(path)
        if nm in ("starts_with", "ends_with", "contains") and len(n["args"]) == 1:
            lit = H.const_value(n["args"][0])
            if root and root[0] in name_ids and not pp and isinstance(lit, str):
                return ("atom", ("prefix:" if nm == "starts_with" else nm + ":") + lit)
            return None
        if nm in ("is_some", "is_none") and pp == ["javadoc"]:
            if not (root and root[0] == v_id):
                return ("atom", "javadoc-of-another-node:" + H.render(n["recv"]))
            f = ("atom", "javadoc")
            return f if nm == "is_some" else ("not", f)
        if nm == "is_empty" and len(pp) == 1:
            if not (root and root[0] == v_id):
                return ("atom", "child-map-of-another-node:" + H.render(n["recv"]))
            rec["empty"].setdefault(pp[0], []).append(n)
            return ("atom", "empty:" + pp[0])
        if nm in ("is_some_and", "is_none_or", "map_or"):
            ix = names_place(n["recv"])
            if ix == "other":
                return ("atom", "name-of-another-node:" + H.render(n["recv"]))
            pred = predicate(n["args"][-1]) if (isinstance(ix, dict) and n["args"]) else None
            if pred is None:
                return None
            rec["ns"].append(ix["i"])
            name_ids.add(pred[0])
            inner = B.formula(pred[1], atom)
            some = ("atom", "name-present")
            if nm == "is_some_and":
                return ("and", some, inner)
            if nm == "is_none_or":
                return ("or", ("not", some), inner)
            d = H.const_value(n["args"][0])
            if isinstance(d, bool) and len(n["args"]) == 2:
                return ("ite", some, inner, ("const", d))
        return None
    return atom


def _ns_lookup(q, R, rid, outer_keys):
    """The function that turns the `namespace` argument into the names index (found by role: it is what remove_dummy calls),
    followed through delegation to the function that searches the namespace names."""
    outer = q.by_key.get(sorted(outer_keys)[0]) if len(outer_keys) == 1 else q.fn("get_namespace", impl_ty="quill::tree::mappings::Mappings<")
    if not R.anchor(rid, "fn Mappings::get_namespace (called by remove_dummy for the `namespace` argument)", outer):
        return
    # outer delegates to self.info.namespaces.<lookup>(name): compared as a normal-form term (locals inlined, `?` / context transparent);
    # the lookup function is the crate function that call resolves to
    ok, got, inner = False, None, None
    if len(H.param_ids(outer)) == 2:
        local_calls = [n for n in H.walk(outer["body"]) if n.get("k") in ("call", "mcall") and
                       ((n.get("callee") or {}).get("inst_key") in q.by_key or (n.get("callee") or {}).get("key") in q.by_key)]
        if len(local_calls) == 1:
            c = local_calls[0].get("callee") or {}
            inner = q.by_key.get(c.get("inst_key")) or q.by_key.get(c.get("key"))
        act = N.result_term(N.Norm(outer, ["self", "name"]))
        got = N.show(act) if act is not None else None
        ok = inner is not None and act == N.parse("%s($self.info.namespaces, $name)" % inner["name"], N.build_env(["self", "name"]))
    R.inst(rid, "ns-lookup:Mappings.get_namespace", ok, sp=outer["sp"], expect="self.info.namespaces.get_namespace(name)", got=got)
    if inner is None:
        inner = q.fn("get_namespace", impl_ty="quill::tree::names::Namespaces<")
    if not R.anchor(rid, "fn Namespaces::get_namespace", inner):
        return
    pids = H.param_ids(inner)
    ok, got = False, None
    want = N.parse(NS_VALUE, N.build_env(["self", "name"]))
    if len(pids) == 2:
        # normal form of the function's value (lib/c06_util): a search loop with early return, `position` followed by
        # match / if let / let-else / `?` / `.map(Namespace).context(..)`, `Namespace(i)` / `Self(i)` all give the same term;
        # the not-found exit must be an error (a default index would show up as orelse / case / if in the term)
        act = N.result_term(N.Norm(inner, ["self", "name"]))
        got = N.show(act) if act is not None else "<a `return` inside a construct that is not a search loop>"
        ok = act == want
        if _other_than_loop_counters(inner["body"], U.unmodelled_mutations(inner["body"])):
            ok, got = False, "mutation in the lookup function"
    R.inst(rid, "ns-lookup:Namespaces.get_namespace", ok, sp=inner["sp"], got=got,
           expect="%s: Ok(Namespace(i)) for the position i of the first name equal to the argument, otherwise an error" % N.show(want),
           detail="the namespace id is the position of the equal name")


def _other_than_loop_counters(root, muts):
    """mutations that are not the bookkeeping of an index loop: a local declared `let mut i = 0` whose only assignments are `i += 1`
    (`while i < N { ..; i += 1; }`) is a loop counter; the normal-form term treats it as the position of the search loop."""
    counters = set()
    for n in H.walk(root):
        if n.get("k") == "let" and n.get("pat", {}).get("k") == "bind" and "init" in n and H.const_value(n["init"]) == 0:
            lid = n["pat"]["id"]
            writes = [x for x in H.walk(root) if x.get("k") in ("assign", "assignop") and (H.place_root(x["l"])[0] or (None,))[0] == lid]
            if writes and all(x["k"] == "assignop" and x.get("op") in ("+=", "+") and H.const_value(x["r"]) == 1 and H.local_of(x["l"]) for x in writes) \
                    and not any(x.get("k") == "ref" and x.get("mut") and (H.local_of(x["e"]) or (None,))[0] == lid for x in H.walk(root)):
                counters.add(lid)
    out = []
    for m in muts:
        if m.get("k") == "let" and m.get("pat", {}).get("k") == "bind" and m["pat"]["id"] in counters:
            continue
        if m.get("k") in ("assign", "assignop") and (H.place_root(m["l"])[0] or (None,))[0] in counters:
            continue
        out.append(m)
    return out


# ===================================================================================== R10.2
def r10_2(q, R, spec):
    rid = "R10.2"
    R.rule(rid, "insert_dummy_and_contract_inner_names: per level validator(Action) = None->keep, Add->drop, Remove(a)->keep + "
                "`info = Edit(a, placeholder)`, Edit->keep; placeholder = key.name (field, method) / \"p_\"+key.index (parameter) / "
                "get_inner_class_name() or the key (class); retain = (validator AND (info.is_diff() OR javadoc.is_diff())) OR child map "
                "non-empty; children first; rewrite before is_diff; returns Ok(self)")
    fn = q.fn("insert_dummy_and_contract_inner_names", within="action::insert_dummy")
    if not R.anchor(rid, "fn MappingsDiff::insert_dummy_and_contract_inner_names", fn):
        return
    variants = T.enum_variants(q, ACTION)
    if not R.anchor(rid, "enum Action", variants):
        return
    R.inst(rid, "action-variants", sorted(v for v, _ in variants) == sorted(spec["validator"].keys()), sp=q.adts[ACTION]["sp"],
           expect=sorted(spec["validator"].keys()), got=sorted(v for v, _ in variants), nontrivial=False)
    # Action::is_diff: "changes nothing" = None, or an Edit to the same value
    isd = q.fn("is_diff", impl_ty=ACTION + "<")
    if R.anchor(rid, "fn Action::is_diff", isd):
        for cell, val, want in (("None", T.V("None"), False), ("Add", T.V("Add", ("s", "x")), True), ("Remove", T.V("Remove", ("s", "x")), True),
                                ("Edit/same", T.V("Edit", ("s", "x"), ("s", "x")), False), ("Edit/different", T.V("Edit", ("s", "x"), ("s", "y")), True)):
            got = U.Ev().run_fn(U.norm_body(isd), [val])
            R.inst(rid, "is_diff:" + cell, got == ("b", want), sp=isd["sp"], expect=str(want).lower(), got=T.show(got))
    pids = H.param_ids(fn)
    if not R.anchor(rid, "insert_dummy_and_contract_inner_names(self)", len(pids) == 1, sp=fn["sp"]):
        return
    self_id = pids[0]
    levels = _levels(R, rid, q, fn, self_id, spec["levels"], need_key=True)
    own_assigns = set()
    # local helper functions of this module may be inlined by the evaluator
    inline = {b["key"]: U.norm_body(b) for b in q.bodies if b["key"].startswith("quill::action::insert_dummy::") and b["key"] != fn["key"] and b.get("dk", "Fn") in ("Fn", "AssocFn")}
    for lv in ORDER:
        L = levels.get(lv)
        if L is None:
            continue
        sl = spec["levels"][lv]
        # retention formula; the validator is the let-bound local of the result whose initialiser inspects `node.info` by pattern
        rec = {"empty": {}, "diff": [], "validator": {}}
        f = _closure_formula(L["body"], _insert_atom(L, rec))
        ref = ("and", ("atom", "validator"), ("or", ("atom", "info-diff"), ("atom", "javadoc-diff")))
        for c in sl["children"]:
            ref = ("or", ref, ("not", ("atom", "empty:" + c)))
        eq, cex = B.equivalent(f, ref)
        R.inst(rid, "keep:" + lv, eq, sp=L["closure"]["sp"], expect=B.show(ref), got=B.show(f),
               detail=None if eq else "differs for %s" % ", ".join("%s=%s" % kv for kv in sorted(cex.items())))
        _children_first(R, rid, lv, L, sl["children"], rec["empty"])
        if not R.anchor(rid, "%s level: validator local (let-bound, inspects the node's `info` action by pattern)" % lv, len(rec["validator"]) == 1, sp=L["closure"]["sp"]):
            continue
        val_id = list(rec["validator"].keys())[0]
        blk = H.peel(L["body"], refs=False)
        stmts = blk.get("stmts", []) if blk.get("k") == "block" else []
        # the evaluator has no store: besides `node.info = ..` and the child retains nothing at this level may mutate
        own = list(H.walk(L["closure"], into_closures=False))
        assigns_here = [n for n in own if n.get("k") == "assign" and _is_info_of(n["l"], L["v"])]
        own_assigns.update(id(n) for n in assigns_here)
        child_retains = {id(x) for c in sl["children"] for x in _retains_on(L["closure"], L["v"], c, False)}
        muts = [x for x in U.unmodelled_mutations(L["closure"], into_closures=False)
                if not any(x is a for a in assigns_here) and id(x) not in child_retains]
        if muts:
            R.unrecognised(rid, "validator:" + lv, "mutation other than `node.info = ..` / child retain at this level: %s" % H.render(muts[0])[:120], muts[0].get("sp"))
            continue
        for vname, arity in variants:
            want_keep = spec["validator"].get(vname)
            want_rw = spec["rewrites"].get(vname)
            payload = {"None": [], "Add": [T.sym("new")], "Remove": [T.sym("old")], "Edit": [T.sym("e0"), T.sym("e1")]}.get(vname, [T.sym("p%d" % i) for i in range(arity)])
            cases = _placeholder_cases(sl["placeholder"])
            for case, kval, want_ph, ev_calls in cases:
                if vname != "Remove" and case != cases[0][0]:
                    continue
                e = U.Ev(crate=q, inline=inline, calls=ev_calls, max_inline=3)
                node = ("st", "Node", dict({c: T.sym("node." + c) for c in sl["children"]}, info=T.V(vname, *payload), javadoc=T.sym("node.javadoc")))
                env = {L["k"]: kval, L["v"]: node}
                got = None
                try:
                    for st in stmts:
                        e.stmt(st, env)
                    got = env.get(val_id)
                except T.Return as r:        # an early exit of the predicate after the validator was computed does not concern the table
                    got = env.get(val_id, ("v", "return", [r.v]))
                except T.Break:
                    got = T.sym("<break>")
                got = got if got is not None else T.sym("<validator not evaluated>")
                assigns = [(x[1], x[2]) for x in e.effects if x[0] == "assignv"]
                key = "validator:%s/%s" % (lv, vname) + ("" if vname != "Remove" or case == "" else "/" + case)
                got_s = "%s%s" % (T.show(got), "".join("; %s = %s" % (H.render(l), T.show(v)) for l, v in assigns))
                if want_rw is None:
                    ok = got == ("b", want_keep) and not assigns
                    R.inst(rid, key, ok, sp=L["closure"]["sp"], expect="%s, no rewrite" % str(want_keep).lower(), got=got_s)
                else:
                    want_v = T.V("Edit", T.sym("old"), want_ph)
                    ok = got == ("b", want_keep) and len(assigns) == 1 and _is_info_of(assigns[0][0], L["v"]) and assigns[0][1] == want_v
                    R.inst(rid, key, ok, sp=L["closure"]["sp"], expect="true; node.info = %s" % T.show(want_v), got=got_s,
                           detail="a removal becomes an edit back to the placeholder (%s)" % sl["placeholder"])
        pos = U.preorder_pos(L["closure"])
        early = [x for x in own if x.get("k") == "ret" and assigns_here and pos[id(x)] < max(pos[id(y)] for y in assigns_here)]
        ok = (bool(rec["diff"]) and bool(assigns_here) and max(pos[id(x)] for x in assigns_here) < min(pos[id(x)] for x in rec["diff"])
              and not early)
        R.inst(rid, "rewrite-before-is-diff:" + lv, ok, sp=L["closure"]["sp"],
               detail="info.is_diff() must see the action after Remove was rewritten to Edit(old, placeholder)")
    # the only change made to a retained node is the Remove -> Edit rewrite of its own `info`
    bad = []
    for n in H.walk(fn["body"]):
        if n.get("k") in ("assign", "assignop") and id(n) not in own_assigns:
            bad.append(H.render(n)[:80])
        elif n.get("k") == "mcall" and n["name"] in REMOVING and H.place_root(n["recv"])[0]:
            bad.append(H.render(n)[:80])
    R.inst(rid, "only-remove-rewrites", not bad, sp=fn["sp"], got=bad, expect="no assignment besides `node.info = ..` of the closure's own node, no removing call besides retain")
    _returns_self(R, rid, fn, self_id)
    R.floor(rid, 41)


def _is_info_of(n, v_id):
    root, path = H.place_root(n)
    return bool(root) and root[0] == v_id and _plain(path) == ["info"]


def _ident(args):
    return args[-1] if args else None


def _placeholder_cases(kind):
    """[(case tag, abstract key value, expected placeholder value, evaluator call models)]"""
    base = {"from_inner_unchecked": _ident, "must_use": _ident, "from": _ident}
    if kind == "key.name":
        k = ("st", "Key", {"name": ("s", "KEY-NAME"), "desc": ("s", "KEY-DESC")})
        return [("", k, ("s", "KEY-NAME"), base)]
    if kind == "p_<key.index>":
        out = []
        for i in (7, 0):
            out.append(("index=%d" % i, ("st", "ParameterKey", {"index": ("i", i)}), ("s", "p_%d" % i), base))
        return out
    if kind == "simple-inner-name-or-key":
        def with_inner(args):
            return T.V("Some", T.sym("inner-name")) if args and args[0] == T.sym("key") else None

        def without_inner(args):
            return T.V("None") if args and args[0] == T.sym("key") else None
        return [("inner-class", T.sym("key"), T.sym("inner-name"), dict(base, get_inner_class_name=with_inner)),
                ("top-level-class", T.sym("key"), T.sym("key"), dict(base, get_inner_class_name=without_inner))]
    return []


def _inspects_info(init, v_id):
    """the expression matches `node.info` against patterns (match / if let / matches!)"""
    for n in H.walk(init, into_closures=False):
        if n.get("k") == "match" and _is_info_of(n["scrut"], v_id):
            return True
        if n.get("k") == "letexpr" and _is_info_of(n["init"], v_id):
            return True
    return False


def _insert_atom(L, rec):
    v_id = L["v"]
    root_body = L["body"]

    def atom(n):
        k = n.get("k")
        if k == "path" and n["res"].get("r") == "local":
            init = H.let_init_of(root_body, n["res"]["id"])
            if init is not None:
                if _inspects_info(init, v_id):
                    rec["validator"][n["res"]["id"]] = init
                    return ("atom", "validator")
                return B.formula(init, atom)
            return None
        if k != "mcall":
            return None
        nm = n["name"]
        root, path = H.place_root(n["recv"])
        pp = _plain(path)
        own = bool(root) and root[0] == v_id
        if nm == "is_diff" and ACTION.rsplit("::", 1)[0] in ((n.get("callee") or {}).get("path") or "") and pp in (["info"], ["javadoc"]):
            if not own:
                return ("atom", "%s-of-another-node:%s" % (pp[0], H.render(n["recv"])))
            if pp == ["info"]:
                rec["diff"].append(n)
            return ("atom", pp[0] + "-diff")
        if nm == "is_empty" and len(pp) == 1:
            if not own:
                return ("atom", "child-map-of-another-node:" + H.render(n["recv"]))
            rec["empty"].setdefault(pp[0], []).append(n)
            return ("atom", "empty:" + pp[0])
        return None
    return atom
