"""C09 — merging two mapping sets is a faithful join on the shared namespace.

R09.1  decision tables of the combiners (merge_names, merge_javadoc(_ab), merge_equal, merge_namespaces,
       Combination::map, zip_map, zip_map_combination, map_combine_one_side) and of the positional containers
       they are built on (Names / Namespaces conversions and Index impls), against spec/merge.json.
R09.2  level alignment of Mappings::merge: every field of every output node is produced by the combiner for its
       kind, applied to the same-named field of the same level of both inputs, and its error is propagated.
"""
import json
import os

from lib import hir as H
from lib import tables as T
from lib import prov as PV
from lib import c09_util as U

SPEC = os.path.join(os.path.dirname(os.path.dirname(os.path.abspath(__file__))), "spec", "merge.json")
MERGE = "quill::action::merge::"
DM = "quill::action::diff_mappings::diff_and_merge::"
NAMES = "quill::tree::names::Names"
NSS = "quill::tree::names::Namespaces"
MAPPINGS = "quill::tree::mappings::"

CLAIM = {
    "text": "Decided for Mappings::merge and its helpers: (R09.1) the decision tables of merge_names (A->[a0,a1,-], B->[b0,-,b1], "
            "AB with equal first names->[a0,a1,b1], AB with different first names->Err, for present and absent names), merge_javadoc / "
            "merge_javadoc_ab (9+5 cells: the comment of whichever side has one, equal comments once, different comments->Err), merge_equal "
            "(4 cells), merge_namespaces ((s,a)+(s,b)->(s,a,b), different first->Err), Combination::map (3 cells, order of AB kept), "
            "zip_map (key present in first/second/both map -> A/B/AB with the first map's value first; the key set is fed by the keys of "
            "both maps; every key keeps its key and gets combiner(combination)?), zip_map_combination (A/B stay one-sided and keep their "
            "side, AB is zipped in argument order), map_combine_one_side, and of the positional containers (TryFrom/From/Index of Names and "
            "Namespaces keep array positions) equal spec/merge.json; (R09.2) in Mappings::merge each of the 17 output fields on the five levels "
            "(mappings, class, field, method, parameter) is produced by the combiner of its kind (Names->merge_names, Namespaces->"
            "merge_namespaces, IndexMap->zip_map_combination into a literal of the child level, javadoc->merge_javadoc, anything else->"
            "merge_equal) applied to the same field path of the same level's combination (checked through the closure parameter the "
            "projection is rooted in; first argument = A side at the top level), and the combiner's error reaches the caller through `?`.",
    "note": "Not decided: the union/projection law itself as a statement over all runtime mapping sets (merge followed by projecting back "
            "gives A and B), the behaviour of IndexMap/IndexSet, ordering of the merged entries, and that keys equal the first-namespace "
            "names. The rules are necessary conditions on the shape of the code on every path. Trusted: rustc HIR/typeck/const-eval, "
            "spec/merge.json (transcribed from the property statement).",
    "technique": "static analysis: decision-table extraction by pattern-matrix evaluation of the typed HIR (lib/tables.py, extended for arrays "
                 "and function values), type-directed structure-preserving-map conformance (A4) with provenance through closure parameters",
}


def run(F, R, tier):
    with open(SPEC) as f:
        spec = json.load(f)
    q = F.crate("quill")
    r09_1(q, R, spec)
    r09_2(q, R, spec)
    return ("A5 decision tables of the merge combiners, of Combination::map, of the zip helpers and of the Names/Namespaces "
            "containers, evaluated cell by cell on the typed HIR and compared with spec/merge.json; A4 level alignment of the "
            "17 output fields of Mappings::merge (combiner by declared field type, projection path and level by closure parameter, "
            "error propagated by `?`)")


# ===================================================================================== helpers
def _st(name, **fields):
    return ("st", name, dict(fields))


def _some(s):
    return T.V("Some", ("s", s))


NONE = T.V("None")


def _opt(x):
    return NONE if x is None else _some(x)


def _names_val(cols):
    return _st("Names", names=("t", list(cols)))


def _ok(v):
    return T.V("Ok", v)


def _is_err(v):
    return v[0] == "err"


def _anchors(q, R, rid):
    """Bodies (normalised) of everything R09.1 evaluates. Missing -> anchor violation."""
    want = {
        "merge_names": q.fn("merge_names", within=MERGE),
        "merge_equal": q.fn("merge_equal", within=MERGE),
        "merge_javadoc": q.fn("merge_javadoc", within=MERGE),
        "merge_javadoc_ab": q.fn("merge_javadoc_ab", within=MERGE),
        "merge_namespaces": q.fn("merge_namespaces", within=MERGE),
        "Combination::map": q.fn("map", impl_ty=DM + "Combination"),
        "zip_map": q.fn("zip_map", within=DM),
        "zip_map_combination": q.fn("zip_map_combination", within=DM),
        "map_combine_one_side": q.fn("map_combine_one_side", within=DM),
        "Names: TryFrom<[Option<T>; N]>": q.fn("try_from", impl_ty=NAMES + "<", trait="TryFrom<[core::option::Option<T>; N]>"),
        "&[Option<T>; N]: From<&Names>": q.fn("from", impl_ty="&'a [core::option::Option<T>; N]", trait="From<&'a " + NAMES),
        "Namespaces: TryFrom<[String; N]>": q.fn("try_from", impl_ty=NSS + "<", trait="TryFrom<[alloc::string::String; N]>"),
        "&[String; N]: From<&Namespaces>": q.fn("from", impl_ty="&'a [alloc::string::String; N]", trait="From<&'a " + NSS),
        "Names: Index<Namespace>": q.fn("index", impl_ty=NAMES + "<", trait="Index<"),
        "Names: IndexMut<Namespace>": q.fn("index_mut", impl_ty=NAMES + "<", trait="IndexMut<"),
        "Namespaces: Index<Namespace>": q.fn("index", impl_ty=NSS + "<", trait="Index<"),
        "Namespaces: IndexMut<Namespace>": q.fn("index_mut", impl_ty=NSS + "<", trait="IndexMut<"),
    }
    ok = True
    out = {}
    for name, b in want.items():
        if not R.anchor(rid, name, b):
            ok = False
        else:
            out[name] = U.norm_body(b)
    return out if ok else None


class _Ev(U.Ev):
    """U.Ev plus `x.try_into()` / `x.into()` resolved to the repository's conversion impl of the value's container."""

    def __init__(self, A, **kw):
        super().__init__(**kw)
        self.A = A

    def call(self, n, c, args, env):
        name = H.callee_name(n)
        targs = c.get("targs") or []
        if name in ("try_into", "try_from") and (c.get("path") or "").startswith("core::convert::Try"):
            target = targs[1] if name == "try_into" and len(targs) > 1 else (c.get("self_ty") or "")
            val = args[0] if name == "try_into" else (args[-1] if args else None)
            for prefix, key in ((NAMES + "<", "Names: TryFrom<[Option<T>; N]>"), (NSS + "<", "Namespaces: TryFrom<[String; N]>")):
                if target.startswith(prefix) and val is not None:
                    return _Ev(self.A).run_fn(self.A[key], [val])
        if name in ("into", "from") and args and args[-1][0] == "st" and (c.get("path") or "").startswith("core::convert::"):
            v = args[-1]
            target = targs[1] if name == "into" and len(targs) > 1 else (c.get("self_ty") or "")
            if v[1] == "Names" and target.startswith("&[core::option::Option<"):
                return _Ev(self.A).run_fn(self.A["&[Option<T>; N]: From<&Names>"], [v])
            if v[1] == "Namespaces" and target.startswith("&[alloc::string::String;"):
                return _Ev(self.A).run_fn(self.A["&[String; N]: From<&Namespaces>"], [v])
        return super().call(n, c, args, env)


# ===================================================================================== R09.1
def r09_1(q, R, spec):
    rid = "R09.1"
    R.rule(rid, "combiner decision tables = spec/merge.json: merge_names (column placement per side, first names must agree), "
                "merge_javadoc(_ab) (whichever side has a comment; different comments -> Err), merge_equal, merge_namespaces, "
                "Combination::map, zip_map (A/B/AB by presence in first/second map, key union, key kept, combiner applied), "
                "zip_map_combination, map_combine_one_side; Names/Namespaces conversions and Index keep array positions")
    A = _anchors(q, R, rid)
    if A is None:
        return
    inline = {A["Combination::map"]["key"]: A["Combination::map"]}
    # the evaluator has no store: a function it evaluates must not mutate anything (fail closed)
    for name, body in A.items():
        muts = U.unmodelled_mutations(body["body"], allow_ref_mut=name.startswith(("Names: IndexMut", "Namespaces: IndexMut")))
        if muts:
            R.unrecognised(rid, "fn:" + name, "mutation in a function evaluated as a table: %s" % H.render(muts[0])[:120], muts[0].get("sp"))

    def jd_access(args):
        v = args[0]
        if v[0] == "st" and "javadoc" in v[2]:
            return v[2]["javadoc"]
        return None

    def ev():
        return _Ev(A, crate=q, inline=inline, calls={"get_node_javadoc_info": jd_access}, max_inline=4)

    # ---- containers (tree/mod.rs)
    cols3 = [_some("n0"), NONE, _some("n2")]
    got = ev().run_fn(A["Names: TryFrom<[Option<T>; N]>"], [("t", cols3)])
    R.inst(rid, "conv:Names.try_from", got == _ok(_names_val(cols3)), sp=A["Names: TryFrom<[Option<T>; N]>"]["sp"],
           expect=T.show(_ok(_names_val(cols3))), got=T.show(got), detail="array position i becomes column i, nothing reordered or dropped")
    got = ev().run_fn(A["&[Option<T>; N]: From<&Names>"], [_names_val(cols3)])
    R.inst(rid, "conv:Names.as_array", got == ("t", cols3), sp=A["&[Option<T>; N]: From<&Names>"]["sp"],
           expect=T.show(("t", cols3)), got=T.show(got))
    ns3 = [("s", "s"), ("s", "a"), ("s", "b")]
    got = ev().run_fn(A["Namespaces: TryFrom<[String; N]>"], [("t", ns3)])
    want = _ok(_st("Namespaces", names=("t", ns3)))
    if got[0] == "v" and got[1] == "Ok" and got[2] and got[2][0][0] == "st":
        got = _ok(_st("Namespaces", names=got[2][0][2].get("names", T.sym("?"))))     # phantom field is irrelevant
    R.inst(rid, "conv:Namespaces.try_from", got == want, sp=A["Namespaces: TryFrom<[String; N]>"]["sp"], expect=T.show(want), got=T.show(got))
    got = ev().run_fn(A["&[String; N]: From<&Namespaces>"], [_st("Namespaces", names=("t", ns3))])
    R.inst(rid, "conv:Namespaces.as_array", got == ("t", ns3), sp=A["&[String; N]: From<&Namespaces>"]["sp"], expect=T.show(("t", ns3)), got=T.show(got))
    for cont, key, vals in (("Names", "Names: Index", cols3), ("Namespaces", "Namespaces: Index", ns3)):
        for suffix in ("<Namespace>", "Mut<Namespace>"):
            b = A[key + suffix]
            for i in range(3):
                got = ev().run_fn(b, [_st(cont, names=("t", vals)), _st("Namespace", **{"0": ("i", i)})])
                R.inst(rid, "index:%s.%s[%d]" % (cont, b["name"], i), got == vals[i], sp=b["sp"], expect=T.show(vals[i]), got=T.show(got),
                       detail="namespace id i addresses array position i")

    # ---- merge_names
    b = A["merge_names"]
    sn = spec["names"]

    def cols(cell, env):
        return [NONE if c is None else env[c] for c in sn[cell]]

    variants = [("both", "A1", "B1"), ("a1-absent", None, "B1"), ("b1-absent", "A1", None)]
    for tag, a1, b1 in variants:
        env = {"a0": _some("S"), "a1": _opt(a1), "b0": _some("S"), "b1": _opt(b1)}
        na = _names_val([env["a0"], env["a1"]])
        nb = _names_val([env["b0"], env["b1"]])
        if tag != "b1-absent":
            got = ev().run_fn(b, [T.V("A", na)])
            want = _ok(_names_val(cols("A", env)))
            R.inst(rid, "cell:merge_names/A/%s" % tag, got == want, sp=b["sp"], expect=T.show(want), got=T.show(got),
                   detail="entry only in A: A's names in columns s,a; column b absent")
        if tag != "a1-absent":
            got = ev().run_fn(b, [T.V("B", nb)])
            want = _ok(_names_val(cols("B", env)))
            R.inst(rid, "cell:merge_names/B/%s" % tag, got == want, sp=b["sp"], expect=T.show(want), got=T.show(got),
                   detail="entry only in B: B's names in columns s,b; column a absent")
        got = ev().run_fn(b, [T.V("AB", na, nb)])
        want = _ok(_names_val(cols("AB_same_first", env)))
        R.inst(rid, "cell:merge_names/AB/same-first/%s" % tag, got == want, sp=b["sp"], expect=T.show(want), got=T.show(got))
    for tag, a0, b0 in (("different", "S", "T"), ("a0-absent", None, "S"), ("b0-absent", "S", None)):
        got = ev().run_fn(b, [T.V("AB", _names_val([_opt(a0), _some("A1")]), _names_val([_opt(b0), _some("B1")]))])
        R.inst(rid, "cell:merge_names/AB/first-%s" % tag, _is_err(got) == (sn["AB_different_first"] == "Err"), sp=b["sp"],
               expect="Err", got=T.show(got), detail="entries whose first (shared-namespace) names differ cannot be joined")
    env = {"a0": NONE, "a1": _some("A1"), "b0": NONE, "b1": _some("B1")}
    got = ev().run_fn(b, [T.V("AB", _names_val([NONE, env["a1"]]), _names_val([NONE, env["b1"]]))])
    want = _ok(_names_val(cols("AB_same_first", env)))
    R.inst(rid, "cell:merge_names/AB/same-first/both-first-absent", got == want, sp=b["sp"], expect=T.show(want), got=T.show(got))

    # ---- merge_javadoc / merge_javadoc_ab
    sj = spec["javadoc"]

    def node(c):
        return _st("Node", javadoc=NONE if c == "none" else _some("comment-" + c))

    def want_jd(val):
        if val == "Err":
            return None
        return _ok(NONE if val is None else _some("comment-" + val))

    for cell, val in sj.items():
        if cell.startswith("_"):
            continue
        side, ca, cb = cell.split("/")
        for fname in ("merge_javadoc", "merge_javadoc_ab"):
            fb = A[fname]
            if fname == "merge_javadoc":
                arg = {"A": lambda: T.V("A", node(ca)), "B": lambda: T.V("B", node(cb)), "AB": lambda: T.V("AB", node(ca), node(cb))}[side]()
                got = ev().run_fn(fb, [arg])
            else:
                if side != "AB":
                    continue
                got = ev().run_fn(fb, [node(ca), node(cb)])
            w = want_jd(val)
            ok = _is_err(got) if w is None else got == w
            R.inst(rid, "cell:%s/%s" % (fname, cell), ok, sp=fb["sp"], expect="Err" if w is None else T.show(w), got=T.show(got),
                   detail="comment of whichever side has one; two different comments are an error")

    # ---- merge_equal
    fb = A["merge_equal"]
    for cell, val in spec["equal"].items():
        if cell.startswith("_"):
            continue
        side, ca, cb = cell.split("/")
        arg = {"A": lambda: T.V("A", ("s", ca)), "B": lambda: T.V("B", ("s", cb)), "AB": lambda: T.V("AB", ("s", ca), ("s", cb))}[side]()
        got = ev().run_fn(fb, [arg])
        ok = _is_err(got) if val == "Err" else got == _ok(("s", val))
        R.inst(rid, "cell:merge_equal/%s" % cell, ok, sp=fb["sp"], expect=val, got=T.show(got))

    # ---- merge_namespaces
    fb = A["merge_namespaces"]
    for cell, row in spec["namespaces"].items():
        if cell.startswith("_"):
            continue
        a = _st("Namespaces", names=("t", [("s", x) for x in row["a"]]))
        bb = _st("Namespaces", names=("t", [("s", x) for x in row["b"]]))
        got = ev().run_fn(fb, [a, bb])
        if row["out"] == "Err":
            ok = _is_err(got)
            want_s = "Err"
        else:
            g = got
            if g[0] == "v" and g[1] == "Ok" and g[2] and g[2][0][0] == "st":
                g = g[2][0][2].get("names")
            want_v = ("t", [("s", x) for x in row["out"]])
            ok = g == want_v
            want_s = T.show(want_v)
        R.inst(rid, "cell:merge_namespaces/%s" % cell, ok, sp=fb["sp"], expect=want_s, got=T.show(got))

    # ---- Combination::map
    fb = A["Combination::map"]
    f = T.sym("f")
    for cell, arg, want in (("A", T.V("A", T.sym("p")), T.V("A", T.V("@f", T.sym("p")))),
                            ("B", T.V("B", T.sym("p")), T.V("B", T.V("@f", T.sym("p")))),
                            ("AB", T.V("AB", T.sym("p"), T.sym("q")), T.V("AB", T.V("@f", T.sym("p")), T.V("@f", T.sym("q"))))):
        got = U.Ev().run_fn(fb, [arg, f])
        R.inst(rid, "cell:Combination::map/%s" % cell, got == want, sp=fb["sp"], expect=T.show(want), got=T.show(got),
               detail="map keeps the side and, for AB, the order of the two sides")

    # ---- zip_map_combination
    fb = A["zip_map_combination"]

    def zmc(arg):
        e = U.Ev()
        e.calls = {"map_combine_one_side": lambda args: T.V("@one_side", args[0], e.apply(args[1], [T.sym("x")])) if len(args) == 2 else None,
                   "zip_map": lambda args: T.V("@zip_map", *args)}
        return e.run_fn(fb, [arg, T.sym("combiner")])
    for cell, arg, want in (
            ("A", T.V("A", T.sym("ma")), T.V("@one_side", T.sym("ma"), T.V("@combiner", T.V("A", T.sym("x"))))),
            ("B", T.V("B", T.sym("mb")), T.V("@one_side", T.sym("mb"), T.V("@combiner", T.V("B", T.sym("x"))))),
            ("AB", T.V("AB", T.sym("ma"), T.sym("mb")), T.V("@zip_map", T.sym("ma"), T.sym("mb"), T.sym("combiner")))):
        got = zmc(arg)
        R.inst(rid, "cell:zip_map_combination/%s" % cell, got == want, sp=fb["sp"], expect=T.show(want), got=T.show(got),
               detail="children of a one-sided entry stay on that side; children of a two-sided entry are zipped, A's map first")

    # ---- map_combine_one_side and the last stage of zip_map: (key, value) -> Ok((key, combiner(value)?))
    want_pair = _ok(("t", [T.sym("k"), T.V("?", T.V("@combiner", T.sym("v")))]))
    for fname in ("map_combine_one_side", "zip_map"):
        fb = A[fname]
        pids = H.param_ids(fb)
        comb_id = pids[-1]
        clos = [c for c in H.walk(fb["body"]) if c.get("k") == "closure" and _calls_local(c, comb_id)]
        if not R.anchor(rid, "closure calling the combiner in " + fname, len(clos) == 1, sp=fb["sp"]):
            continue
        got = U.Ev().apply(("closure", clos[0], {comb_id: T.sym("combiner")}), [("t", [T.sym("k"), T.sym("v")])])
        R.inst(rid, "pair:%s" % fname, got == want_pair, sp=clos[0]["sp"], expect=T.show(want_pair), got=T.show(got),
               detail="every entry keeps its key; its value is combiner(value) and the combiner's error is propagated")
        # what the closure is mapped over
        maps = [m for m in H.walk(fb["body"]) if m.get("k") == "mcall" and m["name"] == "map" and any(H.peel(a) is clos[0] for a in m["args"])]
        if not R.anchor(rid, "iterator .map(closure) in " + fname, len(maps) == 1, sp=fb["sp"]):
            continue
        if fname == "map_combine_one_side":
            p = PV.prov(maps[0]["recv"], PV.Ctx(fb["body"], roots={pids[0]: "map"}))
            R.inst(rid, "source:map_combine_one_side", p.roots() == {"map"} and not (p.calls & (DROPPING | {"keys", "values"})),
                   sp=maps[0]["sp"], got=p.show(), expect="map.iter()", detail="all entries of the one-sided map are combined")
        else:
            p = PV.prov(maps[0]["recv"], PV.Ctx(fb["body"], roots={pids[0]: "first", pids[1]: "second"}))
            R.inst(rid, "source:zip_map", p.roots() == {"first", "second"} and {"keys", "get"} <= p.calls and not (p.calls & (DROPPING | {"values"})),
                   sp=maps[0]["sp"], got=p.show(), expect="the (key, combination) pairs of all keys of both maps",
                   detail="every key of the union is combined; nothing is filtered or skipped between the lookup and the combiner")

    # ---- zip_map: presence table and key union
    fb = A["zip_map"]
    pids = H.param_ids(fb)
    a_id, b_id = pids[0], pids[1]

    def gets_on(c, pid):
        return [g for g in H.walk(c) if g.get("k") == "mcall" and g["name"] == "get" and (H.local_of(g["recv"]) or (None,))[0] == pid]
    clos = [c for c in H.walk(fb["body"]) if c.get("k") == "closure" and gets_on(c, a_id) and gets_on(c, b_id)]
    clos = [c for c in clos if not any(d is not c and d.get("k") == "closure" and gets_on(d, a_id) and gets_on(d, b_id) for d in H.walk(c))]
    if R.anchor(rid, "closure looking the key up in both maps (zip_map)", len(clos) == 1, sp=fb["sp"]):
        c0 = clos[0]
        for cell, want_s in spec["zip"].items():
            if cell.startswith("_"):
                continue
            pa, pb = [x == "present" for x in cell.split("/")]
            e = U.Ev()

            def get(args, pa=pa, pb=pb):
                if args[0] == T.sym("$first"):
                    return T.V("Some", T.sym("first")) if pa else NONE
                if args[0] == T.sym("$second"):
                    return T.V("Some", T.sym("second")) if pb else NONE
                return None
            e.calls = {"get": get}
            got = e.apply(("closure", c0, {a_id: T.sym("$first"), b_id: T.sym("$second")}), [T.sym("key")])
            combos = [x for x in _subvalues(got) if x[0] == "v" and x[1] in ("A", "B", "AB")]
            got_s = T.show(combos[0]) if len(combos) == 1 else T.show(got)
            R.inst(rid, "cell:zip_map/%s" % cell, got_s == want_s, sp=c0["sp"], expect=want_s, got=got_s,
                   detail="key looked up in the first map / the second map")
            if len(combos) == 1 and got[0] == "t":
                R.inst(rid, "cell:zip_map/%s/key-kept" % cell, T.sym("key") in got[1], sp=c0["sp"], got=T.show(got), nontrivial=False)
        maps = [m for m in H.walk(fb["body"]) if m.get("k") == "mcall" and m["name"] == "map" and any(H.peel(x) is c0 for x in m["args"])]
        if R.anchor(rid, "iterator .map(lookup closure) in zip_map", len(maps) == 1, sp=fb["sp"]):
            p = PV.prov(maps[0]["recv"], PV.Ctx(fb["body"], roots={a_id: "first", b_id: "second"}))
            ok = p.roots() == {"first", "second"} and "keys" in p.calls and not (p.calls & (DROPPING | {"values", "zip", "intersection", "difference"}))
            R.inst(rid, "key-union:zip_map", ok, sp=maps[0]["sp"], got=p.show(), expect="first.keys() chained with second.keys()",
                   detail="the looked-up keys are the keys of both maps (union), not of one side")
    R.floor(rid, 64)


DROPPING = {"filter", "filter_map", "skip", "skip_while", "take", "take_while", "step_by", "rev", "nth", "last", "find", "flat_map"}


def _calls_local(c, lid):
    for n in H.walk(c):
        if n.get("k") == "call":
            l = U.local_callee(n)
            if l and l[0] == lid:
                return True
    return False


def _subvalues(v):
    yield v
    if v[0] == "v":
        for x in v[2]:
            yield from _subvalues(x)
    elif v[0] == "t":
        for x in v[1]:
            yield from _subvalues(x)
    elif v[0] == "st":
        for x in v[2].values():
            yield from _subvalues(x)


# ===================================================================================== R09.2
def _kind_of(ty, fname):
    if ty.startswith(NAMES + "<"):
        return "names"
    if ty.startswith(NSS + "<"):
        return "namespaces"
    if ty.startswith("indexmap::map::IndexMap<"):
        return "zip"
    if fname == "javadoc":
        return "javadoc"
    if ty.startswith(MAPPINGS) and not ty.startswith(MAPPINGS + "JavadocMapping"):
        return "struct"
    return "equal"


def _plain(path):
    return [p for p in path if not p.startswith(".")]


def r09_2(q, R, spec):
    rid = "R09.2"
    R.rule(rid, "Mappings::merge level alignment: each output field is produced by the combiner of its kind (names->merge_names, "
                "namespaces->merge_namespaces, child map->zip_map_combination into a literal of the child level, javadoc->merge_javadoc(_ab), "
                "other->merge_equal) from the same field path of the same level of both inputs (A side first), with the error propagated by `?`")
    merge = q.fn("merge", within=MERGE)
    fns = {k: q.fn(k, within=MERGE) for k in ("merge_names", "merge_equal", "merge_javadoc", "merge_javadoc_ab", "merge_namespaces")}
    zmc = q.fn("zip_map_combination", within=DM)
    cmap = q.fn("map", impl_ty=DM + "Combination")
    if not (R.anchor(rid, "fn Mappings::merge", merge) and all(R.anchor(rid, "fn " + k, v) for k, v in fns.items())
            and R.anchor(rid, "fn zip_map_combination", zmc) and R.anchor(rid, "fn Combination::map", cmap)):
        return
    pids = H.param_ids(merge)
    if not R.anchor(rid, "merge(a, b): two parameters", len(pids) == 2, sp=merge["sp"]):
        return
    a_id, b_id = pids
    key_of = {v["key"]: k for k, v in fns.items()}
    seen = {}

    def callee_key(n):
        c = n.get("callee") or {}
        return c.get("inst_key") or c.get("key")

    def same_local(lid, want, root):
        """`lid` is `want` or a plain alias of it (`let ab = class_ab;` — Combination<&T> is Copy)"""
        return lid == want or H.origin_local(root, lid, follow_chains=False) == want

    def projection(arg, ctx, path, root):
        """(ok, got) : `arg` is <level combination>.map(|x| &x.<path>)"""
        m = H.peel(arg)
        if m.get("k") == "mcall" and m["name"] == "map" and callee_key(m) == cmap["key"] and len(m["args"]) == 1:
            r = H.local_of(m["recv"])
            c = H.peel(m["args"][0])
            if r and ctx["kind"] == "comb" and same_local(r[0], ctx["x"], root) and c.get("k") == "closure" and len(c["params"]) == 1 and c["params"][0].get("k") == "bind":
                root, fp = H.place_root(c["body"])
                if root and root[0] == c["params"][0]["id"] and _plain(fp) == path and len(_plain(fp)) == len(fp):
                    return True, H.render(m)
        return False, H.render(m)

    def pair(args, ctx, path):
        """two arguments = (&a.<path>, &b.<path>) in this order (top level)"""
        if len(args) != 2 or ctx["kind"] != "top":
            return False
        ra, pa = H.place_root(args[0])
        rb, pb = H.place_root(args[1])
        return bool(ra and rb and ra[0] == ctx["a"] and rb[0] == ctx["b"] and pa == path and pb == path)

    def level(lit, ctx, root, level_name, path):
        adt = q.adts.get(lit.get("adt") or "")
        if not R.anchor(rid, "ADT of literal %s" % lit.get("adt"), adt, sp=lit["sp"]):
            return
        ftypes = {f["name"]: f["ty"] for f in adt["variants"][0]["fields"]}
        if isinstance(lit.get("base"), dict):
            R.unrecognised(rid, "%s%s" % (level_name, "".join("." + p for p in path)), "struct update syntax `..base` in a merged node", lit["sp"])
        for f in lit["fields"]:
            fpath = path + [f["name"]]
            key = "%s.%s" % (level_name, ".".join(fpath))
            kind = _kind_of(ftypes.get(f["name"], "?"), f["name"])
            inner, saw_try, _ = U.strip_wrappers(f["e"], root)
            if kind == "struct":
                if inner.get("k") == "struct":
                    level(inner, ctx, root, level_name, fpath)
                else:
                    R.unrecognised(rid, key, "field of struct type is not built by a struct literal: %s" % H.render(inner)[:160], f["e"]["sp"])
                continue
            seen[key] = kind
            want_spec = [e for e in spec["levels"]["expected"] if e.rsplit(":", 1)[0] == key]
            if want_spec and want_spec[0].rsplit(":", 1)[1] != kind:
                R.inst(rid, "field:" + key, False, sp=f["e"]["sp"], expect=want_spec[0], got=kind,
                       detail="declared type of the field selects a different combiner kind than the property statement")
                continue
            ok = False
            expect = None
            child = None
            ck = callee_key(inner) if inner.get("k") == "call" else None
            fname = key_of.get(ck)
            args = inner.get("args", []) if inner.get("k") == "call" else []
            if kind in ("names", "equal"):
                wantf = "merge_names" if kind == "names" else "merge_equal"
                expect = "%s(<level>.map(|x| &x.%s))?" % (wantf, ".".join(fpath))
                ok = fname == wantf and len(args) == 1 and projection(args[0], ctx, fpath, root)[0]
            elif kind == "namespaces":
                expect = "merge_namespaces(&a.%s, &b.%s)?" % (".".join(fpath), ".".join(fpath))
                ok = fname == "merge_namespaces" and pair(args, ctx, fpath)
            elif kind == "javadoc":
                if ctx["kind"] == "comb":
                    expect = "merge_javadoc(<level>)?"
                    l = H.local_of(args[0]) if len(args) == 1 else None
                    ok = fname == "merge_javadoc" and bool(l) and same_local(l[0], ctx["x"], root) and path == []
                else:
                    expect = "merge_javadoc_ab(a, b)?"
                    ls = [H.local_of(x) for x in args]
                    ok = fname == "merge_javadoc_ab" and len(ls) == 2 and all(ls) and {ls[0][0], ls[1][0]} == {ctx["a"], ctx["b"]} and path == []
            elif kind == "zip":
                expect = ("zip_map_combination(<level>.map(|x| &x.%s), |child| Ok(<child literal>))?" if ctx["kind"] == "comb" else
                          "zip_map_combination(Combination::AB(&a.%s, &b.%s), |child| Ok(<child literal>))?  (A side first)") % ((".".join(fpath),) * (1 if ctx["kind"] == "comb" else 2))
                if ck == zmc["key"] and len(args) == 2:
                    if ctx["kind"] == "comb":
                        okp = projection(args[0], ctx, fpath, root)[0]
                    else:
                        c0 = H.peel(args[0])
                        okp = (c0.get("k") == "call" and (H.ctor_of(c0) or (None, None))[1] == "AB" and (H.ctor_of(c0)[0] or "").endswith("Combination")
                               and pair(c0["args"], ctx, fpath))
                    child = _child_level(q, args[1])
                    ok = okp and child is not None
            ok = ok and saw_try
            R.inst(rid, "field:" + key, ok, sp=f["e"]["sp"], expect=expect, got=H.render(f["e"])[:300],
                   detail=None if saw_try else "the combiner's error is not propagated with `?`")
            if kind == "zip" and child is not None:
                c_lit, c_x, c_root = child
                level(c_lit, {"kind": "comb", "x": c_x}, c_root, (c_lit.get("adt") or "?").rsplit("::", 1)[-1], [])

    tops = [n for n in H.walk(merge["body"], into_closures=False) if n.get("k") == "struct" and (n.get("adt") or "") == MAPPINGS + "Mappings"]
    if not R.anchor(rid, "Mappings literal in merge", len(tops) == 1, sp=merge["sp"]):
        return
    level(tops[0], {"kind": "top", "a": a_id, "b": b_id}, merge["body"], "Mappings", [])
    for e in spec["levels"]["expected"]:
        k = e.rsplit(":", 1)[0]
        if k not in seen:
            R.inst(rid, "field:" + k, False, sp=merge["sp"], expect=e, got="not produced in Mappings::merge")
    # merge_javadoc reads the comment through NodeJavadocInfo::get_node_javadoc_info: that must be the node's own `javadoc`
    levels = sorted({e.split(".", 1)[0] for e in spec["levels"]["expected"]})
    for lv in levels:
        acc = q.fn("get_node_javadoc_info", impl_ty=MAPPINGS + lv + "<")
        if not R.anchor(rid, "impl NodeJavadocInfo for " + lv, acc):
            continue
        adt = q.adts.get(MAPPINGS + lv) or {"variants": [{"fields": []}]}
        val = ("st", lv, {f["name"]: T.sym("self." + f["name"]) for f in adt["variants"][0]["fields"]})
        got = U.Ev().run_fn(U.norm_body(acc), [val])
        R.inst(rid, "javadoc-accessor:" + lv, got == T.sym("self.javadoc"), sp=acc["sp"], expect="self.javadoc", got=T.show(got))
    R.floor(rid, len(spec["levels"]["expected"]) + len(levels))


def _child_level(q, arg):
    """combiner argument of zip_map_combination -> (struct literal of the child node, id of the combination parameter, closure body)"""
    c = H.peel(arg)
    if c.get("k") == "closure" and len(c["params"]) == 1 and c["params"][0].get("k") == "bind":
        x = c["params"][0]["id"]
        body = c["body"]
    elif c.get("k") == "path" and c["res"].get("r") == "def" and c["res"].get("key") in q.by_key:
        fb = q.by_key[c["res"]["key"]]
        ids = H.param_ids(fb)
        if len(ids) != 1:
            return None
        x = ids[0]
        body = fb["body"]
    else:
        return None
    res = H.peel(body)
    if res.get("k") == "block" and "tail" in res:
        res = H.peel(res["tail"])
    if res.get("k") == "ret" and "e" in res:
        res = H.peel(res["e"])
    if not (res.get("k") == "call" and (H.ctor_of(res) or (None, None))[1] == "Ok" and len(res["args"]) == 1):
        return None
    lit, _, _ = U.strip_wrappers(res["args"][0], body, allowed=())
    if lit.get("k") != "struct":
        return None
    return lit, x, body
