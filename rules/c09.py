"""C09 — merging two mapping sets is a faithful join on the shared namespace.

R09.1  decision tables of the combiners (merge_names, merge_javadoc(_ab), merge_equal, merge_namespaces,
       Combination::map, zip_map, zip_map_combination, map_combine_one_side) and of the positional containers
       they are built on (Names / Namespaces conversions and Index impls), against spec/merge.json.
R09.2  level alignment of Mappings::merge: every field of every output node is produced by the combiner for its
       kind, applied to the same-named field of the same level of both inputs, and its error is propagated.
"""
import json
import os

from lib import hir as H
from lib import tables as T
from lib import prov as PV
from lib import c09_util as U

SPEC = os.path.join(os.path.dirname(os.path.dirname(os.path.abspath(__file__))), "spec", "merge.json")
MERGE = "quill::action::merge::"
DM = "quill::action::diff_mappings::diff_and_merge::"
NAMES = "quill::tree::names::Names"
NSS = "quill::tree::names::Namespaces"
MAPPINGS = "quill::tree::mappings::"

CLAIM = {
    "text": "Decided for Mappings::merge and its helpers: (R09.1 equality) every PartialEq impl of a quill::tree model type is derived or compares plain fields with eq/== only - the `==` the combiners decide with is structural; (R09.1) the decision tables of merge_names (A->[a0,a1,-], B->[b0,-,b1], "
            "AB with equal first names->[a0,a1,b1], AB with different first names->Err, for present and absent names), merge_javadoc / "
            "merge_javadoc_ab (9+5 cells: the comment of whichever side has one, equal comments once, different comments->Err), merge_equal "
            "(4 cells), merge_namespaces ((s,a)+(s,b)->(s,a,b), different first->Err), Combination::map (3 cells, order of AB kept), "
            "zip_map (key present in first/second/both map -> A/B/AB with the first map's value first; the key set is fed by the keys of "
            "both maps; every key keeps its key and gets combiner(combination)?), zip_map_combination (A/B stay one-sided and keep their "
            "side, AB is zipped in argument order), map_combine_one_side, and of the positional containers (TryFrom/From/Index of Names and "
            "Namespaces keep array positions) equal spec/merge.json; (R09.2) in Mappings::merge each of the 17 output fields on the five levels "
            "(mappings, class, field, method, parameter) is produced by the combiner of its kind (Names->merge_names, Namespaces->"
            "merge_namespaces, IndexMap->zip_map_combination into a literal of the child level, javadoc->merge_javadoc, anything else->"
            "merge_equal) applied to the same field path of the same level's combination (checked through the closure parameter the "
            "projection is rooted in; first argument = A side at the top level), and the combiner's error reaches the caller through `?`.",
    "note": "Not decided: the union/projection law itself as a statement over all runtime mapping sets (merge followed by projecting back "
            "gives A and B), the behaviour of IndexMap/IndexSet, ordering of the merged entries, and that keys equal the first-namespace "
            "names. The rules are necessary conditions on the shape of the code on every path. Trusted: rustc HIR/typeck/const-eval, "
            "spec/merge.json (transcribed from the property statement).",
    "technique": "static analysis: decision-table extraction by pattern-matrix evaluation of the typed HIR (lib/tables.py, extended for arrays "
                 "and function values), type-directed structure-preserving-map conformance (A4) with provenance through closure parameters",
}


def run(F, R, tier):
    with open(SPEC) as f:
        spec = json.load(f)
    q = F.crate("quill")
    roles = r09_2(q, R, spec)
    r09_1(q, R, spec, roles)
    r09_eq(q, R)
    return ("A5 decision tables of the merge combiners, of Combination::map, of the zip helpers and of the Names/Namespaces "
            "containers, evaluated cell by cell on the typed HIR and compared with spec/merge.json; A4 level alignment of the "
            "17 output fields of Mappings::merge (combiner by declared field type, projection path and level by closure parameter, "
            "error propagated by `?`)")


def r09_eq(q, R):
    """`equal comments once, different comments -> Err`, `equal names once`: the combiners decide with `==` of the model types. That `==` is
    structural: every PartialEq impl of a type of quill::tree is derived, or compares plain fields of self and other with eq / == only."""
    rid = "R09.1"
    n = 0
    for i in q.raw["impls"]:
        if i.get("trait") != "core::cmp::PartialEq" or not (i.get("self_ty") or "").startswith("quill::tree::"):
            continue
        n += 1
        short = i["self_ty"].split("<")[0].rsplit("::", 1)[-1]
        if "PartialEq" in (i.get("mac") or []):
            R.inst(rid, "equality-is-structural:%s" % short, True, sp=i.get("sp"), got="derived", nontrivial=False)
            continue
        eb = next((b for b in q.bodies if b["key"] == i["key"] + "::eq"), None)
        bad = []
        if eb is None:
            bad.append("hand-written impl whose `eq` was not found")
        else:
            for x in H.walk(eb["body"]):
                if x.get("k") in ("mcall", "call") and (H.callee_name(x) or "") not in ("eq", "ne"):
                    bad.append("`%s`" % H.render(x)[:80])
                if x.get("k") == "bin" and x.get("op") not in ("==", "&&", "!="):
                    bad.append("operator %s" % x.get("op"))
                if x.get("k") in ("if", "match", "loop", "for", "closure"):
                    bad.append("`%s` in eq" % x["k"])
        R.inst(rid, "equality-is-structural:%s" % short, not bad, sp=(eb or i).get("sp"), got=bad or "field-wise eq",
               expect="#[derive(PartialEq)] or `self.f.eq(&other.f)` / `self.f == other.f` on plain fields",
               detail="an equality that normalises its operands (trim, case folding) makes the combiners treat different values as the same: "
                      "the merge keeps one side silently instead of reporting the conflict (seed C09-13)")
    R.anchor(rid, "PartialEq impls of the quill::tree model types", n >= 10)


# ===================================================================================== helpers
def _st(name, **fields):
    return ("st", name, dict(fields))


def _some(s):
    return T.V("Some", ("s", s))


NONE = T.V("None")


def _opt(x):
    return NONE if x is None else _some(x)


def _names_val(cols):
    return _st("Names", names=("t", list(cols)))


def _ok(v):
    return T.V("Ok", v)


def _is_err(v):
    return v[0] == "err"


ROLE_LABEL = (("names", "merge_names"), ("equal", "merge_equal"), ("javadoc", "merge_javadoc"), ("javadoc_top", "merge_javadoc_ab"),
              ("namespaces", "merge_namespaces"), ("zip", "zip_map_combination"), ("map", "Combination::map"))


def _anchors(q, R, rid, roles):
    """Bodies (normalised) of everything R09.1 evaluates.  The combiners are taken by *role* from the call sites in
    Mappings::merge (collected by R09.2), so a renamed private helper is still found; the role label is only the instance key.
    -> (A: name -> body, F: label -> [bodies])"""
    want = {
        "Names: TryFrom<[Option<T>; N]>": q.fn("try_from", impl_ty=NAMES + "<", trait="TryFrom<[core::option::Option<T>; N]>"),
        "&[Option<T>; N]: From<&Names>": q.fn("from", impl_ty="&'a [core::option::Option<T>; N]", trait="From<&'a " + NAMES),
        "Namespaces: TryFrom<[String; N]>": q.fn("try_from", impl_ty=NSS + "<", trait="TryFrom<[alloc::string::String; N]>"),
        "&[String; N]: From<&Namespaces>": q.fn("from", impl_ty="&'a [alloc::string::String; N]", trait="From<&'a " + NSS),
        "Names: Index<Namespace>": q.fn("index", impl_ty=NAMES + "<", trait="Index<"),
        "Names: IndexMut<Namespace>": q.fn("index_mut", impl_ty=NAMES + "<", trait="IndexMut<"),
        "Namespaces: Index<Namespace>": q.fn("index", impl_ty=NSS + "<", trait="Index<"),
        "Namespaces: IndexMut<Namespace>": q.fn("index_mut", impl_ty=NSS + "<", trait="IndexMut<"),
    }
    ok = True
    out = {}
    for name, b in want.items():
        if not R.anchor(rid, name, b):
            ok = False
        else:
            out[name] = U.norm_body(b)
    F = {}
    for role, label in ROLE_LABEL:
        keys = sorted(roles.get(role) or {})
        if role == "javadoc_top" and not keys and roles.get("javadoc"):
            continue            # the top level uses the one-argument javadoc combiner as well
        if not R.anchor(rid, "%s (the %s combiner called from Mappings::merge)" % (label, role), bool(keys)):
            ok = False
            continue
        F[label] = [U.norm_body(q.by_key[k]) for k in keys]
    return (out, F) if ok else (None, None)


def _labels(label, bodies):
    return [(label if i == 0 else "%s#%d" % (label, i + 1), b) for i, b in enumerate(bodies)]


class _Ev(U.Ev):
    """U.Ev plus `x.try_into()` / `x.into()` resolved to the repository's conversion impl of the value's container."""

    def __init__(self, A, **kw):
        super().__init__(**kw)
        self.A = A

    def call(self, n, c, args, env):
        name = H.callee_name(n)
        targs = c.get("targs") or []
        if name in ("try_into", "try_from") and (c.get("path") or "").startswith("core::convert::Try"):
            target = targs[1] if name == "try_into" and len(targs) > 1 else (c.get("self_ty") or "")
            val = args[0] if name == "try_into" else (args[-1] if args else None)
            for prefix, key in ((NAMES + "<", "Names: TryFrom<[Option<T>; N]>"), (NSS + "<", "Namespaces: TryFrom<[String; N]>")):
                if target.startswith(prefix) and val is not None:
                    return _Ev(self.A).run_fn(self.A[key], [val])
        if name in ("into", "from") and args and args[-1][0] == "st" and (c.get("path") or "").startswith("core::convert::"):
            v = args[-1]
            target = targs[1] if name == "into" and len(targs) > 1 else (c.get("self_ty") or "")
            if v[1] == "Names" and target.startswith("&[core::option::Option<"):
                return _Ev(self.A).run_fn(self.A["&[Option<T>; N]: From<&Names>"], [v])
            if v[1] == "Namespaces" and target.startswith("&[alloc::string::String;"):
                return _Ev(self.A).run_fn(self.A["&[String; N]: From<&Namespaces>"], [v])
        return super().call(n, c, args, env)


# ===================================================================================== R09.1
def r09_1(q, R, spec, roles):
    rid = "R09.1"
    R.rule(rid, "combiner decision tables = spec/merge.json: merge_names (column placement per side, first names must agree), "
                "merge_javadoc(_ab) (whichever side has a comment; different comments -> Err), merge_equal, merge_namespaces, "
                "Combination::map, zip_map (A/B/AB by presence in first/second map, key union, key kept, combiner applied), "
                "zip_map_combination, map_combine_one_side; Names/Namespaces conversions and Index keep array positions")
    A, F = _anchors(q, R, rid, roles)
    if A is None:
        return
    # private helpers of the two modules are inlined by the evaluator (a rule extracted into a helper gives the same table)
    helpers = {b["key"]: U.norm_body(b) for b in q.bodies
               if b["key"].startswith((MERGE, DM)) and "{closure" not in b["key"] and b.get("dk", "Fn") in ("Fn", "AssocFn")}
    inline = dict(helpers)
    zip_keys = set()           # the functions that iterate (evaluated per element below, not as tables)
    for zb in F["zip_map_combination"]:
        for n in H.walk(zb["body"]):
            if n.get("k") == "call":
                ck = (n.get("callee") or {}).get("key")
                if ck in helpers and ck != zb["key"]:
                    zip_keys.add(ck)
    for k in zip_keys:
        inline.pop(k, None)
    # the evaluator has no store: a function it evaluates must not mutate anything (fail closed)
    evaluated = dict(A)
    evaluated.update({k: v for k, v in inline.items()})
    for name, body in evaluated.items():
        muts = U.unmodelled_mutations(body["body"], allow_ref_mut=name.startswith(("Names: IndexMut", "Namespaces: IndexMut")))
        if muts:
            R.unrecognised(rid, "fn:" + body.get("name", name) if name not in A else "fn:" + name,
                           "mutation in a function evaluated as a table: %s" % H.render(muts[0])[:120], muts[0].get("sp"))

    def jd_access(args):
        v = args[0]
        if v[0] == "st" and "javadoc" in v[2]:
            return v[2]["javadoc"]
        return None

    def ev():
        return _Ev(A, crate=q, inline=inline, calls={"get_node_javadoc_info": jd_access}, max_inline=4)

    # ---- containers (tree/mod.rs)
    cols3 = [_some("n0"), NONE, _some("n2")]
    got = ev().run_fn(A["Names: TryFrom<[Option<T>; N]>"], [("t", cols3)])
    R.inst(rid, "conv:Names.try_from", got == _ok(_names_val(cols3)), sp=A["Names: TryFrom<[Option<T>; N]>"]["sp"],
           expect=T.show(_ok(_names_val(cols3))), got=T.show(got), detail="array position i becomes column i, nothing reordered or dropped")
    got = ev().run_fn(A["&[Option<T>; N]: From<&Names>"], [_names_val(cols3)])
    R.inst(rid, "conv:Names.as_array", got == ("t", cols3), sp=A["&[Option<T>; N]: From<&Names>"]["sp"],
           expect=T.show(("t", cols3)), got=T.show(got))
    ns3 = [("s", "s"), ("s", "a"), ("s", "b")]
    got = ev().run_fn(A["Namespaces: TryFrom<[String; N]>"], [("t", ns3)])
    want = _ok(_st("Namespaces", names=("t", ns3)))
    if got[0] == "v" and got[1] == "Ok" and got[2] and got[2][0][0] == "st":
        got = _ok(_st("Namespaces", names=got[2][0][2].get("names", T.sym("?"))))     # phantom field is irrelevant
    R.inst(rid, "conv:Namespaces.try_from", got == want, sp=A["Namespaces: TryFrom<[String; N]>"]["sp"], expect=T.show(want), got=T.show(got))
    got = ev().run_fn(A["&[String; N]: From<&Namespaces>"], [_st("Namespaces", names=("t", ns3))])
    R.inst(rid, "conv:Namespaces.as_array", got == ("t", ns3), sp=A["&[String; N]: From<&Namespaces>"]["sp"], expect=T.show(("t", ns3)), got=T.show(got))
    for cont, key, vals in (("Names", "Names: Index", cols3), ("Namespaces", "Namespaces: Index", ns3)):
        for suffix in ("<Namespace>", "Mut<Namespace>"):
            b = A[key + suffix]
            for i in range(3):
                got = ev().run_fn(b, [_st(cont, names=("t", vals)), _st("Namespace", **{"0": ("i", i)})])
                R.inst(rid, "index:%s.%s[%d]" % (cont, b["name"], i), got == vals[i], sp=b["sp"], expect=T.show(vals[i]), got=T.show(got),
                       detail="namespace id i addresses array position i")

    # ---- merge_names
    sn = spec["names"]

    def cols(cell, env):
        return [NONE if c is None else env[c] for c in sn[cell]]

    for label, b in _labels("merge_names", F["merge_names"]):
        variants = [("both", "A1", "B1"), ("a1-absent", None, "B1"), ("b1-absent", "A1", None)]
        for tag, a1, b1 in variants:
            env = {"a0": _some("S"), "a1": _opt(a1), "b0": _some("S"), "b1": _opt(b1)}
            na = _names_val([env["a0"], env["a1"]])
            nb = _names_val([env["b0"], env["b1"]])
            if tag != "b1-absent":
                got = ev().run_fn(b, [T.V("A", na)])
                want = _ok(_names_val(cols("A", env)))
                R.inst(rid, "cell:%s/A/%s" % (label, tag), got == want, sp=b["sp"], expect=T.show(want), got=T.show(got),
                       detail="entry only in A: A's names in columns s,a; column b absent")
            if tag != "a1-absent":
                got = ev().run_fn(b, [T.V("B", nb)])
                want = _ok(_names_val(cols("B", env)))
                R.inst(rid, "cell:%s/B/%s" % (label, tag), got == want, sp=b["sp"], expect=T.show(want), got=T.show(got),
                       detail="entry only in B: B's names in columns s,b; column a absent")
            got = ev().run_fn(b, [T.V("AB", na, nb)])
            want = _ok(_names_val(cols("AB_same_first", env)))
            R.inst(rid, "cell:%s/AB/same-first/%s" % (label, tag), got == want, sp=b["sp"], expect=T.show(want), got=T.show(got))
        for tag, a0, b0 in (("different", "S", "T"), ("a0-absent", None, "S"), ("b0-absent", "S", None)):
            got = ev().run_fn(b, [T.V("AB", _names_val([_opt(a0), _some("A1")]), _names_val([_opt(b0), _some("B1")]))])
            R.inst(rid, "cell:%s/AB/first-%s" % (label, tag), _is_err(got) == (sn["AB_different_first"] == "Err"), sp=b["sp"],
                   expect="Err", got=T.show(got), detail="entries whose first (shared-namespace) names differ cannot be joined")
        env = {"a0": NONE, "a1": _some("A1"), "b0": NONE, "b1": _some("B1")}
        got = ev().run_fn(b, [T.V("AB", _names_val([NONE, env["a1"]]), _names_val([NONE, env["b1"]]))])
        want = _ok(_names_val(cols("AB_same_first", env)))
        R.inst(rid, "cell:%s/AB/same-first/both-first-absent" % label, got == want, sp=b["sp"], expect=T.show(want), got=T.show(got))

    # ---- merge_javadoc (one combination argument) / merge_javadoc_ab (two node arguments)
    sj = spec["javadoc"]

    def node(c):
        return _st("Node", javadoc=NONE if c == "none" else _some("comment-" + c))

    def want_jd(val):
        if val == "Err":
            return None
        return _ok(NONE if val is None else _some("comment-" + val))

    jfns = _labels("merge_javadoc", F["merge_javadoc"]) + _labels("merge_javadoc_ab", F.get("merge_javadoc_ab", []))
    for label, fb in jfns:
        two = len(fb["params"]) == 2
        for cell, val in sj.items():
            if cell.startswith("_"):
                continue
            side, ca, cb = cell.split("/")
            if two:
                if side != "AB":
                    continue
                got = ev().run_fn(fb, [node(ca), node(cb)])
            else:
                arg = {"A": lambda: T.V("A", node(ca)), "B": lambda: T.V("B", node(cb)), "AB": lambda: T.V("AB", node(ca), node(cb))}[side]()
                got = ev().run_fn(fb, [arg])
            w = want_jd(val)
            ok = _is_err(got) if w is None else got == w
            R.inst(rid, "cell:%s/%s" % (label, cell), ok, sp=fb["sp"], expect="Err" if w is None else T.show(w), got=T.show(got),
                   detail="comment of whichever side has one; two different comments are an error")

    # ---- merge_equal
    for label, fb in _labels("merge_equal", F["merge_equal"]):
        for cell, val in spec["equal"].items():
            if cell.startswith("_"):
                continue
            side, ca, cb = cell.split("/")
            arg = {"A": lambda: T.V("A", ("s", ca)), "B": lambda: T.V("B", ("s", cb)), "AB": lambda: T.V("AB", ("s", ca), ("s", cb))}[side]()
            got = ev().run_fn(fb, [arg])
            ok = _is_err(got) if val == "Err" else got == _ok(("s", val))
            R.inst(rid, "cell:%s/%s" % (label, cell), ok, sp=fb["sp"], expect=val, got=T.show(got))

    # ---- merge_namespaces
    for label, fb in _labels("merge_namespaces", F["merge_namespaces"]):
        for cell, row in spec["namespaces"].items():
            if cell.startswith("_"):
                continue
            a = _st("Namespaces", names=("t", [("s", x) for x in row["a"]]))
            bb = _st("Namespaces", names=("t", [("s", x) for x in row["b"]]))
            got = ev().run_fn(fb, [a, bb])
            if row["out"] == "Err":
                ok = _is_err(got)
                want_s = "Err"
            else:
                g = got
                if g[0] == "v" and g[1] == "Ok" and g[2] and g[2][0][0] == "st":
                    g = g[2][0][2].get("names")
                want_v = ("t", [("s", x) for x in row["out"]])
                ok = g == want_v
                want_s = T.show(want_v)
            R.inst(rid, "cell:%s/%s" % (label, cell), ok, sp=fb["sp"], expect=want_s, got=T.show(got))

    # ---- the header constructor the merged namespaces go through refuses nothing but empty names (seed C09-8: a uniqueness check
    #      turns the join of (s,a) with (s,a') where a and a' carry the same name into an error)
    ctor = [b for b in q.bodies if b.get("name") == "try_from" and "Namespaces" in (b.get("impl_ty") or "") and isinstance(b.get("body"), dict)
            and any("[alloc::string::String; N]" in (t or "") for t in (b.get("inputs") or []))]
    if R.anchor(rid, "impl TryFrom<[String; N]> for Namespaces", len(ctor) == 1):
        cb = ctor[0]
        guards = []
        for n in H.walk(cb["body"]):
            if n.get("k") == "if" and "else" not in n and H.is_err_exit(n["then"]):
                guards.append(H.render(n["cond"])[:100])
            elif n.get("k") == "ret" and H.is_err_exit(n):
                pass
        other = [g for g in guards if "is_empty" not in g]
        R.inst(rid, "namespaces-constructor:refuses-only-empty-names", len(guards) >= 1 and not other, sp=cb["sp"],
               expect="the only refusal is `any name is empty`", got=guards,
               detail="merge builds the (s,a,b) header through this constructor; any further refusal makes a documented join an error")
    # ---- Combination::map
    f = T.sym("f")
    for label, fb in _labels("Combination::map", F["Combination::map"]):
        for cell, arg, want in (("A", T.V("A", T.sym("p")), T.V("A", T.V("@f", T.sym("p")))),
                                ("B", T.V("B", T.sym("p")), T.V("B", T.V("@f", T.sym("p")))),
                                ("AB", T.V("AB", T.sym("p"), T.sym("q")), T.V("AB", T.V("@f", T.sym("p")), T.V("@f", T.sym("q"))))):
            got = U.Ev(inline=inline).run_fn(fb, [arg, f])
            R.inst(rid, "cell:%s/%s" % (label, cell), got == want, sp=fb["sp"], expect=T.show(want), got=T.show(got),
                   detail="map keeps the side and, for AB, the order of the two sides")

    # ---- zip_map_combination: which helper gets what.  The helpers it delegates to are identified by role:
    #      one-sided (map, closure) and two-sided (first map, second map, combiner).
    one_side, two_side = {}, {}

    def show_term(v):
        return T.show(v).replace("@def:", "").replace(DM, "")

    for label, fb in _labels("zip_map_combination", F["zip_map_combination"]):
        for cell, arg in (("A", T.V("A", T.sym("ma"))), ("B", T.V("B", T.sym("mb"))), ("AB", T.V("AB", T.sym("ma"), T.sym("mb")))):
            e = U.Ev(inline=inline, term_keys=zip_keys)
            got = e.run_fn(fb, [arg, T.sym("combiner")])
            ok = False
            if U.is_term(got) and got[1].startswith("@def:"):
                k = got[1][5:]
                a = got[2]
                if cell in ("A", "B") and len(a) == 2 and a[1][0] == "closure":
                    inner = e.apply(a[1], [T.sym("x")])
                    got = T.V(got[1], a[0], inner)
                    ok = a[0] == arg[2][0] and inner == T.V("@combiner", T.V(cell, T.sym("x")))
                    if ok:
                        one_side[k] = True
                elif cell == "AB" and len(a) == 3:
                    ok = a == [T.sym("ma"), T.sym("mb"), T.sym("combiner")]
                    if ok:
                        two_side[k] = True
            want = {"A": "<one-sided helper>(ma, |x| combiner(A(x)))", "B": "<one-sided helper>(mb, |x| combiner(B(x)))",
                    "AB": "<two-sided helper>(ma, mb, combiner)"}[cell]
            R.inst(rid, "cell:%s/%s" % (label, cell), ok, sp=fb["sp"], expect=want, got=show_term(got),
                   detail="children of a one-sided entry stay on that side; children of a two-sided entry are zipped, A's map first")

    # ---- per element: (key, value) -> (key, combiner(..)?) — `.map(..).collect()` and `for .. { acc.insert(..) }` are the same
    want_val = lambda x: T.V("?", T.V("@combiner", x))
    for k in sorted(one_side):
        fb = helpers[k]
        pids = H.param_ids(fb)
        if not R.anchor(rid, "map_combine_one_side(map, combiner)", len(pids) == 2, sp=fb["sp"]):
            continue
        sites = _combiner_sites(fb, pids[1])
        if len(sites) != 1:
            R.unrecognised(rid, "fn:map_combine_one_side", "the combiner is called from %d places" % len(sites), fb["sp"])
            continue
        e = U.Ev(inline=inline)
        try:
            pe = U.per_element(fb, sites[0], e, {pids[1]: T.sym("combiner")}, {pids[0]: "map"})
        except U.StreamError as x:
            R.inst(rid, "source:map_combine_one_side", False, sp=fb["sp"], got=str(x), expect="every entry of the map, as it is",
                   detail="all entries of the one-sided map are combined")
            continue
        _mutation_guard(R, rid, "map_combine_one_side", fb, pe["allowed"])
        got = ("t", [pe["key"], pe["value"]])
        want = ("t", [T.sym("k"), want_val(T.sym("v"))])
        R.inst(rid, "pair:map_combine_one_side", got == want, sp=fb["sp"], expect=T.show(want), got=T.show(got),
               detail="every entry keeps its key; its value is combiner(value) and the combiner's error is propagated")
        R.inst(rid, "source:map_combine_one_side", pe["sources"] == {("map", "entries")}, sp=fb["sp"], got=sorted(pe["sources"]),
               expect="map.iter()", detail="all entries of the one-sided map are combined")
    R.anchor(rid, "one-sided helper of zip_map_combination", bool(one_side))

    for k in sorted(two_side):
        fb = helpers[k]
        pids = H.param_ids(fb)
        if not R.anchor(rid, "zip_map(a, b, combiner)", len(pids) == 3, sp=fb["sp"]):
            continue
        a_id, b_id, comb_id = pids
        sites = _combiner_sites(fb, comb_id)
        if len(sites) != 1:
            R.unrecognised(rid, "fn:zip_map", "the combiner is called from %d places (only the per-key call of the union is understood)" % len(sites), fb["sp"])
            continue
        shapes_ok = True
        srcs = None
        failed = None
        allowed = []
        for cell, want_s in spec["zip"].items():
            if cell.startswith("_"):
                continue
            pa, pb = [x == "present" for x in cell.split("/")]

            def get(args, pa=pa, pb=pb):
                if args[0] == T.sym("$first"):
                    return T.V("Some", T.sym("first")) if pa else NONE
                if args[0] == T.sym("$second"):
                    return T.V("Some", T.sym("second")) if pb else NONE
                return None
            e = U.Ev(inline=inline, calls={"get": get})
            env = {a_id: T.sym("$first"), b_id: T.sym("$second"), comb_id: T.sym("combiner")}
            try:
                pe = U.per_element(fb, sites[0], e, env, {a_id: "first", b_id: "second"})
            except U.StreamError as x:
                failed = str(x)
                break
            srcs = pe["sources"]
            allowed = pe["allowed"]
            v = pe["value"]
            comb = v[2][0][2][0] if (v[0] == "v" and v[1] == "?" and v[2] and U.is_term(v[2][0], "combiner") and len(v[2][0][2]) == 1) else None
            shapes_ok = shapes_ok and comb is not None
            got_s = T.show(comb) if comb is not None else T.show(v)
            R.inst(rid, "cell:zip_map/%s" % cell, got_s == want_s, sp=fb["sp"], expect=want_s, got=got_s,
                   detail="key looked up in the first map / the second map")
            R.inst(rid, "cell:zip_map/%s/key-kept" % cell, pe["key"] == T.sym("key"), sp=fb["sp"], got=T.show(pe["key"]), nontrivial=False)
        if failed is not None:
            R.inst(rid, "source:zip_map", False, sp=fb["sp"], got=failed, expect="the keys of both maps, each looked up in both maps",
                   detail="every key of the union is combined; nothing is filtered or skipped between the lookup and the combiner")
            continue
        _mutation_guard(R, rid, "zip_map", fb, allowed)
        R.inst(rid, "pair:zip_map", shapes_ok, sp=fb["sp"], expect="(key, combiner(<combination>)?)",
               detail="every key keeps its key; its value is combiner(combination) and the combiner's error is propagated")
        R.inst(rid, "source:zip_map", True, sp=fb["sp"], got=sorted(srcs or []),
               detail="every key of the union is combined; nothing is filtered or skipped between the lookup and the combiner")
        R.inst(rid, "key-union:zip_map", srcs == {("first", "keys"), ("second", "keys")}, sp=fb["sp"], got=sorted(srcs or []),
               expect="first.keys() chained with second.keys()", detail="the looked-up keys are the keys of both maps (union), not of one side")
    R.anchor(rid, "two-sided helper of zip_map_combination", bool(two_side))
    R.floor(rid, 64)


def _combiner_sites(fb, comb_id):
    """call nodes that invoke / pass on the combiner parameter"""
    out = []
    for n in H.walk(fb["body"]):
        if n.get("k") == "call":
            l = U.local_callee(n)
            if l and l[0] == comb_id:
                out.append(n)
        elif n.get("k") == "path" and n["res"].get("r") == "local" and n["res"]["id"] == comb_id:
            out.append(("use", n))
    calls = [n for n in out if isinstance(n, dict)]
    # a bare use of the combiner that is not the callee of one of the calls (passed on to another function) counts as a site
    return calls + [u for u in out if isinstance(u, tuple)]


def _mutation_guard(R, rid, label, fb, allowed):
    muts = [m for m in U.unmodelled_mutations(fb["body"]) if not any(m is a for a in allowed)]
    if muts:
        R.unrecognised(rid, "fn:" + label, "mutation besides the per-element accumulator: %s" % H.render(muts[0])[:120], muts[0].get("sp"))


DROPPING = {"filter", "filter_map", "skip", "skip_while", "take", "take_while", "step_by", "rev", "nth", "last", "find", "flat_map"}


def _calls_local(c, lid):
    for n in H.walk(c):
        if n.get("k") == "call":
            l = U.local_callee(n)
            if l and l[0] == lid:
                return True
    return False


def _subvalues(v):
    yield v
    if v[0] == "v":
        for x in v[2]:
            yield from _subvalues(x)
    elif v[0] == "t":
        for x in v[1]:
            yield from _subvalues(x)
    elif v[0] == "st":
        for x in v[2].values():
            yield from _subvalues(x)


# ===================================================================================== R09.2
def _kind_of(ty, fname):
    if ty.startswith(NAMES + "<"):
        return "names"
    if ty.startswith(NSS + "<"):
        return "namespaces"
    if ty.startswith("indexmap::map::IndexMap<"):
        return "zip"
    if fname == "javadoc":
        return "javadoc"
    if ty.startswith(MAPPINGS) and not ty.startswith(MAPPINGS + "JavadocMapping"):
        return "struct"
    return "equal"


def _plain(path):
    return [p for p in path if not p.startswith(".")]


def r09_2(q, R, spec):
    rid = "R09.2"
    R.rule(rid, "Mappings::merge level alignment: each output field is produced by the combiner of its kind (names->merge_names, "
                "namespaces->merge_namespaces, child map->zip_map_combination into a literal of the child level, javadoc->merge_javadoc(_ab), "
                "other->merge_equal) from the same field path of the same level of both inputs (A side first), with the error propagated by `?`")
    merge = _find_merge(q)
    roles = {k: {} for k in ("names", "equal", "javadoc", "javadoc_top", "namespaces", "zip", "map")}
    if not R.anchor(rid, "fn Mappings::merge (two &Mappings<2, _> -> Result<Mappings<3, _>>)", merge):
        return roles
    pids = H.param_ids(merge)
    if not R.anchor(rid, "merge(a, b): two parameters", len(pids) == 2, sp=merge["sp"]):
        return roles
    a_id, b_id = pids
    seen = {}

    def is_repo_fn(ck):
        return ck is not None and ck in q.by_key

    def callee_key(n):
        c = n.get("callee") or {}
        return c.get("inst_key") or c.get("key")

    def same_local(lid, want, root):
        """`lid` is `want` or a plain alias of it (`let ab = class_ab;` — Combination<&T> is Copy)"""
        return lid == want or H.origin_local(root, lid, follow_chains=False) == want

    def projection(arg, ctx, path, root):
        """(ok, got) : `arg` is <level combination>.map(|x| &x.<path>)"""
        m = H.peel(arg)
        if (m.get("k") == "mcall" and is_repo_fn(callee_key(m)) and len(m["args"]) == 1
                and (m["recv"].get("ty") or "").startswith(DM + "Combination<")):
            r = H.local_of(m["recv"])
            c = _fn_as_closure(q, H.peel(m["args"][0]))
            if r and ctx["kind"] == "comb" and same_local(r[0], ctx["x"], root) and c.get("k") == "closure" and len(c["params"]) == 1 and c["params"][0].get("k") == "bind":
                root, fp = H.place_root(c["body"])
                if root and root[0] == c["params"][0]["id"] and _plain(fp) == path and len(_plain(fp)) == len(fp):
                    roles["map"][callee_key(m)] = roles["map"].get(callee_key(m), 0) + 1
                    return True, H.render(m)
        return False, H.render(m)

    def pair(args, ctx, path):
        """two arguments = (&a.<path>, &b.<path>) in this order (top level)"""
        if len(args) != 2 or ctx["kind"] != "top":
            return False
        ra, pa = H.place_root(args[0])
        rb, pb = H.place_root(args[1])
        return bool(ra and rb and ra[0] == ctx["a"] and rb[0] == ctx["b"] and pa == path and pb == path)

    def level(lit, ctx, root, level_name, path):
        adt = q.adts.get(lit.get("adt") or "")
        if not R.anchor(rid, "ADT of literal %s" % lit.get("adt"), adt, sp=lit["sp"]):
            return
        ftypes = {f["name"]: f["ty"] for f in adt["variants"][0]["fields"]}
        if isinstance(lit.get("base"), dict):
            R.unrecognised(rid, "%s%s" % (level_name, "".join("." + p for p in path)), "struct update syntax `..base` in a merged node", lit["sp"])
        for f in lit["fields"]:
            fpath = path + [f["name"]]
            key = "%s.%s" % (level_name, ".".join(fpath))
            kind = _kind_of(ftypes.get(f["name"], "?"), f["name"])
            inner, saw_try, _ = U.strip_wrappers(f["e"], root)
            if kind == "struct":
                if inner.get("k") == "struct":
                    level(inner, ctx, root, level_name, fpath)
                else:
                    R.unrecognised(rid, key, "field of struct type is not built by a struct literal: %s" % H.render(inner)[:160], f["e"]["sp"])
                continue
            seen[key] = kind
            want_spec = [e for e in spec["levels"]["expected"] if e.rsplit(":", 1)[0] == key]
            if want_spec and want_spec[0].rsplit(":", 1)[1] != kind:
                R.inst(rid, "field:" + key, False, sp=f["e"]["sp"], expect=want_spec[0], got=kind,
                       detail="declared type of the field selects a different combiner kind than the property statement")
                continue
            ok = False
            expect = None
            child = None
            ck = callee_key(inner) if inner.get("k") == "call" else None
            fn_ok = is_repo_fn(ck)          # which function it is does not matter here: R09.1 evaluates it against the table of its kind
            args = inner.get("args", []) if inner.get("k") == "call" else []
            role = None
            if kind in ("names", "equal"):
                expect = "<%s combiner>(<level>.map(|x| &x.%s))?" % (kind, ".".join(fpath))
                ok = fn_ok and len(args) == 1 and projection(args[0], ctx, fpath, root)[0]
                role = kind
            elif kind == "namespaces":
                expect = "<namespaces combiner>(&a.%s, &b.%s)?" % (".".join(fpath), ".".join(fpath))
                ok = fn_ok and pair(args, ctx, fpath)
                role = kind
            elif kind == "javadoc":
                if ctx["kind"] == "comb":
                    expect = "<javadoc combiner>(<level>)?"
                    l = H.local_of(args[0]) if len(args) == 1 else None
                    ok = fn_ok and bool(l) and same_local(l[0], ctx["x"], root) and path == []
                    role = "javadoc"
                else:
                    expect = "<javadoc combiner>(a, b)?"
                    a0 = H.peel(args[0]) if len(args) == 1 else {}
                    if a0.get("k") == "call" and (H.ctor_of(a0) or (None, None))[1] == "AB":      # merge_javadoc(Combination::AB(a, b))
                        ls = [H.local_of(x) for x in a0["args"]]
                        ok = fn_ok and len(ls) == 2 and all(ls) and [ls[0][0], ls[1][0]] == [ctx["a"], ctx["b"]] and path == []
                        role = "javadoc"
                    else:
                        ls = [H.local_of(x) for x in args]
                        ok = fn_ok and len(ls) == 2 and all(ls) and {ls[0][0], ls[1][0]} == {ctx["a"], ctx["b"]} and path == []
                        role = "javadoc_top"
            elif kind == "zip":
                expect = ("<zip>(<level>.map(|x| &x.%s), |child| Ok(<child literal>))?" if ctx["kind"] == "comb" else
                          "<zip>(Combination::AB(&a.%s, &b.%s), |child| Ok(<child literal>))?  (A side first)") % ((".".join(fpath),) * (1 if ctx["kind"] == "comb" else 2))
                role = "zip"
                if fn_ok and len(args) == 2:
                    if ctx["kind"] == "comb":
                        okp = projection(args[0], ctx, fpath, root)[0]
                    else:
                        c0 = H.peel(args[0])
                        okp = (c0.get("k") == "call" and (H.ctor_of(c0) or (None, None))[1] == "AB" and (H.ctor_of(c0)[0] or "").endswith("Combination")
                               and pair(c0["args"], ctx, fpath))
                    child = _child_level(q, args[1])
                    ok = okp and child is not None
            if ok and role:
                roles[role][ck] = roles[role].get(ck, 0) + 1
            ok = ok and saw_try
            R.inst(rid, "field:" + key, ok, sp=f["e"]["sp"], expect=expect, got=H.render(f["e"])[:300],
                   detail=None if saw_try else "the combiner's error is not propagated with `?`")
            if kind == "zip" and child is not None:
                c_lit, c_x, c_root = child
                level(c_lit, {"kind": "comb", "x": c_x}, c_root, (c_lit.get("adt") or "?").rsplit("::", 1)[-1], [])

    tops = [n for n in H.walk(merge["body"], into_closures=False) if n.get("k") == "struct" and (n.get("adt") or "") == MAPPINGS + "Mappings"]
    if not R.anchor(rid, "Mappings literal in merge", len(tops) == 1, sp=merge["sp"]):
        return roles
    level(tops[0], {"kind": "top", "a": a_id, "b": b_id}, merge["body"], "Mappings", [])
    for e in spec["levels"]["expected"]:
        k = e.rsplit(":", 1)[0]
        if k not in seen:
            R.inst(rid, "field:" + k, False, sp=merge["sp"], expect=e, got="not produced in Mappings::merge")
    # merge_javadoc reads the comment through NodeJavadocInfo::get_node_javadoc_info: that must be the node's own `javadoc`
    levels = sorted({e.split(".", 1)[0] for e in spec["levels"]["expected"]})
    for lv in levels:
        acc = q.fn("get_node_javadoc_info", impl_ty=MAPPINGS + lv + "<")
        if not R.anchor(rid, "impl NodeJavadocInfo for " + lv, acc):
            continue
        adt = q.adts.get(MAPPINGS + lv) or {"variants": [{"fields": []}]}
        val = ("st", lv, {f["name"]: T.sym("self." + f["name"]) for f in adt["variants"][0]["fields"]})
        got = U.Ev().run_fn(U.norm_body(acc), [val])
        R.inst(rid, "javadoc-accessor:" + lv, got == T.sym("self.javadoc"), sp=acc["sp"], expect="self.javadoc", got=T.show(got))
    R.floor(rid, len(spec["levels"]["expected"]) + len(levels))
    return roles


def _fn_as_closure(q, c):
    """a function of the crate passed by name (`ab.map(names_of)`) read as the closure `|x| names_of(x)`: its parameters and body"""
    if c.get("k") == "path" and c["res"].get("r") == "def" and c["res"].get("dk") in ("Fn", "AssocFn"):
        fb = q.by_key.get(c["res"].get("inst_key")) or q.by_key.get(c["res"].get("key"))
        if fb is not None and isinstance(fb.get("body"), dict):
            return {"k": "closure", "params": fb["params"], "body": fb["body"], "sp": fb.get("sp")}
    return c


def _find_merge(q):
    """Mappings::merge by role: takes two `&Mappings<2, _>` and returns `Result<Mappings<3, _>, _>`; the name breaks ties."""
    m2 = "&" + MAPPINGS + "Mappings<2,"
    cands = [b for b in q.bodies if len(b.get("inputs") or []) == 2 and all(i.startswith(m2) for i in b["inputs"])
             and (b.get("output") or "").startswith("core::result::Result<" + MAPPINGS + "Mappings<3,")]
    if len(cands) > 1:
        named = [b for b in cands if b.get("name") == "merge"]
        cands = named or cands
    return cands[0] if len(cands) == 1 else None


def _child_level(q, arg):
    """combiner argument of zip_map_combination -> (struct literal of the child node, id of the combination parameter, closure body)"""
    c = H.peel(arg)
    if c.get("k") == "closure" and len(c["params"]) == 1 and c["params"][0].get("k") == "bind":
        x = c["params"][0]["id"]
        body = c["body"]
    elif c.get("k") == "path" and c["res"].get("r") == "def" and c["res"].get("key") in q.by_key:
        fb = q.by_key[c["res"]["key"]]
        ids = H.param_ids(fb)
        if len(ids) != 1:
            return None
        x = ids[0]
        body = fb["body"]
    else:
        return None
    res = H.peel(body)
    if res.get("k") == "block" and "tail" in res:
        res = H.peel(res["tail"])
    if res.get("k") == "ret" and "e" in res:
        res = H.peel(res["e"])
    if not (res.get("k") == "call" and (H.ctor_of(res) or (None, None))[1] == "Ok" and len(res["args"]) == 1):
        return None
    lit, _, _ = U.strip_wrappers(res["args"][0], body, allowed=())
    if lit.get("k") != "struct":
        return None
    return lit, x, body
