"""C14 — nesting renames classes identically in jars and in mappings (crate dukenest).

All rules evaluate the typed HIR of the current tree abstractly (lib/c14_util.py: names as atom sequences, finite
tables, opaque remapper terms, the four digit classes of an inner name) on finite abstract inputs and compare the
result with spec/nesting.json (property statement, doc comments, JVMS 4.7.6/4.7.7, nests file format) or with the
sibling implementation.  Nothing of /repo is executed.
"""
import json
import os
import re

from lib import hir as H
from lib import tables as T
from lib import c14_util as U

SPEC = os.path.join(os.path.dirname(os.path.dirname(os.path.abspath(__file__))), "spec", "nesting.json")
CR = "dukenest"

CLAIM = {
    "text": "Decided for the current source of dukenest, by abstract evaluation of its typed HIR on finite abstract inputs: "
            "(R14.1) the jar-side rename table (nester_jar) and the mappings-side translation table (nester_run::MyRemapper::new) "
            "both equal Top$n1$..$nk for nest chains of depth 1..4 (same '$', recursion on the enclosing class, fallback to the "
            "enclosing name, inner name last), the undo table is the inverse of the apply table, both map_class_fail look the name "
            "up in that table, Nests::add keys by class_name, and io::read_line and NestTypeA::new classify inner names identically "
            "on the four digit classes (digits/mixed/plain/empty); (R14.2) the nest filter equals the table present(class) && "
            "(Anonymous: index >= 1 | Inner: !has_encl_method | Local: has_encl_method) on 84 cells, has_encl_method = method "
            "given && enclosing class in jar && declared, a missing enclosing class of an applied nest is created under the "
            "enclosing name and registered, the jar index is keyed by the class name; (R14.3) the attribute synthesis table "
            "(EnclosingMethod iff Anonymous|Local, outer_class iff Inner, inner_name iff Inner|Local with the digit prefix "
            "stripped for Local, sources of every attribute field, unlisted classes untouched), decided per cell nest type x "
            "enclosing method given/absent (EnclosingMethod is written for anonymous/local nests without an enclosing method too, "
            "method = None), a cell being (values, path condition): an attribute write, the InnerClasses push or (R14.2) the creation "
            "of a missing enclosing class that happens only under a condition the cell's inputs leave undecided (state of the class, "
            "access flags, an early return) is a violation naming that condition; (R14.4) apply_/undo_nests_to_"
            "mappings rebuild every field of the mappings tree as identity / container map / source-translator map_*_desc, "
            "class names through the source translator (key) and the translated-nests translator (second name), flags true/false; "
            "map_nests keeps every nest and builds each field as specified (owner of the enclosing method = untranslated enclosing "
            "class, direction first->second, already-nested C__D split at the last '__'); inner_name decision table (7 cells); "
            "(R14.5) nests file: 6 tab separated columns, column -> Nest field table, required columns, enclosing method absent "
            "iff name or descriptor column empty; (R14.6) in nest_jar every class written passes attribute synthesis before "
            "renaming, renaming and entry renaming happen exactly under the remap flag with the remapper built from the rename "
            "table, created classes are emitted; (R14.7) the public wrappers forward to the same-named implementation. Premises evaluated with it: C07 R07.1-3 (reference traversal of dukebox::remap), C06 R06.1/R06.4.",
    "note": "Not decided: the jar/mappings agreement as a relation over all concrete tables, jars and mappings (order dependence of the "
            "filter on the table order, cyclic tables, termination), that references inside classes are rewritten (C07), the "
            "behaviour of ARemapper::map_class / map_*_desc (C06), the second-namespace names after undo (the dst post-processing is "
            "exempt), hex/binary/decimal access parsing. Trusted: rustc HIR/typeck; the abstract semantics of the std/indexmap "
            "combinators listed in lib/c14_util.py; spec/nesting.json.",
    "technique": "static analysis: abstract evaluation (pattern-matrix evaluator + name/table/digit-class domains) of typed HIR "
                 "against decision tables whose cells carry the path conditions of the recorded effects, sibling agreement, structure-preserving-map conformance, must-pass-through",
}

KINDS = ("Anonymous", "Inner", "Local")
KIND_CLS = {"Anonymous": "digits", "Local": "mixed", "Inner": "plain"}


# ------------------------------------------------------------------------------------------------- helpers
def mk_nest(cls, encl, inner, kind="Inner", method=None, access="acc"):
    return ("st", "Nest", {
        "nest_type": T.V(kind),
        "class_name": U.name(cls),
        "encl_class_name": U.name(encl),
        "encl_method": T.V("Some", U.name(method)) if method else T.V("None"),
        "inner_name": U.name(inner),
        "inner_access": U.name(access),
    })


def nests_value(tbl):
    return ("st", "Nests", {"all": tbl, "phantom": U.term("PhantomData")})


def judge(R, rid, key, got, want, sp=None, detail=None, show_want=None, ev=None):
    """instance `got == want`; an uninterpreted result is reported as unrecognised construct (fail closed)."""
    if got != want and ev is not None and ev.unknown:
        R.unrecognised(rid, key, "abstract evaluation met a construct it does not model: %s" % "; ".join(ev.unknown)[:300], sp)
        return False
    if got == want:
        return R.inst(rid, key, True, sp=sp, detail=detail, expect=show_want or U.show(want), got=U.show(got))
    s = U.has_sym(got)
    if s and not U.has_sym(want):
        R.unrecognised(rid, key, "abstract evaluation left an uninterpreted value: %s" % s[:300], sp)
        return False
    return R.inst(rid, key, False, sp=sp, detail=detail, expect=show_want or U.show(want), got=U.show(got)[:600])


def conditions_of(ev, effects):
    """the undecided conditions (texts, in order, without repetition) under which the recorded effects were executed.
    A table cell fixes every input the specification lets the decision depend on, so a condition that is still undecided
    in a cell depends on something else: it is part of the cell and is compared with the specification's `unconditionally`."""
    out = []
    for e in effects:
        for g in ev.guards_of(e):
            if g not in out:
                out.append(g)
    return out


def eval_with_lets(ev, root, e, env, depth=0):
    """evaluate `e`; locals it mentions that are not in env are evaluated from their `let x = init` first."""
    for lid in U.free_locals(e):
        if lid in env or depth > 6:
            continue
        init = H.let_init_of(root, lid)
        if init is not None:
            env[lid] = eval_with_lets(ev, root, init, env, depth + 1)
    return ev.run_expr(e, env)


def chain(depth):
    """abstract table K1..Kd, K_i nested in K_{i-1}, K0 = Top (not listed); expected new names."""
    names = ["Top"] + ["K%d" % i for i in range(1, depth + 1)]
    pairs = []
    want = []
    for i in range(depth, 0, -1):                       # deepest first: the result must not depend on the table order
        pairs.append((U.name(names[i]), mk_nest(names[i], names[i - 1], "n%d" % i)))
    for i in range(1, depth + 1):
        parts = ["Top"]
        for j in range(1, i + 1):
            parts += [U.lit(SEP[0]), "n%d" % j]
        want.append((U.name(names[i]), U.name(*parts)))
    return pairs, want


SEP = ["$"]


# rules of sibling properties that decide code on this property's own call path: nest_jar rewrites references through dukebox::remap (C07) with a BRemapper (C06)
PREMISES = [("C07", ["R07.1", "R07.2", "R07.3"]), ("C06", ["R06.1", "R06.4"])]

def run(F, R, tier):
    with open(SPEC) as f:
        spec = json.load(f)
    SEP[0] = spec["separator"]
    c = F.crate(CR)
    duke = F.crate("duke")
    quill = F.crate("quill")
    inline = {b["key"]: b for b in c.bodies if b.get("name")}
    fic = duke.fn("from_inner_class", impl_ty="ObjClassName")
    if fic:
        inline[fic["key"]] = fic
    ctx = {"c": c, "duke": duke, "quill": quill, "inline": inline, "spec": spec, "fic": fic, "roles": roles(c)}
    rl = read_line_table(ctx, R)
    r14_1(ctx, R, rl)
    r14_2(ctx, R)
    r14_3(ctx, R)
    r14_4(ctx, R)
    r14_5(ctx, R, rl)
    r14_6(ctx, R)
    r14_7(ctx, R)
    return ("abstract evaluation of dukenest's typed HIR (names as atom sequences, finite tables, opaque remapper terms, digit classes) "
            "against spec/nesting.json: rename/translation tables for chains of depth 1..4 on both sides and their agreement, inner-name "
            "classification on both sides, nest filter table (84 cells) with enclosing-class creation, attribute synthesis table, "
            "structure-preserving-map conformance of apply/undo_nests_to_mappings and map_nests, inner_name table, nests file columns, "
            "nest_jar pipeline order, wrapper forwarding")


# ------------------------------------------------------------------------------------------------- anchors by role
def _tail(n):
    n = H.peel(n, refs=False)
    while n.get("k") == "block" and "tail" in n and not n["stmts"]:
        n = H.peel(n["tail"], refs=False)
    return n


def impl_of(c, pubname):
    """the function that implements the public entry point dukenest::<pubname>: the crate function its body forwards to,
    or the entry point itself when it does not just forward."""
    b = c.body("dukenest::" + pubname)
    if not b:
        return None
    seen = set()
    while b and b["key"] not in seen:
        seen.add(b["key"])
        t = _tail(b["body"])
        nxt = c.by_key.get((t.get("callee") or {}).get("key")) if t.get("k") == "call" else None
        if nxt is None or not nxt.get("name"):
            return b
        pids = H.param_ids(b)
        if [H.local_of(a)[0] if H.local_of(a) else None for a in t["args"]] != pids:
            return b
        b = nxt
    return b


def crate_callees(c, body, depth=1):
    """crate functions called from `body` (closures and nested helpers included, `depth` further levels of helpers)."""
    out = {}
    work = [(body, 0)]
    while work:
        b, d = work.pop()
        for n in H.walk(b["body"]):
            if n.get("k") in ("call", "mcall"):
                k_ = (n.get("callee") or {}).get("inst_key") or (n.get("callee") or {}).get("key")
                f = c.by_key.get(k_)
                if f is not None and f.get("name") and k_ not in out:
                    out[k_] = f
                    if d < depth:
                        work.append((f, d + 1))
    return list(out.values())


def pick(cands, prefer):
    """exactly one candidate; the conventional name is only a tie-breaker"""
    if len(cands) == 1:
        return cands[0]
    named = [b for b in cands if b.get("name") == prefer]
    return named[0] if len(named) == 1 else None


def _ty(t):
    """type string without lifetime names: `&'a str` / `&'_ str` / `&'static str` are all `&str` for the role of a parameter"""
    return re.sub(r"'[A-Za-z_][A-Za-z0-9_]*\s*(?=[A-Za-z&\[(*<])", "", t or "")


def roles(c):
    r = {}
    r["nest_jar"] = impl_of(c, "nest_jar")
    r["apply"] = impl_of(c, "apply_nests_to_mappings")
    r["undo"] = impl_of(c, "undo_nests_to_mappings")
    r["map_nests"] = impl_of(c, "remap_nests")
    remapper_adts = {(b.get("impl_ty") or "").split("<")[0]: b for b in c.bodies if b.get("name") == "map_class_fail"}
    r["remapper_adts"] = remapper_adts
    # mappings side: constructor of a table-backed ARemapper from (nests, flag), used by apply and undo
    def ctor_cands(impl):
        if not impl:
            return []
        return [f for f in crate_callees(c, impl) if (f.get("output") or "").split("<")[0] in remapper_adts
                and any("dukenest::nest::Nests" in t for t in f.get("inputs") or []) and "bool" in (f.get("inputs") or [])]
    ca, cu = ctor_cands(r["apply"]), ctor_cands(r["undo"])
    both = [f for f in ca if any(f is g for g in cu)]
    r["translator_new"] = pick(both, "new")
    r["mappings_lookup"] = remapper_adts.get((r["translator_new"].get("output") or "").split("<")[0]) if r["translator_new"] else None
    r["add"] = pick([b for b in c.bodies if b.get("name") and len(b.get("inputs") or []) == 2 and _ty(b["inputs"][0]).startswith("&mut dukenest::nest::Nests")
                     and b["inputs"][1] == "dukenest::nest::Nest"], "add")
    r["read_line"] = pick([b for b in c.bodies if b.get("name") and [_ty(t) for t in (b.get("inputs") or [])] == ["&str"]
                           and (b.get("output") or "").startswith("core::result::Result<dukenest::nest::Nest,")], "read_line")
    r["read_loop"] = None
    if r["read_line"]:
        callers = [b for b in c.bodies if b.get("name") and b is not r["read_line"] and
                   any(n.get("k") in ("call", "mcall") and ((n.get("callee") or {}).get("inst_key") or (n.get("callee") or {}).get("key")) == r["read_line"]["key"] for n in H.walk(b["body"]))]
        r["read_loop"] = pick(callers, "read_from_reader")
    r["split"] = r["inner_name"] = r["classifier"] = None
    if r["map_nests"]:
        # helpers called from the translation, directly or from a private helper it was split into (a loop body extracted into
        # `map_nest(remapper, nest)` still calls the same splitter and inner-name function)
        cs = crate_callees(c, r["map_nests"], depth=2)
        r["split"] = pick([f for f in cs if "core::option::Option<(&" in (f.get("output") or "")], "rsplit_underscore")
        r["inner_name"] = pick([f for f in cs if len(f.get("inputs") or []) == 3 and (f.get("output") or "").startswith("core::result::Result<duke::tree::class::ObjClassName,")], "inner_name")
    if r["inner_name"]:
        enums = {p_ for p_, a in c.adts.items() if a["kind"] == "enum"}
        r["classifier"] = pick([f for f in crate_callees(c, r["inner_name"], depth=1) if (f.get("output") or "").split("<")[0] in enums], "new")
    return r


# ------------------------------------------------------------------------------------------------- R14.1
TABLE_TY = re.compile(r"Map<duke::tree::class::ObjClassName, dukenest::nest::Nest(, [^<>]*)?>$")


def jar_anchor(c):
    """(nest_jar implementation, region that builds the filtered nests table, ids of the locals holding that table,
    ctor call of the jar-side remapper).  The region is ("expr", initialiser) for `let t = nests.all...filter(..).collect()`
    or ("loop", for-node) for `let mut t = IndexMap::new(); for .. in nests.all { .. t.insert(..) }`."""
    nj = impl_of(c, "nest_jar")
    if not nj:
        return None, None, None, None
    body = nj["body"]
    pids = H.param_ids(nj)
    nests_pid = None
    for i, t in enumerate(nj.get("inputs") or []):
        if t.startswith("dukenest::nest::Nests") and i < len(pids):
            nests_pid = pids[i]
    lets = [n for n in H.walk(body, into_closures=False) if n.get("k") == "let" and "init" in n and n["pat"].get("k") == "bind"
            and TABLE_TY.search(n["pat"].get("ty") or _local_ty(body, n["pat"]["id"]) or "")]
    tids = {n["pat"]["id"] for n in lets}
    region = None
    for n in lets:
        from_nests = any(H.local_of(x) and H.origin_local(body, H.local_of(x)[0]) == nests_pid for x in H.walk(n["init"]) if x.get("k") == "path")
        if from_nests and region is None:
            region = ("expr", n["init"])
    if region is None and tids:
        for n in H.walk(body, into_closures=False):
            if n.get("k") == "for" and any(x.get("k") == "mcall" and x["name"] == "insert" and H.local_of(x["recv"]) and H.local_of(x["recv"])[0] in tids for x in H.walk(n["body"])):
                rr = H.recv_root(n["iter"])
                if rr and H.origin_local(body, rr[0]) == nests_pid and region is None:
                    region = ("loop", n)
    remapper_adts = {(b.get("impl_ty") or "").split("<")[0] for b in c.bodies if b.get("name") == "map_class_fail"}
    ctor = None
    for n in H.walk(body):
        if n.get("k") == "call" and (n.get("callee") or {}).get("dk", "").startswith("Ctor") and (n["callee"].get("adt") or "") in remapper_adts:
            ctor = n
    if region is not None:
        region = region + (nests_pid,)
    return nj, region, (tids or None), ctor


def r14_1(ctx, R, rl):
    rid = "R14.1"
    c, inline, spec = ctx["c"], ctx["inline"], ctx["spec"]
    R.rule(rid, "sibling agreement on the new name of a nested class: the jar-side rename table and the mappings-side translation "
                "table both equal  name(nest) = (enclosing class listed ? name(its nest) : enclosing class) + '$' + inner name  for "
                "chains of depth 1..4; the undo table is the inverse; the remappers look names up in these tables; the table is keyed "
                "by the un-nested class name; io::read_line and NestTypeA::new classify inner names identically "
                "(all digits -> anonymous, leading digit -> local, else inner)")
    R.anchor(rid, "fn duke ObjClassName::from_inner_class", ctx["fic"])
    nj, region, tid, ctor = jar_anchor(c)
    ok_j = (R.anchor(rid, "implementation of dukenest::nest_jar", nj) and R.anchor(rid, "local holding the filtered nests table", tid is not None, sp=nj and nj["sp"])
            and R.anchor(rid, "construction of the jar-side ARemapper from the rename table", ctor is not None and len(ctor["args"]) == 1, sp=nj and nj["sp"]))
    new = ctx["roles"]["translator_new"]
    ok_m = R.anchor(rid, "constructor (nests, flag) -> table-backed ARemapper used by apply_/undo_nests_to_mappings", new)
    for depth in (1, 2, 3, 4):
        pairs, want = chain(depth)
        want_tbl = U.table(want)
        want_inv = U.table([(v, k) for k, v in want])
        jar_tbl = None
        if ok_j:
            ev = U.Ev(inline=inline)
            jar_tbl = eval_with_lets(ev, nj["body"], ctor["args"][0], {t_: U.table(pairs) for t_ in tid})
            judge(R, rid, "jar:rename-table:depth-%d" % depth, jar_tbl, want_tbl, sp=ctor["sp"], ev=ev,
                  detail="old name -> new name for the chain Top <- K1 <- .. <- K%d with inner names n1..n%d" % (depth, depth))
        if ok_m:
            got = {}
            for flag in (True, False):
                ev = U.Ev(inline=inline)
                r = ev.run_fn(new, [nests_value(U.table(pairs)), ("b", flag)])
                got[flag] = r[2][0] if r[0] == "v" and len(r[2]) == 1 else r
                judge(R, rid, "mappings:%s-table:depth-%d" % ("apply" if flag else "undo", depth), got[flag], want_tbl if flag else want_inv, sp=new["sp"], ev=ev,
                      detail="translation table of MyRemapper::new(nests, %s)" % str(flag).lower())
            if jar_tbl is not None:
                judge(R, rid, "agree:jar=mappings:depth-%d" % depth, jar_tbl, got[True], sp=new["sp"],
                      detail="the jar-side rename table and the mappings-side apply table must be the same function of the nests table")
    # the remappers answer from the table
    jar_lookup = ctx["roles"]["remapper_adts"].get(ctor["callee"].get("adt")) if ctor is not None else None
    for side, f_ in (("jar", jar_lookup), ("mappings", ctx["roles"]["mappings_lookup"])):
        fns = [f_] if f_ else []
        if not R.anchor(rid, "impl ARemapper::map_class_fail of the %s-side remapper" % side, len(fns) == 1):
            continue
        tbl = U.table([(U.name("Old"), U.name("New"))])
        selfv = ("v", "MyRemapper", [tbl])
        for what, arg, want in (("hit", U.name("Old"), T.V("Ok", T.V("Some", U.name("New")))), ("miss", U.name("Other"), T.V("Ok", T.V("None")))):
            ev = U.Ev(inline=inline)
            judge(R, rid, "%s:lookup:%s" % (side, what), ev.run_fn(fns[0], [selfv, arg]), want, sp=fns[0]["sp"],
                  detail="map_class_fail(name) = table.get(name)")
    add = ctx["roles"]["add"]
    if R.anchor(rid, "fn Nests::add(&mut self, Nest)", add):
        ev = U.Ev(inline=inline)
        tb = U.table([])
        nest = mk_nest("K", "E", "i")
        ev.run_fn(add, [nests_value(tb), nest])
        judge(R, rid, "table-key:Nests::add", tb, U.table([(U.name("K"), nest)]), sp=add["sp"],
              detail="every lookup (jar presence, attribute synthesis, translation) is by the un-nested class name")
    # classification
    nta = ctx["roles"]["classifier"]
    ok_n = R.anchor(rid, "inner-name classifier used by the nests translation (NestTypeA::new)", nta)
    for cls, kind in sorted(spec["inner_name_classes"].items()):
        if cls.startswith("_"):
            continue
        a = None
        if rl is not None:
            a = rl["classify"].get(cls)
            judge(R, rid, "classify:read_line:%s" % cls, a, T.V(kind), sp=rl["sp"], detail="nest_type for an inner name of digit class `%s`" % cls)
        if ok_n:
            ev = U.Ev(inline=inline, cls={"I": cls})
            b = ev.run_fn(nta, [U.name("I")])
            want = T.V(kind, U.name("I.digits"), U.name("I.simple")) if kind == "Local" else T.V(kind, U.name("I"))
            judge(R, rid, "classify:NestTypeA:%s" % cls, b, want, sp=nta["sp"], detail="NestTypeA::new for an inner name of digit class `%s`" % cls)
            if a is not None:
                R.inst(rid, "classify:agree:%s" % cls, a[0] == "v" and b[0] == "v" and a[1] == b[1], sp=nta["sp"],
                       expect="same kind on both sides", got="%s / %s" % (U.show(a), U.show(b)))
    R.floor(rid, 4 * 4 + 4 + 1 + 9)


# ------------------------------------------------------------------------------------------------- R14.2
def r14_2(ctx, R):
    rid = "R14.2"
    c, duke, inline, spec = ctx["c"], ctx["duke"], ctx["inline"], ctx["spec"]
    R.rule(rid, "nest filter of nest_jar = decision table: a listed nest is applied iff its class is in the jar and (Anonymous: the "
                "inner name parses to an index >= 1 | Inner: the enclosing method is not declared | Local: it is), where declared = "
                "method given && enclosing class originally in the jar && its method set contains it; an applied nest whose enclosing "
                "class is missing creates that class under the enclosing name and registers it as present; the jar index is keyed by "
                "the class names read from the jar")
    nj, region, tid, ctor = jar_anchor(c)
    if not (R.anchor(rid, "implementation of dukenest::nest_jar", nj)
            and R.anchor(rid, "construction of the filtered nests table from nests.all (filter(..).collect() or a loop inserting into it)", region is not None, sp=nj and nj["sp"])):
        return
    rkind, rnode, nests_pid = region
    clo = rnode
    free = U.free_locals(rnode)
    role = {}
    for lid, (nm, ty) in free.items():
        if re.search(r"Set<duke::tree::class::ObjClassName>$", ty):
            role.setdefault("present", []).append(lid)
        elif re.search(r"Map<duke::tree::class::ObjClassName, .*Set<duke::tree::method::MethodNameAndDesc>>$", ty):
            role.setdefault("methods", []).append(lid)
        elif re.search(r"Map<duke::tree::class::ObjClassName, duke::tree::class::ClassFile>$", ty):
            role.setdefault("created", []).append(lid)
    if not (R.anchor(rid, "set of class names present in the jar (used by the filter)", len(role.get("present", [])) == 1, sp=clo["sp"])
            and R.anchor(rid, "map class name -> declared methods (used by the filter)", len(role.get("methods", [])) == 1, sp=clo["sp"])
            and R.anchor(rid, "map of created classes (used by the filter)", len(role.get("created", [])) == 1, sp=clo["sp"])):
        return
    P, M, Cn = role["present"][0], role["methods"][0], role["created"][0]
    # which argument of ClassFile::new is the class name
    cfn = duke.fn("new", impl_ty="duke::tree::class::ClassFile")
    name_idx = None
    if cfn:
        pids = H.param_ids(cfn)
        for n in H.walk(cfn["body"]):
            if n.get("k") == "struct" and (n.get("adt") or "").endswith("::ClassFile"):
                for f in n["fields"]:
                    l = H.local_of(f["e"])
                    if f["name"] == "name" and l and l[0] in pids:
                        name_idx = pids.index(l[0])
    R.anchor(rid, "duke ClassFile::new(.., name, ..)", name_idx is not None)

    def hook_new(args, n):
        if ((n.get("callee") or {}).get("path") or "").endswith("ClassFile::new"):
            return U.term("ClassFile::new", *args)
        return None

    idx_vals = {"0": T.V("Ok", ("i", 0)), "1": T.V("Ok", ("i", 1)), "max": T.V("Ok", ("i", 2147483647)), "overflow": T.V("Err", U.term("ParseIntError"))}
    ptypes = set()
    n_cells = 0
    for kind in KINDS:
        for cpres in (True, False):
            for encl in ("in-jar", "created-earlier", "absent"):
                for meth in ("none", "declared", "undeclared"):
                    if meth == "declared" and encl != "in-jar":
                        continue
                    for idx in (("0", "1", "max", "overflow") if kind == "Anonymous" else ("n/a",)):
                        n_cells += 1
                        key = "cell:%s/class-%s/encl-%s/method-%s/index-%s" % (kind, "present" if cpres else "absent", encl, meth, idx)
                        nest = mk_nest("K", "E", "I", kind, method=None if meth == "none" else "m")
                        present = U.tset(([U.name("K")] if cpres else []) + ([U.name("E")] if encl != "absent" else []))
                        mt = []
                        if cpres:
                            mt.append((U.name("K"), U.tset([])))
                        if encl == "in-jar":
                            mt.append((U.name("E"), U.tset([U.name("m")] if meth == "declared" else [U.name("other")])))
                        created = U.table([(U.name("E"), U.term("earlier-created"))] if encl == "created-earlier" else [])
                        env = {P: present, M: U.table(mt), Cn: created, nests_pid: nests_value(U.table([(U.name("K"), nest)]))}
                        for t_ in tid:
                            env[t_] = U.table([])
                        ev = U.Ev(inline=inline, cls={"I": KIND_CLS[kind]}, parse={"I": idx_vals.get(idx, T.V("Err", U.term("ParseIntError")))},
                                  hooks={"new": hook_new})
                        res = ev.run_expr(rnode, env)
                        if rkind == "loop":
                            res = next((env[t_] for t_ in tid if env[t_][0] == "tbl" and env[t_][1]), U.table([]))
                        got = ("b", U.key_of(U.name("K")) in res[1]) if res[0] == "tbl" and set(res[1]) <= {U.key_of(U.name("K"))} else res
                        ptypes.update(ev.parse_types)
                        hem = meth == "declared" and encl == "in-jar"
                        rule = {"Anonymous": idx in ("1", "max"), "Inner": not hem, "Local": hem}[kind]
                        want = cpres and rule
                        judge(R, rid, key, got, ("b", want), sp=clo["sp"],
                              detail="keep = class present && %s" % spec["filter"][kind])
                        if want and encl == "absent":
                            ins = [e for e in ev.fx if e[0] == "entry-insert" and e[2] == U.name("E")]
                            okc = (len(ins) == 1 and ins[0][3][0] == "v" and ins[0][3][1] == "ClassFile::new" and name_idx is not None
                                   and name_idx < len(ins[0][3][2]) and ins[0][3][2][name_idx] == U.name("E"))
                            reg = U.key_of(U.name("E")) in present[1]
                            cond = conditions_of(ev, ins + [e for e in ev.fx if e[0] == "insert" and e[2] == U.name("E")])
                            R.inst(rid, "encl-created:" + key[5:], okc and reg and not cond, sp=clo["sp"],
                                   expect="created[E] = ClassFile::new(.., name = E, ..) and E registered as present",
                                   got="effects %s; registered=%s%s" % ([(e[0], e[1], U.show(e[2])) for e in ev.fx], reg,
                                                                         "; only when " + " and ".join(cond)[:300] if cond else ""),
                                   detail="an applied nest whose enclosing class is not in the jar must create it under nest.encl_class_name")
    ok_t = bool(ptypes) and all(re.search(r"Result<(i32|i64|i128|isize|u32|u64|u128|usize),", t or "") for t in ptypes)
    R.inst(rid, "anonymous-index-type", ok_t, sp=clo["sp"], expect="an integer type of at least %d bits" % spec["filter"]["anonymous_index_min_bits"], got=sorted(str(t) for t in ptypes))
    # jar index: present set and method table keyed by the class name of the class read from the jar
    body = nj["body"]
    for what, lid in (("present-set", P), ("method-table", M)):
        o = H.origin_local(body, lid)
        ins = [n for n in H.walk(body, into_closures=False) if n.get("k") == "mcall" and n["name"] == "insert" and H.recv_root(n["recv"])
               and H.origin_local(body, H.recv_root(n["recv"])[0]) == o]
        ok = False
        got = [H.render(n) for n in ins]
        for n in ins:
            root, path = H.place_root(n["args"][0])
            fp = [p for p in path if not p.startswith(".")]
            if root and fp == ["name"] and "ClassFile" in (_local_ty(body, root[0]) or ""):
                if what == "present-set":
                    ok = True
                else:
                    vals = U.expand_locals(body, n["args"][1])
                    from_methods = any(x.get("k") == "field" and x["name"] == "methods" and H.local_of(x["e"]) and H.local_of(x["e"])[0] == root[0] for x in vals)
                    conv = any(x.get("k") == "path" and (x["res"].get("path") or "").endswith("into_name_and_desc") for x in vals) or \
                        any(H.is_call(x, "into_name_and_desc", "as_name_and_desc") for x in vals)
                    ok = from_methods and conv
        R.inst(rid, "jar-index:%s" % what, ok, sp=nj["sp"], got=got,
               expect="insert(class.name%s) for every class read from the jar" % ("" if what == "present-set" else ", methods of that class as name+descriptor"))
    R.floor(rid, n_cells + 3)


def _local_ty(body, lid):
    for x in H.walk(body):
        if x.get("k") == "path" and x["res"].get("r") == "local" and x["res"]["id"] == lid:
            return x.get("ty")
    return None


# ------------------------------------------------------------------------------------------------- R14.3
def r14_3(ctx, R):
    rid = "R14.3"
    c, inline, spec = ctx["c"], ctx["inline"], ctx["spec"]
    A = spec["attributes"]
    R.rule(rid, "attribute synthesis table for a class listed in the filtered nests table (lookup by the class's own name): "
                "EnclosingMethod{class = enclosing class, method = enclosing method} iff Anonymous|Local; exactly one InnerClasses entry "
                "with inner_class = the class, outer_class = enclosing class iff Inner, inner_name iff Inner|Local (digit prefix stripped "
                "for Local), flags = the nest's access flags; a class that is not listed is returned untouched (JVMS 4.7.6, 4.7.7). "
                "The table is decided per cell (nest type x enclosing method given/absent); a cell is (attribute values, condition): a "
                "condition the cell's inputs leave undecided (state of the class, flags, anything outside the table) on the path to an "
                "attribute write is compared with the specification's `unconditionally`")
    fns = [b for b in c.bodies if b.get("name") and any(n.get("k") == "struct" and n.get("adt") == "duke::tree::class::InnerClass" for n in H.walk(b["body"]))]
    if not R.anchor(rid, "the function of dukenest that builds an InnerClass entry", len(fns) == 1):
        return
    fn = fns[0]
    ins = fn.get("inputs") or []
    ti = [i for i, t in enumerate(ins) if "Map<duke::tree::class::ObjClassName, dukenest::nest::Nest>" in t]
    ci = [i for i, t in enumerate(ins) if t.endswith("duke::tree::class::ClassFile")]
    if not R.anchor(rid, "parameters (nests table, ClassFile) of %s" % fn["name"], len(ti) == 1 and len(ci) == 1 and len(ins) == 2, sp=fn["sp"]):
        return
    cf_name = H.pat_bindings(fn["params"][ci[0]])[0][1]
    n_inst = 0
    returns_class = (fn.get("output") or "").endswith("duke::tree::class::ClassFile")
    # (Local, no method given) never passes the nest filter, so it is not part of the table
    for kind0, meth in [(k_, m_) for k_ in KINDS for m_ in ("given", "absent") if (k_, m_) != ("Local", "absent")]:
        kind = "%s/method-%s" % (kind0, meth)
        nest = mk_nest("K", "E", "I", kind0, method="m" if meth == "given" else None)
        cfv = ("st", "ClassFile", {"name": U.name("K"), "inner_classes": U.term("old-inner-classes"), "enclosing_method": U.term("old-enclosing-method")})
        args = [None, None]
        args[ti[0]] = U.table([(U.name("K"), nest), (U.name("Other"), mk_nest("Other", "E", "J", "Inner"))])
        args[ci[0]] = cfv
        ev = U.Ev(inline=inline, cls={"I": KIND_CLS[kind0], "J": "plain"})
        ret = ev.run_fn(fn, args)
        asg = [e for e in ev.fx if e[0] == "assign"]
        psh = [e for e in ev.fx if e[0] == "push"]
        want_em = A[kind0]["enclosing_method"]
        em_target = "%s.enclosing_method" % cf_name
        em = [e for e in asg if e[1] == em_target]
        if want_em:
            want_v = T.V("Some", ("st", "EnclosingMethod", {"class": nest[2][A["sources"]["EnclosingMethod.class"]],
                                                            "method": nest[2][A["sources"]["EnclosingMethod.method"]]}))
            cond = conditions_of(ev, em)
            if cond:
                # the cell is (value, condition): the specification writes the attribute for every nest of this cell
                R.inst(rid, "attr:%s:EnclosingMethod" % kind, False, sp=fn["sp"],
                       expect="%s, unconditionally for a nest of this kind" % U.show(want_v),
                       got="%s, but only when %s" % (" / ".join(U.show(e[2])[:200] for e in em), " and ".join(cond)[:400]),
                       detail="EnclosingMethod is written iff the nest is anonymous or local (whether or not it has an enclosing method); "
                              "no further condition may gate it")
            else:
                judge(R, rid, "attr:%s:EnclosingMethod" % kind, em[0][2] if len(em) == 1 else T.V("absent" if not em else "assigned-%d-times" % len(em)), want_v, sp=fn["sp"],
                      detail="local and anonymous classes carry EnclosingMethod{class: nest.encl_class_name, method: nest.encl_method}" +
                             ("; this cell differs from %s/method-given only in nest.encl_method = None (class declared in an initialiser): the "
                              "attribute is still written, with method = None - its presence must not depend on the enclosing method" % kind0
                              if meth == "absent" else ""))
        else:
            R.inst(rid, "attr:%s:EnclosingMethod" % kind, not em, sp=fn["sp"], expect="no EnclosingMethod for a member class",
                   got=[U.show(e[2]) + (" when " + " and ".join(conditions_of(ev, [e])) if ev.guards_of(e) else "") for e in em])
        n_inst += 1
        other = [e for e in asg if e[1] != em_target]
        R.inst(rid, "attr:%s:no-other-assignment" % kind, not other, sp=fn["sp"], got=[(e[1], U.show(e[2])) for e in other], nontrivial=False)
        ic = [e for e in psh if e[3] == U.term("vec-inside", cfv[2]["inner_classes"]) and e[2][0] == "st" and e[2][1] == "InnerClass"]
        cond = conditions_of(ev, psh)
        if not R.inst(rid, "attr:%s:one-InnerClasses-entry" % kind, len(ic) == 1 and len(psh) == 1 and not cond, sp=fn["sp"],
                      got=[(e[1], U.show(e[2])[:200]) for e in psh] + (["only when " + " and ".join(cond)[:400]] if cond else []),
                      expect="exactly one push of an InnerClass onto %s.inner_classes, unconditionally for a listed class" % cf_name):
            continue
        got = ic[0][2][2]
        src = A["sources"]
        iname = nest[2][src["InnerClass.inner_name"]]
        if A.get("inner_name_value", {}).get(kind0) == "simple":
            iname = U.name("I.simple")
        want = {
            "inner_class": nest[2][src["InnerClass.inner_class"]],
            "outer_class": T.V("Some", nest[2][src["InnerClass.outer_class"]]) if A[kind0]["outer_class"] else T.V("None"),
            "inner_name": T.V("Some", iname) if A[kind0]["inner_name"] else T.V("None"),
            "flags": nest[2][src["InnerClass.flags"]],
        }
        for f in sorted(set(want) | set(got)):
            n_inst += 1
            if f not in want:
                R.inst(rid, "attr:%s:InnerClass.%s" % (kind, f), False, sp=fn["sp"], detail="InnerClass field without a specification entry")
                continue
            judge(R, rid, "attr:%s:InnerClass.%s" % (kind, f), got.get(f, T.V("missing")), want[f], sp=fn["sp"])
        if returns_class:
            judge(R, rid, "attr:%s:returns-the-class" % kind, ret, cfv, sp=fn["sp"], detail="the (updated) class is returned")
    # not listed
    cfv = ("st", "ClassFile", {"name": U.name("Unlisted"), "inner_classes": U.term("old-inner-classes"), "enclosing_method": U.term("old-enclosing-method")})
    args = [None, None]
    args[ti[0]] = U.table([(U.name("K"), mk_nest("K", "E", "I", "Local", method="m"))])
    args[ci[0]] = cfv
    ev = U.Ev(inline=inline, cls={"I": "mixed"})
    ret = ev.run_fn(fn, args)
    R.inst(rid, "attr:unlisted-class-untouched", (ret == cfv or not returns_class) and not ev.fx, sp=fn["sp"], got=[(e[0], e[1]) for e in ev.fx],
           detail="lookup is by the class's own (un-nested) name; other classes get no attribute")
    R.floor(rid, 5 * 7 + 1)


# ------------------------------------------------------------------------------------------------- R14.4
MAPPING_ADTS = ("Mappings", "ClassNowodeMapping", "ClassMapping", "FieldNowodeMapping", "FieldMapping", "MethodNowodeMapping", "MethodMapping")


def build_source(quill, conf, adt, label, R, rid):
    """abstract source node of quill::tree::mappings::<adt> with a distinct atom at every identity position."""
    a = quill.adts.get("quill::tree::mappings::" + adt)
    if not a or a["kind"] != "struct":
        R.anchor(rid, "struct quill::tree::mappings::%s" % adt, False)
        return None
    d = {}
    for f in a["variants"][0]["fields"]:
        kind = (conf.get(adt) or {}).get(f["name"])
        if kind is None:
            R.anchor(rid, "specification entry for field %s.%s (spec/nesting.json mappings_conformance)" % (adt, f["name"]), False, sp=a["sp"])
            return None
        atom = "%s.%s" % (label, f["name"])
        if kind == "identity" or kind.startswith("src-desc"):
            d[f["name"]] = U.name(atom)
        elif kind == "struct":
            sub = f["tree"]["path"].rsplit("::", 1)[-1]
            d[f["name"]] = build_source(quill, conf, sub, label + "." + f["name"], R, rid)
        elif kind == "container":
            args = [x for x in f["tree"].get("args", []) if x.get("t") == "adt" and x["path"].startswith("quill::tree::mappings::")]
            sub = args[-1]["path"].rsplit("::", 1)[-1]
            elem = sub.replace("NowodeMapping", "")
            d[f["name"]] = U.table([(U.name("key-of-" + elem), build_source(quill, conf, sub, elem, R, rid))])
        elif kind == "names":
            d[f["name"]] = ("t", [T.V("Some", U.name("SrcName")), T.V("Some", U.name("DstName"))])
        if d.get(f["name"]) is None:
            return None
    return ("st", adt, d)


def expected_tree(conf, src, t1, dst_names):
    adt = src[1]
    d = {}
    for fname, v in src[2].items():
        kind = conf[adt][fname]
        if kind == "identity":
            d[fname] = v
        elif kind.startswith("src-desc:"):
            d[fname] = U.term(kind.split(":", 1)[1], t1, v)
        elif kind == "struct":
            d[fname] = expected_tree(conf, v, t1, dst_names)
        elif kind == "container":
            d[fname] = U.term("keyed", *[expected_tree(conf, vv, t1, dst_names) for _, vv in U.tbl_items(v)])
        elif kind == "names":
            d[fname] = dst_names
    return ("st", adt, d)


def contains_value(v, needle):
    if v == needle:
        return True
    k = v[0]
    if k == "v":
        return any(contains_value(x, needle) for x in v[2])
    if k in ("t", "iter"):
        return any(contains_value(x, needle) for x in v[1])
    if k == "st":
        return any(contains_value(x, needle) for x in v[2].values())
    if k == "tbl":
        return any(contains_value(a, needle) or contains_value(b, needle) for a, b in v[1].values())
    return False


def compare_tree(R, rid, prefix, got, want, sp):
    """per-field instances of a rebuilt tree"""
    n = 0
    if got[0] == "st" and want[0] == "st" and got[1] == want[1]:
        for f in sorted(set(got[2]) | set(want[2])):
            if f not in got[2] or f not in want[2]:
                R.inst(rid, "%s%s.%s" % (prefix, want[1], f), False, sp=sp, detail="field set differs")
                n += 1
                continue
            n += compare_tree(R, rid, prefix + want[1] + "." + f + ":" if want[2][f][0] in ("st",) else prefix, got[2][f], want[2][f], sp) \
                if want[2][f][0] == "st" else _leaf(R, rid, "%s%s.%s" % (prefix, want[1], f), got[2][f], want[2][f], sp, prefix)
        return n
    return _leaf(R, rid, prefix + (want[1] if want[0] == "st" else "value"), got, want, sp, prefix)


def _leaf(R, rid, key, got, want, sp, prefix):
    if want[0] == "v" and want[1] == "keyed" and got[0] == "v" and got[1] == "keyed" and len(got[2]) == len(want[2]):
        n = 0
        for g, w in zip(got[2], want[2]):
            n += compare_tree(R, rid, prefix, g, w, sp)
        R.inst(rid, key, True, sp=sp, expect="every element of the source container, mapped", got="%d element(s)" % len(got[2]), nontrivial=False)
        return n + 1
    judge(R, rid, key, got, want, sp=sp)
    return 1


def r14_4(ctx, R):
    rid = "R14.4"
    c, quill, inline, spec = ctx["c"], ctx["quill"], ctx["inline"], ctx["spec"]
    conf = spec["mappings_conformance"]
    R.rule(rid, "structure-preserving-map conformance: apply_/undo_nests_to_mappings rebuild the mappings tree with every field the "
                "same-named field of the same-level source, containers mapped element-wise, descriptors through the source-namespace "
                "translator's map_field_desc/map_method_desc, the class key through the source translator and (apply) the second name "
                "through the translator of the translated nests, translators built with flag true (apply) / false (undo); map_nests "
                "keeps every nest: nest_type and inner_access identity, class_name = map_class, encl_method = map_method_name_and_desc "
                "with the untranslated enclosing class as owner, enclosing class / inner name from the already-nested C__D split or from "
                "map_class / inner_name(); first->second direction; inner_name() decision table")
    src = build_source(quill, conf, "Mappings", "Mappings", R, rid)
    nests = ("st", "Nests", {"all": T.sym("nests.all"), "phantom": U.term("PhantomData")})

    def hooks_for(fn_key):

        def h_keyed(args, n):
            if len(args) == 1 and args[0][0] == "iter":
                items = []
                for x in args[0][1]:
                    if x[0] == "v" and x[1] == "Ok" and len(x[2]) == 1:
                        items.append(x[2][0])
                    else:
                        return None
                return T.V("Ok", U.term("keyed", *items))
            return None
        hk = {
            "default": lambda args, n: U.term("default"),
            "map_with_key_from_result_iter": h_keyed,
        }
        for q in ("map_class", "map_field_desc", "map_method_desc", "map_class_any", "map_return_desc"):
            hk[q] = (lambda q_: lambda args, n: U.term(q_, *args))(q)
        rl_ = ctx["roles"]
        if rl_["translator_new"]:
            hk[rl_["translator_new"]["key"]] = lambda args, n: U.term("translator", *args)
        for k_ in [rl_["map_nests"] and rl_["map_nests"]["key"], "dukenest::remap_nests"]:
            if k_:
                hk[k_] = lambda args, n: U.term("map_nests", *args)
        return hk

    if src is not None:
        for fname, flag in sorted(conf["apply_flag"].items()):
            fn = ctx["roles"]["apply" if flag else "undo"]
            if not R.anchor(rid, "implementation of dukenest::%s" % fname, fn):
                continue
            ins = fn.get("inputs") or []
            mi = [i for i, t in enumerate(ins) if t.startswith("quill::tree::mappings::Mappings")]
            ni = [i for i, t in enumerate(ins) if "dukenest::nest::Nests" in t]
            if not R.anchor(rid, "parameters (mappings, nests) of %s" % fname, len(mi) == 1 and len(ni) == 1 and len(ins) == 2, sp=fn["sp"]):
                continue
            args = [None, None]
            args[mi[0]] = src
            args[ni[0]] = nests
            ev = U.Ev(inline=inline, hooks=hooks_for(fn["key"]))
            got = ev.run_fn(fn, args)
            t1 = U.term("translator", nests, ("b", flag))
            if flag:
                t2 = U.term("translator", U.term("map_nests", nests, src), ("b", flag))
                want_dst = U.term("map_class", t2, U.name("DstName"))
            else:
                want_dst = None
            short = fname.split("_")[0]
            ok_shape = got[0] == "v" and got[1] == "Ok" and len(got[2]) == 1 and got[2][0][0] == "st"
            if not ok_shape:
                judge(R, rid, "%s:result" % short, got, T.V("Ok", U.term("Mappings")), sp=fn["sp"])
                continue
            # names are checked separately (dst post-processing of undo is exempt)
            names_seen = []

            def strip_names(v):
                if v[0] == "st":
                    d = {}
                    for k_, x in v[2].items():
                        if v[1] == "ClassMapping" and k_ == "names":
                            names_seen.append(x)
                            d[k_] = U.term("names")
                        else:
                            d[k_] = strip_names(x)
                    return ("st", v[1], d)
                if v[0] == "v":
                    return ("v", v[1], [strip_names(x) for x in v[2]])
                return v
            got_s = strip_names(got[2][0])
            want = expected_tree(conf, src, t1, U.term("names"))
            compare_tree(R, rid, short + ":", got_s, want, fn["sp"])
            if R.inst(rid, "%s:ClassMapping.names:shape" % short, len(names_seen) == 1 and names_seen[0][0] == "t" and len(names_seen[0][1]) == 2, sp=fn["sp"],
                      got=[U.show(x)[:200] for x in names_seen], expect="[first-namespace name, second-namespace name]"):
                a, b = names_seen[0][1]
                judge(R, rid, "%s:ClassMapping.names[0]" % short, a, U.term("map_class", t1, U.name("key-of-Class")), sp=fn["sp"],
                      detail="the first (source) namespace name is the class key through MyRemapper::new(nests, %s)" % str(flag).lower())
                if flag:
                    judge(R, rid, "%s:ClassMapping.names[1]" % short, b, want_dst, sp=fn["sp"],
                          detail="the second namespace name goes through the translator of the translated nests (map_nests(nests, mappings))")
                else:
                    foreign = [x for x in ("SrcName", "key-of-Class") if contains_value(b, U.name(x))]
                    R.inst(rid, "%s:ClassMapping.names[1]" % short, contains_value(b, U.name("DstName")) and not foreign, sp=fn["sp"], got=U.show(b)[:300],
                           expect="a function of the class's own second-namespace name only (post-processing exempt)")
    r14_4_map_nests(ctx, R)
    r14_4_inner_name(ctx, R)
    R.floor(rid, 2 * 17 + 6 * 9 + 1 + 11)


def r14_4_map_nests(ctx, R):
    rid = "R14.4"
    c, inline = ctx["c"], ctx["inline"]
    fn = ctx["roles"]["map_nests"]
    sp_fn, in_fn = ctx["roles"]["split"], ctx["roles"]["inner_name"]
    if not (R.anchor(rid, "implementation of dukenest::remap_nests", fn) and R.anchor(rid, "helper splitting an already-nested C__D name", sp_fn)
            and R.anchor(rid, "helper computing the translated inner name", in_fn)):
        return
    ins = fn.get("inputs") or []
    ni = [i for i, t in enumerate(ins) if "dukenest::nest::Nests" in t]
    mi = [i for i, t in enumerate(ins) if "quill::tree::mappings::Mappings" in t]
    if not R.anchor(rid, "parameters (nests, mappings) of map_nests", len(ni) == 1 and len(mi) == 1 and len(ins) == 2, sp=fn["sp"]):
        return
    remapper = U.term("remapper", ("s", "first->second"), U.name("mappings"))
    for split in ("none", "C__D"):
        for meth in ("some", "none"):
            for kind in (KINDS if (split, meth) == ("none", "some") else ("Inner",)):
                case = "split-%s/method-%s/%s" % (split, meth, kind)
                seen_split_args = []

                def h_split(args, n, split=split, seen=seen_split_args):
                    seen.append(args)
                    return T.V("Ok", T.V("None") if split == "none" else T.V("Some", ("t", [U.name("E2"), U.name("I2")])))

                def h_default(args, n):
                    if (n.get("ty") or "").startswith("dukenest::nest::Nests"):
                        return ("st", "Nests", {"all": U.table([]), "phantom": U.term("PhantomData")})
                    return None
                hooks = {
                    "remapper_b_first_to_second": lambda args, n: T.V("Ok", U.term("remapper", ("s", "first->second"), args[0])),
                    "map_class": lambda args, n: U.term("map_class", *args),
                    "map_method_name_and_desc": lambda args, n: U.term("map_method_name_and_desc", *args),
                    sp_fn["key"]: h_split,
                    in_fn["key"]: lambda args, n: U.term("inner_name", *args),
                    "default": h_default,
                }
                nest = mk_nest("K", "E", "I", kind, method="m" if meth == "some" else None)
                args = [None, None]
                args[ni[0]] = nests_value(U.table([(U.name("K"), nest)]))
                args[mi[0]] = U.name("mappings")
                ev = U.Ev(inline=inline, hooks=hooks)
                got = ev.run_fn(fn, args)
                mapped = U.term("map_class", remapper, U.name("K"))
                want_nest = ("st", "Nest", {
                    "nest_type": T.V(kind),
                    "class_name": mapped,
                    "encl_class_name": U.term("map_class", remapper, U.name("E")) if split == "none" else U.name("E2"),
                    "encl_method": T.V("Some", U.term("map_method_name_and_desc", remapper, U.name("E"), U.name("m"))) if meth == "some" else T.V("None"),
                    "inner_name": U.term("inner_name", U.name("K"), U.name("I"), mapped) if split == "none" else U.name("I2"),
                    "inner_access": U.name("acc"),
                })
                tbl = None
                if got[0] == "v" and got[1] == "Ok" and got[2] and got[2][0][0] == "st" and got[2][0][2].get("all", ("?",))[0] == "tbl":
                    tbl = got[2][0][2]["all"]
                if tbl is None:
                    judge(R, rid, "map_nests:%s:result" % case, got, T.V("Ok", nests_value(U.table([(mapped, want_nest)]))), sp=fn["sp"])
                    continue
                items = U.tbl_items(tbl)
                if not R.inst(rid, "map_nests:%s:every-nest-kept" % case, len(items) == 1 and not [e for e in ev.fx if e[0] == "loop-exit"], sp=fn["sp"],
                              got="%d nest(s) in the result for 1 input nest" % len(items)):
                    continue
                k_, g = items[0]
                judge(R, rid, "map_nests:%s:table-key" % case, k_, mapped, sp=fn["sp"], detail="the translated table is keyed by the translated class name")
                if g[0] != "st":
                    judge(R, rid, "map_nests:%s:nest" % case, g, want_nest, sp=fn["sp"])
                    continue
                for f in sorted(set(g[2]) | set(want_nest[2])):
                    judge(R, rid, "map_nests:%s:Nest.%s" % (case, f), g[2].get(f, T.V("missing")), want_nest[2].get(f, T.V("unspecified-field")), sp=fn["sp"])
                R.inst(rid, "map_nests:%s:split-applies-to-translated-name" % case, seen_split_args == [[mapped]], sp=fn["sp"],
                       got=[[U.show(a) for a in x] for x in seen_split_args], expect="rsplit_underscore(translated class name)")
    # already-nested separator: split at the LAST "__"; the undo post-processing writes the same separator
    rs = sp_fn
    if rs:
        calls = [n for n in H.walk(rs["body"]) if n.get("k") == "mcall" and n["name"] in ("rsplit_once", "split_once", "rsplit", "split", "rfind", "find")]
        ok = len(calls) == 1 and calls[0]["name"] == "rsplit_once" and H.const_value(calls[0]["args"][0]) == "__"
        R.inst(rid, "already-nested-split:last-double-underscore", ok, sp=rs["sp"], got=[H.render(x) for x in calls],
               expect="name.rsplit_once(\"__\"): enclosing part may itself be nested (A__B__C -> A__B, C)")


def r14_4_inner_name(ctx, R):
    rid = "R14.4"
    c, inline = ctx["c"], ctx["inline"]
    fn = ctx["roles"]["inner_name"]
    if not fn or len(fn["params"]) != 3:
        return
    # (digit class of the nest's inner name, custom-name?/C_ prefix?) -> expected translated inner name
    cells = [
        ("Anonymous/mapped-C_<digits>", "digits", {"prefix": ("Num", "digits")}, T.V("Ok", U.name("Num"))),
        ("Anonymous/mapped-C_<other>", "digits", {"prefix": ("Num", "plain")}, "err"),
        ("Anonymous/mapped-other", "digits", {"prefix": None}, T.V("Ok", U.name("I"))),
        ("Inner/derived-name", "plain", {"ends": True}, T.V("Ok", U.name("Mapped.simple"))),
        ("Inner/custom-name", "plain", {"ends": False}, T.V("Ok", U.name("I"))),
        ("Local/derived-name", "mixed", {"ends": True}, T.V("Ok", U.name("I.digits", "Mapped.simple"))),
        ("Local/custom-name", "mixed", {"ends": False}, T.V("Ok", U.name("I"))),
    ]
    for key, cls, dom, want in cells:
        ends_args = []

        def h_ends(args, n, dom=dom, seen=ends_args):
            if "ends" in dom and len(args) == 2:
                seen.append(args)
                return ("b", dom["ends"])
            return None

        def h_strip(args, n, dom=dom):
            if "prefix" in dom and len(args) == 2 and args[1] == ("s", "C_") and args[0] == U.name("Mapped.simple"):
                return T.V("Some", U.name(dom["prefix"][0])) if dom["prefix"] else T.V("None")
            return None

        def h_new(args, n):
            if not args and "JavaString" in (n.get("ty") or ""):
                return ("name", ())
            return None
        hooks = {"ends_with": h_ends, "strip_prefix": h_strip, "new": h_new,
                 "get_simple_name": lambda args, n: U.name("Mapped.simple") if args == [U.name("Mapped")] else None}
        clsmap = {"I": cls}
        if dom.get("prefix"):
            clsmap[dom["prefix"][0]] = dom["prefix"][1]
        ev = U.Ev(inline=inline, cls=clsmap, hooks=hooks)
        got = ev.run_fn(fn, [U.name("K"), U.name("I"), U.name("Mapped")])
        if want == "err":
            R.inst(rid, "inner_name:%s" % key, got[0] == "err", sp=fn["sp"], expect="Err", got=U.show(got)[:200])
        else:
            judge(R, rid, "inner_name:%s" % key, got, want, sp=fn["sp"])
        if "ends" in dom:
            part = U.name("I") if cls == "plain" else U.name("I.simple")
            R.inst(rid, "inner_name:%s:custom-name-test" % key, ends_args == [[U.name("K"), part]], sp=fn["sp"],
                   got=[[U.show(a) for a in x] for x in ends_args], expect="<un-nested class name>.ends_with(<simple part of the inner name>)")


# ------------------------------------------------------------------------------------------------- R14.5 (nests file)
def read_line_table(ctx, R):
    """abstract evaluation of io::read_line; shared by R14.1 (classification) and R14.5 (columns)."""
    c, inline, spec = ctx["c"], ctx["inline"], ctx["spec"]
    fn = ctx["roles"]["read_line"]
    if not fn:
        return None
    NF = spec["nests_file"]
    ncol = len(NF["columns"])

    def run(n_cols, cls):
        seps = []

        def h_split(args, n):
            if len(args) == 2 and args[0] == U.name("line"):
                seps.append(args[1])
                return ("iter", [U.name("c%d" % i) for i in range(n_cols)])
            return None
        hooks = {"split": h_split, "try_from": lambda args, n: T.V("Ok", args[-1]) if len(args) == 1 else None}
        ev = U.Ev(inline=inline, cls=cls, hooks=hooks)
        ev.opaque_inline = True
        r = ev.run_fn(fn, [U.name("line")])
        return r, seps
    out = {"fn": fn, "sp": fn["sp"], "run": run, "classify": {}, "ncol": ncol}
    base = {"c%d" % i: "plain" for i in range(ncol)}
    for cls in ("digits", "mixed", "plain"):
        d = dict(base)
        d["c%d" % NF["nest_fields"]["nest_type"][0]] = cls
        r, seps = run(ncol, d)
        v = T.sym("read_line did not return Ok(Nest{..}): %s" % U.show(r)[:200])
        if r[0] == "v" and r[1] == "Ok" and r[2] and r[2][0][0] == "st":
            v = r[2][0][2].get("nest_type", v)
        out["classify"][cls] = v
        out.setdefault("base", {})[cls] = (r, seps)
    return out


def r14_5(ctx, R, rl):
    rid = "R14.5"
    spec = ctx["spec"]
    NF = spec["nests_file"]
    R.rule(rid, "nests file: a line is split at tabs into exactly 6 columns (class, enclosing class, enclosing method name, enclosing "
                "method descriptor, inner name, access); every Nest field is built from its column(s) only; class, enclosing class and "
                "inner name must be non-empty; the enclosing method is absent iff its name or descriptor column is empty; every parsed "
                "line is added to the table")
    if not R.anchor(rid, "line parser (&str) -> Result<Nest>", rl is not None):
        return
    fn, run, ncol = rl["fn"], rl["run"], rl["ncol"]
    base = {"c%d" % i: "plain" for i in range(ncol)}
    r, seps = rl["base"]["plain"]
    R.inst(rid, "separator", seps == [("s", NF["separator"])], sp=fn["sp"], expect=repr(NF["separator"]), got=[U.show(s) for s in seps])
    for n in (ncol - 1, ncol, ncol + 1):
        rr, _ = run(n, {"c%d" % i: "plain" for i in range(n)})
        ok = (rr[0] == "v" and rr[1] == "Ok") if n == ncol else rr[0] == "err"
        R.inst(rid, "column-count:%d" % n, ok, sp=fn["sp"], expect="Ok" if n == ncol else "Err", got=U.show(rr)[:200])
    if r[0] == "v" and r[1] == "Ok" and r[2] and r[2][0][0] == "st":
        got = r[2][0][2]
        want = {}
        for f, cols in NF["nest_fields"].items():
            if "." in f:
                continue
            if f == "encl_method":
                want[f] = T.V("Some", ("st", "MethodNameAndDesc", {"name": U.name("c%d" % NF["nest_fields"]["encl_method.name"][0]),
                                                                  "desc": U.name("c%d" % NF["nest_fields"]["encl_method.desc"][0])}))
            elif f == "nest_type":
                want[f] = T.V(spec["inner_name_classes"]["plain"])
            elif f == "inner_access":
                want[f] = None
            else:
                want[f] = U.name("c%d" % cols[0])
        for f in sorted(set(want) | set(got)):
            if f not in want:
                R.inst(rid, "column:Nest.%s" % f, False, sp=fn["sp"], detail="Nest field without a column specification")
            elif f == "inner_access":
                g = got.get(f, T.V("missing"))
                col = U.name("c%d" % NF["nest_fields"]["inner_access"][0])
                others = [i for i in range(ncol) if U.name("c%d" % i) != col and contains_value(g, U.name("c%d" % i))]
                R.inst(rid, "column:Nest.%s" % f, contains_value(g, col) and not others and g != col, sp=fn["sp"], got=U.show(g)[:200],
                       expect="a number parsed from column %d only" % NF["nest_fields"]["inner_access"][0])
            else:
                judge(R, rid, "column:Nest.%s" % f, got.get(f, T.V("missing")), want[f], sp=fn["sp"])
    else:
        judge(R, rid, "column:result", r, T.V("Ok", U.term("Nest")), sp=fn["sp"])
    for i in NF["required_nonempty"]:
        d = dict(base)
        d["c%d" % i] = "empty"
        rr, _ = run(ncol, d)
        R.inst(rid, "required-nonempty:column-%d" % i, rr[0] == "err", sp=fn["sp"], expect="Err", got=U.show(rr)[:200])
    a, b = NF["encl_method_absent_iff_empty"]
    for ea in (False, True):
        for eb in (False, True):
            if not ea and not eb:
                continue
            d = dict(base)
            if ea:
                d["c%d" % a] = "empty"
            if eb:
                d["c%d" % b] = "empty"
            rr, _ = run(ncol, d)
            g = rr[2][0][2].get("encl_method") if rr[0] == "v" and rr[1] == "Ok" and rr[2] and rr[2][0][0] == "st" else rr
            judge(R, rid, "encl-method-absent:name-%s/desc-%s" % ("empty" if ea else "given", "empty" if eb else "given"), g, T.V("None"), sp=fn["sp"])
    # every parsed line is added
    c = ctx["c"]
    rfr = ctx["roles"]["read_loop"]
    add_fn = ctx["roles"]["add"]
    if R.anchor(rid, "the function that reads the lines (caller of the line parser)", rfr) and R.anchor(rid, "fn Nests::add", add_fn):
        adds = [n for n in H.walk(rfr["body"]) if n.get("k") in ("call", "mcall") and ((n.get("callee") or {}).get("inst_key") or (n.get("callee") or {}).get("key")) == add_fn["key"]]
        ok = False
        if len(adds) == 1:
            vals = U.expand_locals(rfr["body"], H.call_args(adds[0])[-1])
            rlk = ctx["roles"]["read_line"]["key"]
            from_line = any(x.get("k") in ("call", "mcall") and ((x.get("callee") or {}).get("inst_key") or (x.get("callee") or {}).get("key")) == rlk for x in vals)
            conds = [k for k, _, _ in H.path_conditions(rfr["body"], adds[0]) if k in ("if", "iflet", "arm", "after-exit")]
            chain = H.parents_of(rfr["body"], adds[0]) or []
            in_loop = any(p.get("k") == "for" for p in chain)
            # the same loop as an iterator chain: the add sits in the closure of `<iterator>.for_each(..)`, or of
            # `<iterator>.try_for_each(..)` whose result is propagated with `?` / returned (an error still ends the read)
            for i, p in enumerate(chain):
                if p.get("k") == "mcall" and p["name"] in ("for_each", "try_for_each") and len(p["args"]) == 1 \
                        and ((p.get("callee") or {}).get("path") or "").startswith("core::iter::") \
                        and any(x is H.peel(p["args"][0]) and x.get("k") == "closure" for x in chain[i + 1:]):
                    up = chain[i - 1] if i else {}
                    in_loop = in_loop or p["name"] == "for_each" or up.get("k") in ("try", "ret") \
                        or (up.get("k") == "block" and up.get("tail") is p and i == 1)
            ok = from_line and not conds and in_loop
        R.inst(rid, "every-line-added", ok, sp=rfr["sp"], expect="for each line: nests.add(read_line(line)?) unconditionally")
    R.floor(rid, 1 + 3 + 6 + 3 + 3 + 1)


# ------------------------------------------------------------------------------------------------- R14.6 (nest_jar pipeline)
def r14_6(ctx, R):
    rid = "R14.6"
    c = ctx["c"]
    R.rule(rid, "nest_jar pipeline: every class written to the result passes attribute synthesis (with the filtered nests table) and "
                "only then, and only under the remap flag, dukebox::remap::remap_class with the remapper built from the rename table; "
                "under the flag the entry name goes through remap_jar_entry_name[_java] with the same remapper, otherwise it is kept; "
                "created enclosing classes are emitted")
    nj, region, tid, ctor = jar_anchor(c)
    if not (R.anchor(rid, "implementation of dukenest::nest_jar", nj) and R.anchor(rid, "filtered nests table", tid is not None) and R.anchor(rid, "jar-side remapper", ctor is not None)):
        return
    body = nj["body"]
    pids = H.param_ids(nj)
    flag_pid = None
    for i, t in enumerate(nj.get("inputs") or []):
        if t == "bool" and i < len(pids):
            flag_pid = pids[i]
    R.anchor(rid, "bool parameter (remap flag) of nest_jar", flag_pid is not None, sp=nj["sp"])
    synth = [b for b in c.bodies if b.get("name") and any(n.get("k") == "struct" and n.get("adt") == "duke::tree::class::InnerClass" for n in H.walk(b["body"]))]
    if not R.anchor(rid, "attribute synthesis function", len(synth) == 1):
        return
    skey = synth[0]["key"]
    # the remapper value: local bound to ARemapperAsBRemapper(MyRemapper(map)) (or the ctor itself)
    remapper_ids = set()
    for n in H.walk(body):
        if n.get("k") == "let" and "init" in n and n["pat"].get("k") == "bind" and any(x is ctor for x in H.walk(n["init"])):
            remapper_ids.add(n["pat"]["id"])

    def is_synth(x):
        return x.get("k") == "call" and (x.get("callee") or {}).get("key") == skey

    s_ins = synth[0].get("inputs") or []
    t_idx = next((i for i, t in enumerate(s_ins) if "Map<duke::tree::class::ObjClassName, dukenest::nest::Nest>" in t), 0)
    order = {id(n): i for i, n in enumerate(H.walk(body))}
    synth_calls = [n for n in H.walk(body) if is_synth(n)]

    def synth_of(e, at):
        """synthesis calls the value `e` (used at node `at`) has passed through: calls in its let-chain, or earlier calls
        that received one of its locals by `&mut`"""
        vals = U.expand_locals(body, e)
        out = [x for x in vals if is_synth(x)]
        ids = {x["res"]["id"] for x in vals if x.get("k") == "path" and x["res"].get("r") == "local"}
        for sc in synth_calls:
            if any(x is sc for x in out) or order[id(sc)] >= order[id(at)]:
                continue
            for a in sc["args"]:
                if a.get("k") == "ref" and a.get("mut") and H.local_of(a) and H.local_of(a)[0] in ids:
                    out.append(sc)
        return out

    def on_filtered_table(sc):
        return t_idx < len(sc["args"]) and H.local_of(sc["args"][t_idx]) and H.local_of(sc["args"][t_idx])[0] in tid

    def uses_remapper(call):
        return any(H.local_of(a) and H.local_of(a)[0] in remapper_ids for a in H.call_args(call))

    def under_flag(node):
        pol = None
        for k, cond, p in H.path_conditions(body, node):
            if k == "if":
                inner, neg = H.negate_peel(cond)
                l = H.local_of(inner)
                if l and l[0] == flag_pid:
                    pol = (p != neg)
        return pol
    # 1. every ClassRepr::Parsed { class } written derives from a synthesis call on the filtered table
    lits = [n for n in H.walk(body) if n.get("k") == "struct" and (n.get("adt") or "").endswith("ClassRepr") and n.get("variant") == "Parsed"]
    R.anchor(rid, "ClassRepr::Parsed literals in nest_jar", len(lits) >= 2, sp=nj["sp"])
    site_names = []
    for i, lit in enumerate(lits):
        in_new = any(p.get("k") == "for" and any(H.is_call(x, "into_values", "values", "drain") for x in H.walk(p["iter"])) for p in (H.parents_of(body, lit) or []))
        site = "created-class" if in_new else "jar-class"
        if site in site_names:
            site = "%s#%d" % (site, i)
        site_names.append(site)
        e = [f["e"] for f in lit["fields"] if f["name"] == "class"][0]
        syn = synth_of(e, lit)
        ok = bool(syn) and all(on_filtered_table(x) for x in syn)
        R.inst(rid, "written-class-passes-synthesis:%s" % site, ok, sp=lit["sp"], got=[H.render(x)[:120] for x in syn],
               expect="%s(&<filtered nests table>, class)" % synth[0]["name"])
    # 2. remap_class: under the flag, with the remapper, argument already synthesised
    rcs = [n for n in H.walk(body) if H.is_call(n, "remap_class")]
    R.anchor(rid, "calls of dukebox::remap::remap_class", len(rcs) >= 2, sp=nj["sp"])
    for i, rc in enumerate(rcs):
        in_new = any(p.get("k") == "for" and any(H.is_call(x, "into_values", "values", "drain") for x in H.walk(p["iter"])) for p in (H.parents_of(body, rc) or []))
        site = ("created-class" if in_new else "jar-class") + ("" if i < 2 else "#%d" % i)
        cls_args = [a for a in rc["args"] if not (H.local_of(a) and H.local_of(a)[0] in remapper_ids)]
        before = [x for a in cls_args for x in synth_of(a, rc)]
        R.inst(rid, "rename-after-synthesis:%s" % site, bool(before) and not any(any(y is rc for y in H.walk(s_)) for s_ in synth_calls),
               sp=rc["sp"], got=H.render(rc)[:160], expect="remap_class(&remapper, <class after attribute synthesis>)",
               detail="attribute synthesis looks the class up by its un-nested name, so it must run before the rename")
        R.inst(rid, "rename-under-flag:%s" % site, under_flag(rc) is True and uses_remapper(rc), sp=rc["sp"],
               expect="inside `if remap_option` with the remapper built from the rename table", got="under flag: %s, remapper: %s" % (under_flag(rc), uses_remapper(rc)))
    # 3. entry names
    ens = [n for n in H.walk(body) if H.is_call(n, "remap_jar_entry_name", "remap_jar_entry_name_java")]
    R.anchor(rid, "calls of remap_jar_entry_name[_java]", len(ens) >= 2, sp=nj["sp"])
    for i, en in enumerate(ens):
        in_new = any(p.get("k") == "for" and any(H.is_call(x, "into_values", "values", "drain") for x in H.walk(p["iter"])) for p in (H.parents_of(body, en) or []))
        site = ("created-class" if in_new else "jar-class") + ("" if i < 2 else "#%d" % i)
        R.inst(rid, "entry-rename-under-flag:%s" % site, under_flag(en) is True and uses_remapper(en), sp=en["sp"],
               got="under flag: %s, remapper: %s" % (under_flag(en), uses_remapper(en)))
    # 3b. without the flag: a created class is stored as <name>.class, a jar class keeps its entry name
    for tp in [n for n in H.walk(body) if n.get("k") == "tuple" and len(n["es"]) == 2 and under_flag(n) is False]:
        loops = [p for p in (H.parents_of(body, tp) or []) if p.get("k") == "for"]
        in_new = any(any(H.is_call(x, "into_values", "values", "drain") for x in H.walk(p["iter"])) for p in loops)
        if in_new:
            env = {}
            for p in loops:
                for i, nm_ in H.pat_bindings(p["pat"]):
                    env[i] = ("st", "ClassFile", {"name": U.name("E")})
            ev = U.Ev(inline=ctx["inline"])
            got = eval_with_lets(ev, body, tp["es"][0], env)
            judge(R, rid, "entry-name-without-flag:created-class", got, U.name("E", U.lit(ctx["spec"]["class_entry_suffix"])), sp=tp["sp"],
                  detail="a created enclosing class is stored under <class name>.class")
        else:
            vals = U.expand_locals(body, tp["es"][0])
            kept = any(x.get("k") == "mcall" and x["name"] == "name" for x in vals) and not any(H.is_call(x, "remap_jar_entry_name", "remap_jar_entry_name_java", "map_class") for x in vals)
            R.inst(rid, "entry-name-without-flag:jar-class", kept, sp=tp["sp"], got=H.render(tp["es"][0])[:120], expect="the entry's own name")
    # 4. the result map receives every entry; created classes are emitted
    rets = [n for n in H.walk(body) if n.get("k") == "struct" and (n.get("adt") or "").endswith("ParsedJar")]
    ok = False
    n_ins = 0
    if len(rets) == 1:
        l = H.local_of(rets[0]["fields"][0]["e"])
        if l:
            inserts = [n for n in H.walk(body) if n.get("k") == "mcall" and n["name"] == "insert" and H.local_of(n["recv"]) and H.local_of(n["recv"])[0] == l[0]]
            n_ins = len(inserts)
            sites = set()
            for n in inserts:
                vals = U.expand_locals(body, n["args"][1])
                if any(x is lit for lit in lits for x in vals):
                    in_new = any(p.get("k") == "for" and any(H.is_call(x, "into_values", "values", "drain") for x in H.walk(p["iter"])) for p in (H.parents_of(body, n) or []))
                    sites.add("created" if in_new else "jar")
            ok = sites == {"created", "jar"}
    R.inst(rid, "result-receives-created-and-jar-classes", ok, sp=nj["sp"], got="%d insert(s) into the result map" % n_ins)
    R.floor(rid, 2 + 4 + 2 + 2 + 1)


# ------------------------------------------------------------------------------------------------- R14.7 (wrappers)
def r14_7(ctx, R):
    rid = "R14.7"
    c = ctx["c"]
    R.rule(rid, "the public entry points forward their parameters in order to an implementation of the same signature; apply and undo end "
                "in different implementations (R14.1-R14.6 evaluate whatever the entry points forward to)")
    targets = {}
    for nm in ("nest_jar", "apply_nests_to_mappings", "undo_nests_to_mappings", "remap_nests"):
        b = c.body("dukenest::" + nm)
        if not R.anchor(rid, "pub fn dukenest::%s" % nm, b):
            continue
        t = _tail(b["body"])
        callee = c.by_key.get((t.get("callee") or {}).get("key")) if t.get("k") == "call" else None
        if callee is None:
            # the entry point contains the implementation itself: nothing to forward
            R.inst(rid, "forward:%s" % nm, True, sp=b["sp"], nontrivial=False, got="implemented in place")
            targets[nm] = b["key"]
            continue
        pids = H.param_ids(b)
        got = [H.local_of(a)[0] if H.local_of(a) else None for a in t["args"]]
        same_sig = (callee.get("inputs") or []) and len(callee["inputs"]) == len(b.get("inputs") or []) and (callee.get("output") or "").split("<")[0] == (b.get("output") or "").split("<")[0]
        R.inst(rid, "forward:%s" % nm, got == pids and bool(same_sig), sp=b["sp"], expect="<implementation>(<parameters in order>)", got=H.render(t)[:200])
        targets[nm] = callee["key"]
    if "apply_nests_to_mappings" in targets and "undo_nests_to_mappings" in targets:
        R.inst(rid, "apply-and-undo-are-different-operations", targets["apply_nests_to_mappings"] != targets["undo_nests_to_mappings"], sp=None,
               got=targets, detail="the two entry points must not end in the same implementation (what each does is decided by R14.4)")
    R.floor(rid, 5)
