"""C03 — Tiny v2 round trip / canonical output.

Static necessary conditions of `read(write(M)) == M`, order independence and the write fix-point:
writer/reader agreement on the text layout of every row kind, sort-before-write for every map iteration,
totality of the sort keys, escape/unescape tables, field coverage in both directions, duplicate-key
rejection, the indentation iterator's decision table, error propagation, and verbatim transport of
every cell between the text and the model (R03.9).
"""
import json
import re
import os

from lib import hir as H
from lib import tables as T
from lib import boolform as B
from lib import c03_util as U

SPEC = os.path.join(os.path.dirname(os.path.dirname(os.path.abspath(__file__))), "spec", "tiny_v2.json")

CLAIM = {
    "text": "Tiny v2 (quill::tiny_v2, lines::{WithMoreIdentIter,TinyLine}, tree::mappings): "
            "R03.1 every loop of `write` that emits text and walks an IndexMap (classes, fields, methods, parameters) walks a "
            "copy that was sorted before; R03.2 each sort key contains every component of the map key (ToKey::get_key) and is "
            "compared by a derived total order; R03.3 every leaf field of the mapping model is written and is populated by `read`, "
            "every map is written by a loop and filled through add_*; R03.4 header tokens and, per row kind (c, f, m, p and the four "
            "comment rows), indentation depth, separator, tag and column->field sequence are equal in the writer's write!/writeln! "
            "templates, in the reader's next()/into_names()/end() sequence and in spec/tiny_v2.json; an empty cell <=> None on both sides; "
            "R03.5 escape/unescape replacement tables are mutually inverse and cover the characters special to the line and field "
            "splitters, every comment passes through them; R03.6 add_child inserts only into a vacant entry under the key computed by "
            "get_key, every add_* either delegates to it or shows the same Occupied=>Err / Vacant=>insert table on its own map (any "
            "other direct insertion is reported), readers insert only through add_*, a second comment is rejected; R03.7 WithMoreIdentIter::next decision table "
            "(Less->None, Equal->next, Greater->Err, operand order), new=0, next_level=+1, on_every_line propagates the callback error; "
            "R03.8 no Result is discarded in the reader/writer functions; R03.9 verbatim transport: from the BufRead::lines item through "
            "TinyLine::new (indentation strip, split at the separator), next/end/into_names/into_namespaces and the struct literals of "
            "read into every model field, and from every model field into its hole of the writer template, a cell passes only through "
            "selections, ownership/From/TryFrom/parse conversions (comments: escape/unescape) - any other call (trim, case change, "
            "slicing, a helper that does not return its argument unchanged, `.map(path_fn)`) is reported with the call named. (R03.10) every writer loop over a map of the model emits a row for every entry (no dropping adaptor or mutation, no continue/break) and no row of the writer stands behind a successful early exit (`if <test> { return Ok(()) }`); (R03.2) the sort key is an injective view of the key fields (no case folding or other lossy function). (R03.1) the sort is executed whenever the loop is: no `if`/`match`/loop around the sort that is not around the loop as well (`if v.len() > 1` apart). (R03.6) comment-stored: in the comment helper only the test of the javadoc slot and error exits stand before `*javadoc = Some(text)` - every `c` row that is accepted is stored, whatever its text. (R03.4) the header test is compared as a boolean formula over `column == literal` atoms (truth table). (R03.11) every `parse()` of tiny_v2::read yields the integer type of the tree field it fills (ParameterMapping.index: usize), and Names::try_from refuses a name only under an `is_empty()` test applied to the name itself (conversions only).",
    "note": "Not decided: the inverse law and the byte-identical fix-point for all contents (values of names/descriptors containing "
            "the separator, validity conversions, unicode), termination; the Display/FromStr/TryFrom impls a cell is converted by are "
            "taken to be mutually inverse; format options of a hole (width/fill) are not in the facts. Known findings: Mappings.javadoc is written but cannot be "
            "read back; only \\n is escaped. Trusted: rustc HIR/typeck/const-eval and FormatArgs templates; spec/tiny_v2.json; "
            "std semantics of BufRead::lines, str::split, str::replace, sort_by_key.",
    "technique": "static analysis: text-layout extraction from write! templates vs. reader column use (typed place provenance), "
                 "order taint, decision tables, guard dominance, coverage over the ADT tables, call-sensitive value provenance "
                 "(allow-list of selections/conversions, repository helpers checked recursively, fail closed)",
}

# public entry points (anchored by name); private helpers are found by role: functions whose writes are inlined into
# `write`, and the helper the comment rows of `read` hand the line to
WRITE_FNS = ("write", "write_vec", "write_string")
READ_FNS = ("read", "read_file")


def run(F, R, tier):
    with open(SPEC) as f:
        spec = json.load(f)
    q = F.crate("quill")
    ctx = extract(q, R, spec)
    r03_1_2(q, R, ctx)
    r03_3(q, R, ctx, spec)
    r03_4(q, R, ctx, spec)
    r03_5(q, R, ctx, spec)
    r03_6(q, R, ctx)
    r03_7(q, R)
    r03_8(q, R, ctx)
    r03_9(q, R, ctx, spec)
    r03_11(q, R)
    return ("text-layout extraction: the emission term of tiny_v2::write (write!/writeln! templates, helpers inlined) is cut into rows "
            "and columns, each hole traced to the (ADT, field) it prints; tiny_v2::read is abstracted to indentation levels, tag "
            "dispatch and the per-row column consumption (next/into_names/end) with the struct field each column is stored in; "
            "both are compared with each other and with spec/tiny_v2.json. Plus order taint with sort-key totality (derived Ord + "
            "ToKey components), escape tables, add_child entry table, WithMoreIdentIter decision table, discarded-Result scan, "
            "verbatim transport of every cell (strict value provenance line -> tokeniser -> accessor -> model field -> template hole).")


# ------------------------------------------------------------------------------------ R03.11
NAME_CONVERSIONS = ("as_ref", "as_str", "borrow", "as_java_str", "as_inner", "deref", "as_slice", "as_bytes", "iter", "as_deref", "clone")


def r03_11(q, R):
    """What the writer can write the reader can read: a numeric cell is parsed at the width of the tree field it fills, and the only
    name the Names constructor refuses is the empty one."""
    rid = "R03.11"
    R.rule(rid, "reader accepts every value the tree can hold: each `parse()` of tiny_v2::read produces the integer type of the tree field "
                "(ParameterMapping.index), not a narrower one; Names::try_from refuses a name only if it is empty - the emptiness test is "
                "applied to the name itself (conversions only, no trim / case folding / character class)")
    idx = None
    for a in q.raw["adts"]:
        if a.get("path", "").endswith("tree::mappings::ParameterMapping"):
            idx = next((f["ty"] for f in a["variants"][0]["fields"] if f["name"] == "index"), None)
    rd = [b for b in q.bodies if b.get("path", "").endswith("tiny_v2::read")]
    if R.anchor(rid, "fn tiny_v2::read and ParameterMapping.index", len(rd) == 1 and idx is not None):
        parses = [n for n in H.walk(rd[0]["body"]) if n.get("k") == "mcall" and n["name"] == "parse"]
        froms = [n for n in H.walk(rd[0]["body"]) if n.get("k") in ("call", "mcall") and (H.callee_name(n) or "") in ("from_str", "from_str_radix")]
        R.anchor(rid, "the index cell of a `p` row is parsed in tiny_v2::read", len(parses) + len(froms) >= 1, sp=rd[0]["sp"])
        for n in parses + froms:
            ty = n.get("ty") or ""
            m = re.match(r"^core::result::Result<([^,>]+),", ty)
            got = m.group(1) if m else ty
            R.inst(rid, "read:parse-width:%s" % (got or "?"), got == idx, sp=n.get("sp"), expect=idx, got=got,
                   detail="ParameterMapping.index is %s in the tree and is written in full by tiny_v2::write; an index that does not fit a "
                          "narrower type is written but cannot be read back (seed C03-12)" % idx)
    tf = [b for b in q.bodies if b.get("name") == "try_from" and (b.get("impl_ty") or "").startswith("quill::tree::names::Names<")]
    if R.anchor(rid, "impl TryFrom<[Option<T>; N]> for Names", len(tf) == 1):
        b = tf[0]
        tests = [n for n in H.walk(b["body"]) if n.get("k") == "mcall" and n["name"] == "is_empty"]
        R.anchor(rid, "Names::try_from tests a name with is_empty()", len(tests) >= 1, sp=b["sp"])
        for n in tests:
            chain, cur = [], n["recv"]
            while True:
                cur = H.peel(cur)
                if cur.get("k") == "mcall":
                    chain.append(cur["name"])
                    cur = cur["recv"]
                elif cur.get("k") == "call" and len(cur.get("args") or []) == 1:
                    chain.append(H.callee_name(cur) or "?")
                    cur = cur["args"][0]
                else:
                    break
            foreign = [c for c in chain if c not in NAME_CONVERSIONS]
            R.inst(rid, "Names::try_from:emptiness-of-the-name-itself", not foreign and cur.get("k") == "path", sp=n.get("sp"),
                   expect="<name>.as_ref().is_empty()", got=H.render(n)[:100],
                   detail="a name made of white space is a legal name (duke accepts it) and is written as it is; refusing it on reading "
                          "makes a written file unreadable (seed C03-13)")
        # nothing else refuses: every error exit of try_from stands under an is_empty test
        errs = [n for n in H.walk(b["body"]) if n.get("k") == "ret" and H.is_err_exit(n)]
        other = []
        for e in errs:
            conds = H.path_conditions(b["body"], e)
            if not any(any(x is t for x in H.walk(cn)) for _k, cn, _p in conds if isinstance(cn, dict) for t in tests):
                other.append(H.render(e)[:80])
        R.inst(rid, "Names::try_from:refuses-only-empty-names", not other, sp=b["sp"], got=other or "every Err is under the emptiness test")
    R.floor(rid, 3)


# ------------------------------------------------------------------------------------------------
# extraction shared by the rules
# ------------------------------------------------------------------------------------------------
class Ctx:
    pass


def _short_path(maps):
    # an element without an ADT part ("?p": a level hanging under a row that creates no node) is kept as it is
    return "/".join(m.split(".", 1)[1] if "." in m else m for m in maps)


def extract(q, R, spec):
    """Writer rows and reader rows of the Tiny v2 functions (anchors are reported under R03.4)."""
    R.rule("R03.4", "per row kind the writer's template (indentation, tab separator, tag, column -> field) equals the reader's "
                    "column consumption and the Tiny v2 layout table; header `tiny 2 0` + namespaces on both sides; an empty cell "
                    "means None on both sides; all holes are printed with Display")
    cx = Ctx()
    cx.ok = False
    cx.key_eq, cx.key_parts = U.key_equivalences(q)
    cx.leaves, cx.maps, cx.info_of = U.model_tables(q)
    wb = q.fn("write", within="tiny_v2::write")
    rb = q.fn("read", within="tiny_v2::read")
    if not (R.anchor("R03.4", "fn tiny_v2::write", wb) and R.anchor("R03.4", "fn tiny_v2::read", rb)):
        return cx
    cx.wb, cx.rb = wb, rb
    # ---- writer
    W = U.Writer(q, strict=True)
    cx.W = W
    wfn = U.Fn(q, wb, strict=True)
    cx.wfn = wfn
    try:
        term = U.flatten_term(W.term(wfn, wfn.root))
        rows = U.rows_of(term)
    except U.Unrec as e:
        R.unrecognised("R03.4", "tiny_v2::write", e.what, e.sp)
        return cx
    cx.wrows = []
    for r in rows:
        if r.ctx and r.ctx[0][0] == "unterminated":
            R.unrecognised("R03.4", "tiny_v2::write", "text after the last line terminator: %r" % r.text_shape(), wb["sp"])
            return cx
        cx.wrows.append(describe_writer_row(q, cx, r, spec["separator"]))
    # ---- reader
    RD = U.Reader(q, line_types=("TinyLine",), strict=True)
    rfn = RD.mkfn(rb)
    cx.RD, cx.rfn = RD, rfn
    levels, probs = RD.levels(rfn)
    for p in probs:
        R.unrecognised("R03.4", "tiny_v2::read", p[2], p[1].get("sp"))
    cx.levels = levels
    cx.rrows = {}
    for lv in levels:
        for pr in lv.problems:
            R.unrecognised("R03.4", "tiny_v2::read level %s" % "/".join(lv.path()), pr, lv.closure.get("sp"))
        if lv.depth is None:
            R.unrecognised("R03.4", "tiny_v2::read level %s" % "/".join(lv.path()), "indentation depth of the level not derivable "
                           "(receiver is neither WithMoreIdentIter::new(..) nor <enclosing level iterator>.next_level())", lv.call.get("sp"))
    # rows, outer levels first so that the map path of a level is known
    lv_path = {}
    for lv in levels:
        if lv.parent is None:
            lv_path[id(lv)] = []
        else:
            pk = (tuple(lv_path.get(id(lv.parent), [])), lv.parent_tag, False)
            prow = cx.rrows.get(pk)
            lv_path[id(lv)] = (prow["path"] if prow and prow.get("adds") else lv_path.get(id(lv.parent), []) + ["?" + str(lv.parent_tag)])
        for tag, body in lv.branches:
            row = describe_reader_row(q, cx, lv, tag, body, lv_path[id(lv)])
            cx.rrows[(tuple(lv_path[id(lv)]), tag, row["comment"] is not None)] = row
    cx.header = reader_header(q, cx, R)
    cx.ok = True
    return cx


def describe_writer_row(q, cx, row, sep):
    """-> dict(path=[map...], opt=[role str of enclosing `if let Some(..) = <field>`], depth, tag, cols=[desc], holes=[...])"""
    d = {"row": row, "problems": [], "loops": [], "path": [], "owner": None}
    for c in row.ctx:
        if c[0] == "rep":
            m = U.loop_map(c[2], c[1])
            d["loops"].append((c[1], c[2], m))
            if m:
                d["path"].append(m)
            else:
                d["problems"].append("row repeated by a loop that is not a walk over a model map")
        elif c[0] == "opt":
            cn = H.peel(c[1]["cond"], refs=False)
            if cn.get("k") == "letexpr" and c[2]:
                r = U.role_of(c[3].trace(cn["init"]), q, cx.key_eq)
                d["owner"] = U.role_str(r[0]) if r else "?"
            else:
                d["problems"].append("row under a condition that is not `if let Some(..) = <field>`")
        elif c[0] == "after-exit":
            pass            # reported per row by R03.10 (written-unconditionally)
        else:
            d["problems"].append("row in unsupported context %s" % c[0])
    vs = row.variants()
    if len(vs) != 1:
        d["problems"].append("row has %d inline variants" % len(vs))
    items = vs[0][1]
    ih, n_ind, cols = U.split_columns(items, sep)
    if ih:
        # leading hole: not indentation in Tiny (no computed indentation) -> it is the first column
        cols = [[ih[0]] + (cols[0] if cols else [])] + cols[1:] if n_ind == 0 else cols
        if n_ind:
            d["problems"].append("hole before the indentation")
    d["depth"] = n_ind
    d["tag"] = None
    d["cols"] = []
    d["holes"] = []
    for i, c in enumerate(cols):
        if i == 0:
            if len(c) == 1 and c[0][0] == "lit":
                d["tag"] = c[0][1]
            else:
                d["problems"].append("first column is not a literal tag")
            continue
        d["cols"].append(describe_col(q, cx, c, d))
    return d


def describe_col(q, cx, c, d):
    """column (list of parts) -> ("lit", s) | ("field", role_str, calls, trait) | ("names", role_str, ok) | ("?", text)"""
    if len(c) == 1 and c[0][0] == "lit":
        return ("lit", c[0][1])
    if len(c) == 1 and c[0][0] == "hole":
        _, e, fn, trait, piece = c[0]
        ch = fn.trace(e)
        r = U.role_of(ch, q, cx.key_eq)
        calls = [h[1] for h in (r[1] if r else ch.hops) if h[0] == "call"]
        d["holes"].append((U.role_str(r[0]) if r else None, calls, trait, ch))
        return ("field", U.role_str(r[0]) if r else "?" + ch.show(), tuple(calls), trait)
    if len(c) == 1 and c[0][0] == "repcols":
        _, node, subs, fn = c[0]
        # expected: two variants: cell present (one column with one hole = Some payload of the element), cell empty
        some_role, ok, why = None, True, []
        seen = {"some": False, "none": False}
        if len(subs) == 1 and not subs[0][0] and len(subs[0][1]) == 1 and len(subs[0][1][0]) == 1 and subs[0][1][0][0][0] == "hole":
            # every element printed as it is (a plain array of strings: the namespaces)
            hole = subs[0][1][0][0]
            ch = hole[2].trace(hole[1])
            r = U.role_of(ch, q, cx.key_eq)
            if r and r[0][2] == "*" and not r[1]:
                d["holes"].append((U.role_str(r[0]), [], hole[3], ch))
                return ("names", U.role_str(r[0]), hole[3] == "Display", "" if hole[3] == "Display" else "cell printed with %s" % hole[3])
        for choices, cols in subs:
            if len(cols) != 1:
                ok = False
                why.append("repeated group has %d columns" % len(cols))
                continue
            col = cols[0]
            if not col:
                # empty cell: must be the None side of the element
                pol = [(fn2.trace(H.peel(n["cond"], refs=False)["init"]), b) for (n, b, fn2) in choices
                       if H.peel(n["cond"], refs=False).get("k") == "letexpr"]
                if len(pol) == 1 and pol[0][1] is False:
                    seen["none"] = True
                elif not choices:
                    ok = False
                    why.append("cell is always empty")
                else:
                    ok = False
                    why.append("empty cell is not the else-side of `if let Some(..) = element`")
            elif len(col) == 1 and col[0][0] == "hole":
                ch = col[0][2].trace(col[0][1])
                r = U.role_of(ch, q, cx.key_eq)
                if r and r[0][2] == "*" and r[1] == [("some",)]:
                    some_role = r[0]
                    seen["some"] = True
                    d["holes"].append((U.role_str(r[0]), [], col[0][3], ch))
                    if col[0][3] != "Display":
                        ok = False
                        why.append("cell printed with %s" % col[0][3])
                    if not choices:
                        ok = False
                        why.append("cell is printed unconditionally")
                else:
                    ok = False
                    why.append("cell prints %s" % ch.show())
            else:
                ok = False
                why.append("cell is not a single hole")
        if not (seen["some"] and seen["none"]):
            ok = False
            why.append("need both a Some(name)->name and a None->empty variant")
        return ("names", U.role_str(some_role) if some_role else "?", ok, "; ".join(why))
    return ("?", "composite column")


def describe_reader_row(q, cx, lv, tag, body, path):
    RD, fn = cx.RD, cx.rfn
    d = {"level": lv, "tag": tag, "depth": lv.depth, "problems": [], "cols": [], "adds": None, "path": list(path),
         "roles": {}, "comment": None, "body": body}
    ops = RD.row_ops(fn, body, lv.line_id)
    d["ops"] = ops
    kinds = [k for k, _, _ in ops if k not in ("helper",)]
    for k, n, f in ops:
        if k in ("moved", "recurse", "fields", "action", "action_string"):
            d["problems"].append("line used through `%s`, which the Tiny column model does not cover" % k)
    # node creation
    adds = RD.add_calls(fn, body)
    if len(adds) > 1:
        d["problems"].append("more than one add_* call in one row")
    if adds:
        d["adds"] = "%s.%s" % adds[0][1]
        d["add_call"] = adds[0][0]
        d["path"] = list(path) + [d["adds"]]
    # columns -> struct fields
    col_role = {}
    for st in RD.struct_lits(fn, body, U.MODEL_INFO):
        for f in st["fields"]:
            ch = fn.trace(f["e"])
            if ch.root[0] == "line":
                opn, k = ch.root[1], ch.root[2]
                calls = tuple(h[1] for h in ch.hops if h[0] == "call")
                col_role.setdefault(k, []).append((opn, "%s.%s" % (U.short(st["adt"]), f["name"]), calls))
            else:
                d["problems"].append("field %s.%s is not filled from a column of the line: %s" % (U.short(st["adt"]), f["name"], ch.show()))
    # comment helper: `*javadoc = Some(JavadocMapping(unescape(line.end()?)))`
    for k, n, f in ops:
        if k == "helper":
            tgt = comment_target(q, cx, fn, n, f)
            if tgt:
                d["comment"] = tgt
                if tgt.get("value_root") and tgt["value_root"][0] == "line":
                    col_role.setdefault(tgt["value_root"][2], []).append((tgt["value_root"][1], tgt["owner"], tuple(tgt["calls"])))
            else:
                d["problems"].append("line handed to a helper that does not store it in a javadoc field")
    cols = []
    last = None
    for k, n, f in ops:
        if k in ("next", "end", "into_names", "into_namespaces"):
            o = RD.ordinals.get(id(n))
            rs = col_role.get(o, [])
            rs = [r for r in rs if r[0] == k]
            if len(rs) != 1:
                cols.append(("?", "column %s read by %s() but stored in %d places" % (o, k, len(rs))))
            elif k in ("into_names", "into_namespaces"):
                cols.append(("names", rs[0][1] + "[*]", True, ""))
            else:
                cols.append(("field", rs[0][1], rs[0][2], "end" if k == "end" else "next"))
            last = k
    d["cols"] = cols
    d["terminal"] = last
    return d


def comment_target(q, cx, fn, call, callee):
    """For `helper(&mut X.javadoc, line)`: owner field of the first argument and how the stored value is derived from the line."""
    args = H.call_args(call)
    owner = None
    for a in args:
        ch = fn.trace(a)
        r = U.role_of(ch, q, cx.key_eq)
        if r and r[0][1] == "javadoc" and not r[1]:
            owner = U.role_str(r[0])
    if owner is None:
        return None
    out = {"owner": owner, "calls": [], "value_root": None, "guarded": False, "assign": None, "callee": callee}
    for n in H.walk(callee.root):
        if n.get("k") == "assign":
            l = H.peel(n["l"])
            loc = H.local_of(l)
            pids = H.param_ids(callee.body)
            if loc and pids and loc[0] == pids[0]:
                ch = callee.trace(n["r"])
                out["value_root"] = ch.root
                out["value_chain"] = ch
                out["calls"] = [h[1] for h in ch.hops if h[0] == "call"]
                out["mk"] = [h for h in ch.hops if h[0] == "mk"]
                out["assign"] = n
    return out


def reader_header(q, cx, R):
    """Header handling of `read`: expected literal per column, namespaces from the rest."""
    fn, RD = cx.rfn, cx.RD
    out = {"lits": {}, "ns": None, "problems": [], "err_exit": False}
    # the header line: a local of type TinyLine bound outside every level closure
    skip = RD.level_closures(fn)
    hdr = None
    for lid, b in fn.binds.items():
        if U.is_line_ty(b.ty, ("TinyLine",)) and b.origin[0] == "let":
            inside = any(a.get("k") == "closure" for a in fn.parents(b.origin[1]))
            if not inside:
                hdr = lid
    if hdr is None:
        out["problems"].append("no header line local")
        return out
    out["ops"] = RD.row_ops(fn, fn.root, hdr)
    # the header line may be handed to a private helper (`read_header(header)`): its comparisons are looked for there as well
    ctxs = [(fn, hdr)]
    for n in H.walk(fn.root):
        if n.get("k") == "call":
            for ai, a in enumerate(n.get("args") or []):
                la = H.local_of(a)
                if la and la[0] == hdr:
                    cb = q.by_key.get((n.get("callee") or {}).get("inst_key") or (n.get("callee") or {}).get("key"))
                    if cb is not None and isinstance(cb.get("body"), dict) and ai < len(cb.get("params") or []):
                        ids = [i for i, _ in H.pat_bindings(cb["params"][ai])]
                        if len(ids) == 1:
                            hfn = RD.mkfn(cb)
                            ctxs.append((hfn, ids[0]))
                            if not out["ops"]:
                                out["ops"] = RD.row_ops(hfn, hfn.root, ids[0])
    # comparisons: the condition under which the header is rejected, as a boolean formula over the atoms `<column> == <literal>`
    # (compared by truth table: `a != x || b != y`, `!(a == x && b == y)`, `if a == x && b == y { .. } else { bail }` are the same)
    for fn, hdr in ctxs:
        for n in H.walk(fn.root):
            if n.get("k") != "if":
                continue

            def atom(lf, fn=fn, hdr=hdr, depth=[0]):
                if lf.get("k") == "path" and (lf.get("res") or {}).get("r") == "local" and lf.get("ty") == "bool" and depth[0] < 4:
                    # `let ok = a == x && b == y; if !ok { bail }`: a bool local stands for its initialiser
                    b_ = fn.binds.get(lf["res"]["id"])
                    if b_ is not None and b_.origin[0] == "let" and not b_.path and "init" in b_.origin[1] and lf["res"]["id"] not in fn.reassigned():
                        depth[0] += 1
                        try:
                            return B.formula(b_.origin[1]["init"], atom)
                        finally:
                            depth[0] -= 1
                if lf.get("k") == "bin" and lf["op"] in ("==", "!="):
                    for a, b in ((lf["l"], lf["r"]), (lf["r"], lf["l"])):
                        v = H.const_value(b)
                        if not isinstance(v, str):
                            continue
                        col = None
                        a0 = H.peel(a, tries=True)
                        if a0.get("k") == "mcall" and a0["name"] in ("as_str", "as_ref", "borrow", "deref", "clone", "to_owned", "to_string"):
                            a0 = H.peel(a0["recv"], tries=True)
                        if a0.get("k") == "field" and a0["name"] == "first_field" and H.local_of(a0["e"]) and H.local_of(a0["e"])[0] == hdr:
                            col = "tag"
                        else:
                            ch = fn.trace(a)
                            if ch.root[0] == "line" and ch.root[1] == "next" and not ch.hops:
                                col = ch.root[2]
                        if col is not None:
                            at = ("atom", (col, v))
                            return at if lf["op"] == "==" else ("not", at)
                return None
            f = B.formula(n["cond"], atom)
            ats = B.atoms(f)
            cols = [a for a in ats if isinstance(a, tuple)]
            if not cols:
                continue
            then_err = H.is_err_exit(n["then"])
            else_err = "else" in n and H.is_err_exit(n["else"])
            if then_err and not else_err:
                err_f = f
            elif else_err and not then_err:
                err_f = ("not", f)
            else:
                err_f = None
            accept = None
            for a in cols:
                accept = ("atom", a) if accept is None else ("and", accept, ("atom", a))
            good = err_f is not None and len(cols) == len(ats) and len(set(c for c, _ in cols)) == len(cols) \
                and len(ats) <= 8 and B.equivalent(err_f, ("not", accept))[0]
            if not good:
                out["problems"].append("the header is not rejected exactly when one of `column == literal` fails: rejected when %s"
                                       % (B.show(err_f) if err_f is not None else "<no error exit on either side of the test>"))
            out["lits"] = {c: v for c, v in cols}
            # the accepting side goes on with the function (no `else` next to a rejecting `then`, or the rejecting side is the `else`)
            out["err_exit"] = err_f is not None and (("else" not in n) if then_err else True)
    fn, hdr = ctxs[0]
    for st in RD.struct_lits(fn, fn.root, ("MappingInfo",)):
        for f in st["fields"]:
            ch = fn.trace(f["e"])
            if ch.root[0] == "line" and ch.root[1] == "into_namespaces":
                out["ns"] = ("MappingInfo.%s" % f["name"], ch.root[2])
    return out


# ------------------------------------------------------------------------------------------------ R03.10
_DROPPING = ("filter", "filter_map", "skip", "skip_while", "take", "take_while", "step_by", "nth", "last", "find", "find_map",
             "flat_map", "dedup", "dedup_by", "dedup_by_key", "unique", "unique_by")
_DROPPING_MUT = ("retain", "retain_mut", "truncate", "drain", "remove", "swap_remove", "pop", "clear", "dedup", "dedup_by", "dedup_by_key",
                 "split_off", "shift_remove", "swap_remove_index", "shift_remove_index")


def _complete_walk(R, fn, for_node, o, key):
    """R03.10: a writer loop over a map of the model emits one row per entry: nothing between the map iteration and the loop drops entries
    (filter/skip/take/.. in the iterator chain, retain/truncate/.. on the collected vector) and the loop body has no `continue`/`break`
    (seed C03-5: a filter on nameless parameters loses their comment)."""
    rid = "R03.10"
    bad = []
    hops = o["chain"].hops
    last = max([i for i, h in enumerate(hops) if h[0] == "mapiter"] or [-1])
    for h in hops[last + 1:]:
        if h[0] == "call" and h[1] in _DROPPING:
            bad.append(".%s(..) in the iterator chain" % h[1])
    if o["local"] is not None:
        for n in H.walk(fn.root):
            if n is for_node:
                break
            if n.get("k") == "mcall" and n["name"] in _DROPPING_MUT:
                loc = H.local_of(n["recv"])
                if loc and loc[0] == o["local"]:
                    bad.append("%s.%s(..) before the loop" % (loc[1], n["name"]))
    stack = [for_node["body"]]
    while stack:
        n = stack.pop()
        if not isinstance(n, dict):
            continue
        k = n.get("k")
        if k in ("for", "loop", "while", "closure") and n is not for_node["body"]:
            # a `continue`/`break` of an inner loop (or a closure) does not leave this one; inner model loops are instances of their own
            continue
        if k in ("continue", "break"):
            bad.append("`%s` in the loop body" % k)
            continue
        stack.extend(H.children(n))
    R.inst(rid, key, not bad, sp=for_node.get("sp"), expect="one row per entry of the map: no dropping adaptor, no dropping mutation, no continue/break",
           got=bad or "complete", detail="an entry that is skipped by the writer (with its comment and children) is lost by write -> read")


# ------------------------------------------------------------------------------------------------ R03.1 / R03.2
def r03_1_2(q, R, cx):
    R.rule("R03.10", "complete walk: every writer loop over a map of the model emits a row for every entry - no filter/skip/take/.. between the map "
                     "iteration and the loop, no retain/truncate/.. on the collected vector, no continue/break in the loop body; no row of the "
                     "writer is preceded by a successful early exit (return Ok / continue / break under a test of the content)")
    R.rule("R03.1", "every loop in tiny_v2::write (helpers inlined) that emits text while walking an IndexMap/HashMap walks a "
                    "collection that was sorted after it was collected (order taint: map iteration -> sort -> write); the sort is executed "
                    "whenever the loop is (not under a condition of its own, `len() > 1` apart)")
    R.rule("R03.2", "the sort key of each such loop is a place of the element whose type has a derived Ord and which contains every "
                    "field the map key is computed from (ToKey::get_key), so the order is total on distinct entries")
    if not cx.ok:
        R.floor("R03.1", 4)
        R.floor("R03.2", 4)
        return
    seen = set()
    for wr in cx.wrows:
        # structural loops and inline loops of this row
        loops = [(n, fn) for (n, fn, m) in wr["loops"]]
        for ch, items in wr["row"].variants():
            for it in items:
                if it[0] == "rep":
                    loops.append((it[1], it[3]))
        for node, fn in loops:
            if id(node) in seen or node.get("k") != "for":
                if node.get("k") != "for" and id(node) not in seen:
                    seen.add(id(node))
                    R.unrecognised("R03.1", "tiny_v2::write", "text written in a `loop`/`while` (iteration order not derivable)", node.get("sp"))
                continue
            seen.add(id(node))
            o = U.order_of_loop(fn, node)
            if not o["tainted"]:
                continue
            key = "loop:%s" % ("%s.%s" % o["map"] if o["map"] else "unknown-map")
            R.inst("R03.1", key, o["sorted"] is not None, sp=node.get("sp"),
                   detail="the loop walks data in IndexMap iteration order (= insertion order); it must be sorted before the first write",
                   expect="<collected>.sort*(..) before the loop", got=("sorted by " + H.render(o["sorted"])[:80]) if o["sorted"] else (o.get("sort_problem") or "no sort"))
            if o["sorted"] is not None:
                U.sort_key_total(q, R, "R03.2", cx, fn, o, key.replace("loop:", "sortkey:"))
            _complete_walk(R, fn, node, o, key.replace("loop:", "walk:"))
    # no successful early exit before a row: `if <content test> { return Ok(()) }` / `continue` ahead of a write! drops the row (and
    # everything after it) for some contents (seed C12-10 for the Enigma writer; the same shape here)
    seen_exits = set()
    for i, wr in enumerate(cx.wrows):
        if i == 0 and not [c for c in wr["row"].ctx if c[0] != "after-exit"]:
            key = "header"
        else:
            key = "%s:%s%s" % (_short_path(wr["path"]) or "<top>", wr["tag"], "(comment)" if wr["owner"] is not None else "")
        ex = U.exits_before(wr["row"], seen_exits)
        R.inst("R03.10", "written-unconditionally:%s" % key, not ex, sp=(wr["loops"][-1][0].get("sp") if wr["loops"] else cx.wb["sp"]),
               expect="the row is written for every entry (comment rows: for every Some(comment)): no `return Ok(..)`/continue/break before it",
               got=ex or "no early exit before the row",
               detail="a row that is skipped for some content is missing after write -> read")
    # closures passed to iterator adaptors that write (for_each etc.) are rejected by the term extractor (unrecognised)
    R.floor("R03.1", 4)
    R.floor("R03.2", 4)
    R.floor("R03.10", 4 + 9)


# ------------------------------------------------------------------------------------------------ R03.3
def r03_3(q, R, cx, spec):
    R.rule("R03.3", "coverage: every leaf field of the mapping model (ADT tables of tree::mappings) is printed by tiny_v2::write and "
                    "populated by tiny_v2::read; every map of the model is written by a loop and filled through its add_* method")
    if not cx.ok:
        R.floor("R03.3", 17)
        return
    written = set()
    for wr in cx.wrows:
        for role, calls, trait, ch in wr["holes"]:
            if role:
                written.add(role.split("[")[0])
    read = set()
    for k, rr in cx.rrows.items():
        for c in rr["cols"]:
            if c[0] in ("field", "names"):
                read.add(c[1].split("[")[0])
    if cx.header.get("ns"):
        read.add(cx.header["ns"][0])
    wmaps = set(m for wr in cx.wrows for m in wr["path"])
    rmaps = set(rr["adds"] for rr in cx.rrows.values() if rr.get("adds"))
    leaves = set(cx.leaves)
    missing_in_model = [x for x in spec["model_leaf_fields"] if x not in leaves]
    R.inst("R03.3", "model-tables", not missing_in_model and set(spec["model_maps"]) <= set(cx.maps), sp=None,
           expect="ADT tables contain %s" % (spec["model_leaf_fields"] + spec["model_maps"]), got="missing %s" % missing_in_model,
           nontrivial=False)
    for lf in sorted(leaves):
        w, r = lf in written, lf in read
        R.inst("R03.3", "field:%s" % lf, w and r, sp=(q.adts.get(U.MODEL_PATH + lf.split(".")[0]) or {}).get("sp"),
               expect="written and read", got="%s, %s" % ("written" if w else "NOT written", "read" if r else "NOT read"),
               detail="a field that is written but not populated by read (or vice versa) cannot survive write -> read -> write")
    for m in sorted(cx.maps):
        w, r = m in wmaps, m in rmaps
        R.inst("R03.3", "map:%s" % m, w and r, sp=None, expect="walked by write and filled by read",
               got="%s, %s" % ("walked" if w else "NOT walked", "filled" if r else "NOT filled"))
    R.floor("R03.3", 17)


# ------------------------------------------------------------------------------------------------ R03.4
def show_cols(cols):
    out = []
    for c in cols:
        if c[0] == "lit":
            out.append(repr(c[1]))
        elif c[0] == "field":
            out.append(c[1])
        elif c[0] == "names":
            out.append(c[1] if c[1].endswith("[*]") else c[1])
        else:
            out.append("?(%s)" % (c[1],))
    return out


def r03_4(q, R, cx, spec):
    if not cx.ok:
        R.floor("R03.4", 22)
        return
    sep = spec["separator"]
    # writer rows by key
    wk = {}
    hdr_w = None
    for i, wr in enumerate(cx.wrows):
        if i == 0 and not wr["row"].ctx:
            hdr_w = wr
            continue
        pk = _short_path(wr["path"])
        tag = wr["tag"]
        is_comment = wr["owner"] is not None
        key = "%s:%s%s" % (pk or "<top>", tag, "(comment)" if is_comment else "")
        if key in wk:
            R.inst("R03.4", "row:%s" % key, False, sp=wr["loops"][-1][0].get("sp") if wr["loops"] else cx.wb["sp"],
                   detail="two writer rows of the same kind")
        wk[key] = wr
    rk = {}
    for (path, tag, _c), rr in cx.rrows.items():
        is_comment = rr["comment"] is not None
        p = rr["path"][:-1] if rr.get("adds") else rr["path"]
        key = "%s:%s%s" % (_short_path(p + ([rr["adds"]] if rr.get("adds") else [])) or "<top>", tag, "(comment)" if is_comment else "")
        rk[key] = rr
    # ---- header
    hw_cols = show_cols(hdr_w["cols"]) if hdr_w else None
    ok_w = hdr_w is not None and hdr_w["depth"] == 0 and hdr_w["tag"] == spec["header"][0] and len(hdr_w["cols"]) == 3 and \
        list(hdr_w["cols"][:2]) == [("lit", spec["header"][1]), ("lit", spec["header"][2])] and \
        hdr_w["cols"][2] == ("names", "MappingInfo.namespaces[*]", True, "") and not hdr_w["problems"]
    R.inst("R03.4", "header:writer", ok_w, sp=cx.wb["sp"], expect="%s + one column per namespace (MappingInfo.namespaces)" % spec["header"],
           got=[hdr_w["tag"]] + hw_cols if hdr_w else None)
    h = cx.header
    ok_r = h["lits"] == {"tag": spec["header"][0], 0: spec["header"][1], 1: spec["header"][2]} and h["err_exit"] and \
        h["ns"] == ("MappingInfo.namespaces", 2) and not h["problems"]
    R.inst("R03.4", "header:reader", ok_r, sp=cx.rb["sp"], expect="tag %r, column 0 %r, column 1 %r else Err; namespaces = remaining columns"
           % tuple(spec["header"]), got={"literals": {str(k): v for k, v in h["lits"].items()}, "namespaces": h["ns"], "err": h["err_exit"],
                                         "problems": h["problems"]})
    # ---- rows
    read_roles = set()
    for rr in cx.rrows.values():
        for c in rr["cols"]:
            if c[0] in ("field", "names"):
                read_roles.add(c[1].split("[")[0])
    for key in sorted(set(wk) | set(rk)):
        wr, rr = wk.get(key), rk.get(key)
        sp = (wr["loops"][-1][0].get("sp") if wr and wr["loops"] else None) or (rr["body"].get("sp") if rr else cx.wb["sp"])
        if wr is None:
            # a row kind only the reader understands does not affect write -> read
            continue
        if rr is None:
            roles = [hh[0] for hh in wr["holes"]]
            if roles and all(r and r.split("[")[0] not in read_roles for r in roles):
                # reported per field by R03.3 (written, not read); nothing to compare here
                R.note("writer row %s has no reader counterpart; its fields are reported by R03.3" % key)
                continue
            R.inst("R03.4", "row:%s" % key, False, sp=sp, detail="the writer emits this row kind but the reader has no branch for it "
                   "at that level", got=[wr["tag"]] + show_cols(wr["cols"]))
            continue
        problems = list(wr["problems"]) + list(rr["problems"])
        wc, rc = show_cols(wr["cols"]), show_cols(rr["cols"])
        wdepth = wr["depth"]
        rdepth = rr["depth"][1] if rr["depth"] and rr["depth"][0] == "abs" else None
        for c in wr["cols"]:
            if c[0] == "names" and not c[2]:
                problems.append("writer name cells: " + c[3])
            if c[0] == "field" and c[3] != "Display":
                problems.append("writer prints %s with {:?}/%s" % (c[1], c[3]))
        # reader: the last column operation must consume the rest of the line (into_names) or check that nothing follows (end)
        if rr["terminal"] not in ("into_names", "end"):
            problems.append("reader does not check for surplus columns (last operation is %s)" % rr["terminal"])
        # comment rows: owner of the enclosing `if let Some(..) = X.javadoc` must be the printed field
        if wr["owner"] is not None and not any(c[0] == "field" and c[1] == wr["owner"] for c in wr["cols"]):
            problems.append("comment row is guarded by %s but prints %s" % (wr["owner"], wc))
        ok = wc == rc and wdepth == rdepth and wr["tag"] == rr["tag"] and not problems
        R.inst("R03.4", "row:%s" % key, ok, sp=sp, expect={"depth": wdepth, "tag": wr["tag"], "columns": wc, "side": "writer"},
               got={"depth": rdepth, "tag": rr["tag"], "columns": rc, "side": "reader", "problems": problems},
               detail="writer template and reader column use of one row kind")
        # against the layout table
        path = key.split(":")[0]
        if wr["owner"] is None and path in spec["rows"]:
            s = spec["rows"][path]
            R.inst("R03.4", "spec:%s" % key, s["tag"] == wr["tag"] and s["depth"] == wdepth and s["columns"] == wc, sp=sp,
                   expect=s, got={"tag": wr["tag"], "depth": wdepth, "columns": wc})
        elif wr["owner"] is not None and path in spec["comment_owner"]:
            want_depth = spec["rows"][path]["depth"] + 1
            R.inst("R03.4", "spec:%s" % key, wr["tag"] == spec["comment_tag"] and wdepth == want_depth and wc == [spec["comment_owner"][path]],
                   sp=sp, expect={"tag": spec["comment_tag"], "depth": want_depth, "columns": [spec["comment_owner"][path]]},
                   got={"tag": wr["tag"], "depth": wdepth, "columns": wc})
    # ---- separator and indentation of the reader tokeniser
    tl = q.fn("new", impl_ty="TinyLine")
    if R.anchor("R03.4", "fn TinyLine::new", tl):
        splits = [H.const_value(n["args"][0]) for n in H.walk(tl["body"]) if n.get("k") == "mcall" and n["name"] == "split" and n.get("args")]
        R.inst("R03.4", "separator", splits == [sep], sp=tl["sp"], expect="fields split at %r (the writer's column separator)" % sep, got=splits)
        ind = []
        for n in H.walk(tl["body"]):
            if n.get("k") == "mcall" and n["name"] == "take_while" and n.get("args"):
                cl = H.peel(n["args"][0])
                if cl.get("k") == "closure":
                    b = H.peel(cl["body"])
                    if b.get("k") == "bin" and b["op"] == "==":
                        ind.append(H.const_value(b["r"]) if H.const_value(b["r"]) is not None else H.const_value(b["l"]))
        R.inst("R03.4", "indent-char", ind == [spec["indent"]], sp=tl["sp"], expect="indentation counted in %r" % spec["indent"], got=ind)
    # ---- TinyLine::end rejects surplus columns (a comment is exactly one column)
    en = q.fn("end", impl_ty="TinyLine")
    if R.anchor("R03.4", "fn TinyLine::end", en):
        ok, got = False, None
        for n in H.walk(en["body"]):
            if n.get("k") == "ret" and H.is_err_exit(n):
                for kind, cn, pol in H.path_conditions(en["body"], n):
                    if kind == "if":
                        inner, neg = H.negate_peel(cn)
                        got = H.render(cn)[:80]
                        if inner.get("k") == "mcall" and inner["name"] == "is_empty" and H.place_root(inner["recv"])[1][:1] == ["fields"]:
                            ok = ok or (pol != neg) is False
        nx = [n for n in H.walk(en["body"]) if n.get("k") == "mcall" and n["name"] == "next"]
        R.inst("R03.4", "end-rejects-surplus", ok and len(nx) == 1, sp=en["sp"], expect="one next()?, then Err unless self.fields is empty", got=got)
    # ---- empty cell <=> None on the reader side
    inn = q.fn("into_names", impl_ty="TinyLine")
    if R.anchor("R03.4", "fn TinyLine::into_names", inn):
        ok, got = into_names_empty_is_none(inn)
        R.inst("R03.4", "names-empty-cell:reader", ok, sp=inn["sp"], expect="cell.is_empty() -> None, otherwise Some(cell)", got=got)
    R.floor("R03.4", 22)


def into_names_empty_is_none(inn):
    for n in H.walk(inn["body"]):
        if n.get("k") == "if" and "else" in n:
            c = H.peel(n["cond"], refs=False)
            neg = False
            c2, neg = H.negate_peel(c)
            if c2.get("k") == "mcall" and c2["name"] == "is_empty" and H.local_of(c2["recv"]):
                lid = H.local_of(c2["recv"])[0]
                th, el = H.peel(n["then"]), H.peel(n["else"])
                if neg:
                    th, el = el, th

                def is_none(x):
                    c = H.ctor_of(x)
                    return bool(c) and c[1] == "None"

                def is_some_of(x):
                    c = H.ctor_of(x)
                    return bool(c) and c[1] == "Some" and x.get("k") == "call" and H.local_of(x["args"][0]) and H.local_of(x["args"][0])[0] == lid
                return is_none(th) and is_some_of(el), H.render(n)[:120]
    # combinator spellings of the same table: `Some(cell).filter(|c| !c.is_empty())`, `(!cell.is_empty()).then_some(cell)` / `.then(|| cell)`
    for n in H.walk(inn["body"]):
        if n.get("k") != "mcall":
            continue
        if n["name"] == "filter" and len(n["args"]) == 1:
            r = H.peel(n["recv"])
            cl = H.peel(n["args"][0])
            c = H.ctor_of(r)
            if c and c[1] == "Some" and r.get("k") == "call" and H.local_of(r["args"][0]) and cl.get("k") == "closure" and len(cl["params"]) == 1:
                pid = [i for i, _ in H.pat_bindings(cl["params"][0])]
                body, neg = H.negate_peel(H.peel(cl["body"], refs=False))
                while body.get("k") == "block" and not body.get("stmts") and "tail" in body:
                    body, n2 = H.negate_peel(H.peel(body["tail"], refs=False))
                    neg = neg != n2
                if neg and body.get("k") == "mcall" and body["name"] == "is_empty" and H.local_of(body["recv"]) and pid \
                        and H.local_of(body["recv"])[0] == pid[0]:
                    return True, H.render(n)[:120]
        if n["name"] in ("then_some", "then") and len(n["args"]) == 1 and (n["recv"].get("ty") == "bool"):
            cnd, neg = H.negate_peel(H.peel(n["recv"], refs=False))
            a = H.peel(n["args"][0])
            if a.get("k") == "closure":
                a = H.peel(a["body"])
            if neg and cnd.get("k") == "mcall" and cnd["name"] == "is_empty" and H.local_of(cnd["recv"]) and H.local_of(a) \
                    and H.local_of(a)[0] == H.local_of(cnd["recv"])[0]:
                return True, H.render(n)[:120]
    return False, "no `if cell.is_empty()`"


# ------------------------------------------------------------------------------------------------ R03.5
def replace_table(body):
    """`s.replace(a, b).replace(c, d)` chain on the parameter -> [(a, b), (c, d)] in application order, or None."""
    e = H.peel(body["body"])
    while e.get("k") == "block" and not e["stmts"] and "tail" in e:
        e = H.peel(e["tail"])
    pairs = []
    pid = H.param_ids(body)
    while True:
        e = H.peel(e)
        if e.get("k") == "mcall" and e["name"] == "replace" and len(e["args"]) == 2:
            a, b = H.const_value(e["args"][0]), H.const_value(e["args"][1])
            if not isinstance(a, str) or not isinstance(b, str):
                return None
            pairs.append((a, b))
            e = e["recv"]
            continue
        if e.get("k") == "mcall" and e["name"] in U.PASS:
            e = e["recv"]
            continue
        loc = H.local_of(e)
        if loc and pid and loc[0] == pid[0]:
            return list(reversed(pairs))
        return None


def scanner_table(body, intro):
    """Single-pass forms.  escape: `for c in s.chars() { match c { 'x' => out.push_str("\\x"), .., c => out.push(c) } }`;
    unescape: `while let Some(c) = chars.next() { if c == INTRO { match chars.next() { Some('x') => out.push('y'), .. } } else { out.push(c) } }`.
    -> list of (from, to) or None."""
    def lit_push(e):
        e = H.peel(e)
        if e.get("k") == "block" and len(e["stmts"]) == 1 and "tail" not in e:
            e = H.peel(e["stmts"][0])
        if e.get("k") == "mcall" and e["name"] in ("push", "push_str") and len(e["args"]) == 1:
            v = H.const_value(e["args"][0])
            return v if isinstance(v, str) else None
        return None

    def pat_char(p):
        p = H.pat_peel(p)
        v = H.pat_variant(p)
        if v and v[1] == "Some" and p.get("k") == "ptuplestruct" and len(p["pats"]) == 1:
            p = H.pat_peel(p["pats"][0])
            some = True
        else:
            some = False
        if p.get("k") == "pexpr" and p["e"].get("t") == "char":
            return p["e"]["v"], some
        return None, some

    pairs = []
    for n in H.walk(body["body"]):
        if n.get("k") != "match" or n.get("src") not in (None, "Normal"):
            continue
        arms = [(pat_char(a["pat"]), lit_push(a["body"])) for a in n["arms"] if "guard" not in a]
        hits = [((c, some), to) for (c, some), to in arms if c is not None]
        if not hits:
            continue
        if any(to is None for _, to in hits):
            return None
        if all(some for (c, some), _ in hits):
            # unescape: must sit under `if <char> == INTRO`
            conds = [H.peel(cn, refs=False) for kind, cn, pol in H.path_conditions(body["body"], n) if kind == "if" and pol is True]
            ok = any(c.get("k") == "bin" and c["op"] == "==" and intro in (H.const_value(c["l"]), H.const_value(c["r"])) for c in conds)
            sc = H.peel(n["scrut"])
            if not ok or not (sc.get("k") == "mcall" and sc["name"] == "next"):
                return None
            pairs.extend((intro + c, to) for (c, _), to in hits)
        elif not any(some for (c, some), _ in hits):
            pairs.extend((c, to) for (c, _), to in hits)
        else:
            return None
    return pairs or None


def r03_5(q, R, cx, spec):
    R.rule("R03.5", "escape/unescape: for every character special to the line splitter (BufRead::lines) or the field splitter "
                    "(TinyLine::new) escape replaces it by a sequence free of special characters and unescape maps that sequence "
                    "back; the escape introducer is escaped itself; every comment hole goes through escape and every comment read "
                    "through unescape")
    # the two functions are found by role: the repository function every comment hole of the writer goes through, and the one
    # the stored comment text goes through in the reader's comment helper
    def crate_calls(ch):
        return [h[3] for h in ch.hops if h[0] == "call" and len(h) > 3 and h[3] in q.by_key]
    ekeys, ukeys = set(), set()
    if cx.ok:
        for wr in cx.wrows:
            if wr["owner"] is not None:
                for role, calls, trait, ch in wr["holes"]:
                    ekeys.update(crate_calls(ch))
        for rr in cx.rrows.values():
            if rr.get("comment") and rr["comment"].get("value_chain") is not None:
                ukeys.update(crate_calls(rr["comment"]["value_chain"]))
    esc = q.by_key.get(list(ekeys)[0]) if len(ekeys) == 1 else None
    une = q.by_key.get(list(ukeys)[0]) if len(ukeys) == 1 else None
    if not (R.anchor("R03.5", "the escape function applied to the comment holes of tiny_v2::write", esc)
            and R.anchor("R03.5", "the unescape function applied to comments in tiny_v2::read", une)):
        R.floor("R03.5", 5 + 8)
        return
    ename, uname = esc["name"], une["name"]
    et, ut = replace_table(esc), replace_table(une)
    e_single = u_single = False
    if et is None:
        et = scanner_table(esc, spec["escape_introducer"])
        e_single = et is not None
    if ut is None:
        ut = scanner_table(une, spec["escape_introducer"])
        u_single = ut is not None
    if et is None:
        R.unrecognised("R03.5", "tiny_v2::escape", "body is neither a chain of str::replace(literal, literal) on the parameter nor a single-pass `match` over the characters", esc["sp"])
        return
    if ut is None:
        R.unrecognised("R03.5", "tiny_v2::unescape", "body is neither a chain of str::replace(literal, literal) on the parameter nor a single-pass `match` over the characters", une["sp"])
        return
    special = dict(spec["line_reader_special"])
    special[spec["separator"]] = "field separator (TinyLine::new splits at it)"
    intro = spec["escape_introducer"]
    names = {"\n": "\\n", "\r": "\\r", "\t": "\\t", "\\": "backslash"}
    emap, umap = dict(et), dict(ut)
    for ch in sorted(special):
        to = emap.get(ch)
        ok = to is not None and not any(s in to for s in special) and umap.get(to) == ch and to.startswith(intro)
        R.inst("R03.5", "escape:%s" % names.get(ch, repr(ch)), ok, sp=esc["sp"],
               expect="escape: %r -> <introducer + code>, unescape: the inverse  (%s)" % (ch, special[ch]),
               got={"escape": to, "unescape": [k for k, v in ut if v == ch]})
    # the introducer itself
    to = emap.get(intro)
    ok_i = to is not None and umap.get(to) == intro and e_single and u_single
    R.inst("R03.5", "escape:%s" % names[intro], ok_i, sp=esc["sp"],
           expect="escape: %r -> %r and the inverse, both as a single pass over the characters (a chain of str::replace re-scans its own "
                  "output and cannot be inverted once the introducer is escaped)" % (intro, intro + intro),
           got={"escape": et, "unescape": ut, "single_pass": [e_single, u_single]},
           detail="without it a comment that contains the two characters `\\` `n` is read back as a line break")
    # pairs must be mutually inverse, nothing else
    inv = sorted((b, a) for a, b in et) == sorted(ut)
    R.inst("R03.5", "tables-inverse", inv, sp=une["sp"], expect="unescape table = inverse of escape table", got={"escape": et, "unescape": ut})
    # use sites
    if cx.ok:
        n = 0
        for wr in cx.wrows:
            if wr["owner"] is None:
                continue
            pk = _short_path(wr["path"]) or "<top>"
            for role, calls, trait, ch in wr["holes"]:
                n += 1
                R.inst("R03.5", "comment-escaped:%s" % pk, crate_calls(ch) == [esc["key"]] and calls == [ename] and ch.hops[-1][0] == "call", sp=wr["row"].ctx[-1][1].get("sp"),
                       expect="escape(&<javadoc>.0)", got=ch.show())
        for k, rr in cx.rrows.items():
            if rr["comment"] is None:
                continue
            pk = _short_path(rr["path"]) or "<top>"
            c = rr["comment"]
            R.inst("R03.5", "comment-unescaped:%s" % pk, c["calls"] == [uname] and bool(c["value_root"]) and c["value_root"][0] == "line"
                   and c["value_root"][1] == "end", sp=rr["body"].get("sp"), expect="unescape(line.end()?)", got={"calls": c["calls"], "from": str(c["value_root"][:2]) if c["value_root"] else None})
    R.floor("R03.5", 5 + 8)


# ------------------------------------------------------------------------------------------------ R03.6
def fn_stmt_of(b, node):
    """The innermost statement / tail expression of function `b` that contains `node` (for reports)."""
    best = node
    for st in H.walk(b["body"]):
        if st.get("k") == "block":
            for x in list(st["stmts"]) + ([st["tail"]] if "tail" in st else []):
                if any(y is node for y in H.walk(x)):
                    best = x
    return best


ERR_ADAPTORS = ("context", "with_context", "map_err", "inspect_err")      # Result -> Result, an Err stays an Err


def completes_only_with_err(e):
    """Every way `e` can finish is an error: it leaves the function through `return Err(..)` / bail! / `Err(..)?`, or its value is
    `Err(..)` (possibly behind blocks, if/else, match arms and context adaptors).  -> "exit" | "value" | "mixed" | None."""
    e = H.peel(e, refs=False)
    k = e.get("k")
    if H.diverges(e):
        rets = [x for x in H.walk(e, into_closures=False) if x.get("k") == "ret"]
        tries = [x for x in H.walk(e, into_closures=False) if x.get("k") == "try"]
        if rets and all(H.is_err_exit(x) for x in rets):
            return "exit"
        if not rets and tries and e.get("k") == "try" and completes_only_with_err(e["e"]) == "value":
            return "exit"       # `Err(..)?`
        return None
    if k == "block":
        if any(x.get("k") == "ret" and not H.is_err_exit(x) for x in H.walk(e, into_closures=False)):
            return None
        return completes_only_with_err(e["tail"]) if "tail" in e else None
    if k == "call":
        c = H.ctor_of(e)
        return "value" if c and c[1] == "Err" else None
    if k == "mcall" and e["name"] in ERR_ADAPTORS:
        return completes_only_with_err(e["recv"])
    if k == "try":
        return "exit" if completes_only_with_err(e["e"]) == "value" else None
    if k in ("if", "match"):
        alts = ([e["then"]] + ([e["else"]] if "else" in e else [None])) if k == "if" else [a["body"] for a in e["arms"]]
        rs = [completes_only_with_err(a) if a is not None else None for a in alts]
        if not rs or any(r is None for r in rs):
            return None
        return rs[0] if len(set(rs)) == 1 else "mixed"
    return None


def value_is_fn_result(fn, node):
    """The value of `node` is what the function returns: it sits in tail position / under `return` / under `?` (an Err leaves the
    function) / behind a context adaptor, or is bound to a local that is the function's result in the same way."""
    cur = node
    for _ in range(40):
        par = fn.parent.get(id(cur))
        if par is None:
            return cur is fn.root
        k = par.get("k")
        if k == "block":
            if par.get("tail") is not cur:
                return False
        elif k in ("ret", "try"):
            if k == "ret":
                return True
            # Err(..)? leaves the function; the Ok side goes on, which is fine for "an Err becomes the result"
            return True
        elif k == "mcall" and par["name"] in ERR_ADAPTORS and par["recv"] is cur:
            pass
        elif k in ("if", "match"):
            if k == "if" and par.get("cond") is cur:
                return False
            if k == "match" and par.get("scrut") is cur:
                return False
        elif k == "let" and par.get("init") is cur and par["pat"].get("k") == "bind" and "els" not in par:
            lid = par["pat"]["id"]
            uses = [x for x in H.walk(fn.root) if x.get("k") == "path" and (x.get("res") or {}).get("r") == "local" and x["res"].get("id") == lid]
            return len(uses) == 1 and value_is_fn_result(fn, uses[0])
        elif k in ("semi",):
            return False
        elif k == "closure":
            return False
        else:
            return False
        cur = par
    return False


def entry_dispatches(b):
    """Two-way decisions on an `Entry` value in a function, as (real node, match-shaped view): a `match`, an
    `if let P = <entry> { A } else { B }` (arms P => A, _ => B; without `else` and with a diverging A, B is what follows the `if`
    in its block) or a `let P = <entry> else { B };` (arms P => <what follows>, _ => B).  The view has `scrut` and `arms` like a
    match node and `result_of`: the node whose value the arm values become."""
    out = []
    for n in H.walk(b["body"]):
        k = n.get("k")
        if k == "match" and "Entry" in (n["scrut"].get("ty") or ""):
            out.append((n, n))
        elif k == "if":
            c = H.peel(n["cond"], refs=False)
            if c.get("k") == "letexpr" and "Entry" in (H.peel(c["init"], refs=False).get("ty") or ""):
                other = n["else"] if "else" in n else {"k": "block", "stmts": [], "ty": "()", "sp": n.get("sp")}
                holder = n
                if "else" not in n and H.diverges(n["then"]):
                    chain = H.parents_of(b["body"], n) or []
                    st = n
                    while chain and chain[-1].get("k") == "semi":
                        st = chain.pop()
                    blk = chain[-1] if chain and chain[-1].get("k") == "block" else None
                    if blk is not None and any(x is st for x in blk["stmts"]):
                        i = [j for j, x in enumerate(blk["stmts"]) if x is st][0]
                        other = {"k": "block", "stmts": blk["stmts"][i + 1:], "ty": blk.get("ty"), "sp": blk.get("sp")}
                        if "tail" in blk:
                            other["tail"] = blk["tail"]
                        holder = blk
                out.append((n, {"k": "match", "scrut": c["init"], "sp": n.get("sp"), "ty": n.get("ty"), "result_of": holder,
                                "arms": [{"pat": c["pat"], "body": n["then"], "sp": n["then"].get("sp")},
                                         {"pat": {"k": "wild"}, "body": other, "sp": other.get("sp")}]}))
        elif k == "let" and "els" in n and "init" in n and "Entry" in (H.peel(n["init"], refs=False).get("ty") or ""):
            out.append((n, {"k": "match", "scrut": n["init"], "sp": n.get("sp"), "ty": "()",
                            "arms": [{"pat": n["pat"], "body": {"k": "block", "stmts": [], "ty": "()", "sp": n.get("sp")}, "sp": n.get("sp")},
                                     {"pat": {"k": "wild"}, "body": n["els"], "sp": n["els"].get("sp")}]}))
    return out


def through_local(fn, e):
    """`e`, or the initialiser of the `let` it names (`let entry = map.entry(key); match entry { .. }`)."""
    for _ in range(4):
        e = H.peel(e)
        loc = H.local_of(e) if e.get("k") == "path" else None
        b = fn.binds.get(loc[0]) if loc else None
        if b is not None and b.origin[0] == "let" and not b.path and "init" in b.origin[1]:
            e = b.origin[1]["init"]
            continue
        break
    return e


def returned_in_ok(fn, node):
    """`node`'s value is handed back as `Ok(node)` that is the function result (directly, or through a local)."""
    cur = node
    for _ in range(10):
        par = fn.parent.get(id(cur))
        if par is None:
            return False
        k = par.get("k")
        if k == "call" and H.ctor_of(par) and H.ctor_of(par)[1] == "Ok":
            return value_is_fn_result(fn, par)
        if k == "block" and par.get("tail") is cur:
            cur = par
            continue
        if k == "ref":
            cur = par
            continue
        if k == "let" and par.get("init") is cur and par["pat"].get("k") == "bind" and "els" not in par:
            lid = par["pat"]["id"]
            uses = [x for x in H.walk(fn.root) if x.get("k") == "path" and (x.get("res") or {}).get("r") == "local" and x["res"].get("id") == lid]
            if len(uses) != 1:
                return False
            cur = uses[0]
            continue
        return False
    return False


INS = ("insert", "insert_entry", "or_insert", "or_insert_with", "or_insert_with_key", "or_default", "insert_full", "extend", "push",
       "shift_insert", "insert_sorted", "insert_before")


def entry_table(q, R, label, b, map_fields, anchor):
    """Duplicate-key table of a function that inserts `child` (parameter 1) into a map: `match <map>.entry(<key of child>)`
    with Occupied => Err (no insertion) and Vacant => the one insertion, returned in Ok.  `<map>` is parameter 0 followed by the
    field hops `map_fields` ([] for add_child(map, child); [("f", Adt, field)] for a method that works on self.<field>).
    Emits `<label>:key|Occupied|Vacant|no-other-insert`; -> all hold.  With anchor=False a missing `match` is just False."""
    ms = entry_dispatches(b)
    if anchor:
        if not R.anchor("R03.6", "match map.entry(key) in %s" % label, len(ms) == 1, sp=b["sp"]):
            return False
    elif len(ms) != 1:
        return False
    m_real, m = ms[0]
    fn = U.Fn(q, b)
    sc = through_local(fn, m["scrut"])
    pids = H.param_ids(b)
    results = []
    ok_scrut = False
    if sc.get("k") == "mcall" and sc["name"] == "entry":
        mc = fn.trace(sc["recv"])
        ok_scrut = mc.root[0] == "param" and mc.root[1] == 0 and [tuple(h[:3]) for h in mc.hops] == [tuple(x) for x in map_fields]
    kch = fn.trace(sc["args"][0]) if ok_scrut else None
    # child.get_node_info().get_key(): get_node_info is a call on a generic node, an `info` field hop on a concrete one
    key_ok = bool(kch) and kch.root[0] == "param" and kch.root[1] == 1 and \
        [h[1] for h in kch.hops if h[0] == "call" and h[1] != "get_node_info"] == ["get_key"] and \
        all(h[0] == "call" or (h[0] == "f" and h[2] == "info") for h in kch.hops) and \
        (any(h[0] == "call" and h[1] == "get_node_info" for h in kch.hops) or any(h[0] == "f" for h in kch.hops))
    results.append(ok_scrut and key_ok)
    R.inst("R03.6", "%s:key" % label, ok_scrut and key_ok, sp=m["scrut"].get("sp"), expect="map.entry(child.get_node_info().get_key()?)",
           got=kch.show() if kch else H.render(sc))
    all_ins = [n for n in H.walk(b["body"]) if n.get("k") == "mcall" and n["name"] in INS]
    arms = {}
    for want in ("Occupied", "Vacant"):
        v = T.V(want, T.sym("e"))
        for ai, a in enumerate(m["arms"]):
            r = T.match_pat(a["pat"], v, {})
            if r is True and "guard" not in a:
                arms[want] = (ai, a)
                break
            if r is not False:
                break
    # Occupied: reaches only Err, no insertion
    if "Occupied" in arms:
        arm = arms["Occupied"][1]
        ins = [n for n in H.walk(arm["body"]) if n.get("k") == "mcall" and n["name"] in INS]
        # the arm finishes only with an error: by leaving the function (bail!/return Err/Err(..)?) or by having the value Err(..)
        # while the match value is the function result (tail, return, `?`, context adaptors, a local returned afterwards)
        how = completes_only_with_err(arm["body"])
        holder = m.get("result_of", m_real)
        ok = (how == "exit" or (how in ("value", "mixed") and value_is_fn_result(fn, holder))) and not ins
        results.append(bool(ok))
        R.inst("R03.6", "%s:Occupied" % label, ok, sp=arm["body"].get("sp"), expect="Err(key already exists), no insertion",
               got={"arm": H.render(arm["body"])[:100], "finishes with": how, "match value is the function result": value_is_fn_result(fn, holder),
                    "insertions": [H.render(x)[:60] for x in ins]})
    else:
        results.append(False)
        R.inst("R03.6", "%s:Occupied" % label, False, sp=m.get("sp"), detail="no decidable arm for Entry::Occupied")
    # Vacant: the one insertion of the function is VacantEntry::insert(child) on the Vacant payload of this entry, reached only
    # for Vacant (inside that arm, or after the match when every other arm diverges), and its result is returned in Ok
    okv, got = False, None
    if "Vacant" in arms and len(all_ins) == 1:
        ai, arm = arms["Vacant"]
        ins = all_ins[0]
        f2 = fn.with_sel({id(m): ai})
        rc = f2.trace(ins["recv"])
        got = rc.show()
        from_vacant = rc.root[0] == "param" and rc.root[1] == 0 and [h[1] for h in rc.hops if h[0] == "call"] == ["entry"] \
            and [h[:3] for h in rc.hops if h[0] == "v"] == [("v", "Entry", "Vacant")] \
            and [tuple(h[:3]) for h in rc.hops if h[0] == "f"] == [tuple(x) for x in map_fields]
        child = ins["name"] == "insert" and len(ins["args"]) == 1 and H.local_of(ins["args"][0]) and H.local_of(ins["args"][0])[0] == pids[1]
        inside = any(x is ins for x in H.walk(arm["body"]))
        others_diverge = all(H.diverges(a["body"]) for a in m["arms"] if a is not arm)
        in_match = any(x is ins for x in H.walk(m_real)) and m_real.get("k") != "let"
        reached_only = inside or (not in_match and others_diverge)
        # returned: Ok(<insert>) is the function result (tail / return), possibly through the match value
        wrapped = returned_in_ok(fn, ins)
        okv = bool(from_vacant and child and reached_only and wrapped)
        if not okv:
            got = {"receiver": got, "from_vacant": from_vacant, "child": bool(child), "reached_only_for_vacant": reached_only, "Ok(..)": bool(wrapped)}
    results.append(okv)
    R.inst("R03.6", "%s:Vacant" % label, okv, sp=(all_ins[0] if all_ins else m).get("sp"),
           expect="exactly one insertion: Ok(<Vacant entry of map.entry(key)>.insert(child))", got=got if got else [H.render(x)[:60] for x in all_ins])
    results.append(len(all_ins) <= 1)
    R.inst("R03.6", "%s:no-other-insert" % label, len(all_ins) <= 1, sp=b["sp"], got=[H.render(n)[:60] for n in all_ins])
    return all(results)


def conditional_store(fn, stores, slot_id, stop=None):
    """Ways a helper can finish successfully without having executed (one of) `stores` although the state of its Option slot
    (parameter local `slot_id`) asks for it: [(text, span)].  Around and before each store only these are free: a test of the slot
    itself (`if let Some(..) = slot`, `match slot`, `slot.is_some()`), and conditions whose other side is an error exit.  Any other
    condition around the store, an enclosing loop/closure, or a successful `return` (`continue`/`break`) in a statement before it
    makes the store depend on the content of the row.  With `stop` (an enclosing loop node) only the part inside that loop is looked
    at: the store happens in every iteration."""
    bad = []

    def on_slot(e):
        e = H.peel(e, refs=False)
        if e.get("k") == "letexpr":
            e = e["init"]
        e, _ = H.negate_peel(e)
        r = H.recv_root(e)
        return bool(r) and r[0] == slot_id

    def err_side(x):
        return x is not None and (H.is_err_exit(x) or completes_only_with_err(x) in ("exit", "value"))
    for st in stores:
        cur = st
        for a in fn.parents(st):
            k = a.get("k")
            if a is stop:
                break
            if k == "if" and a.get("cond") is not cur and not on_slot(a["cond"]):
                other = a.get("else") if a["then"] is cur else a["then"]
                if not err_side(other):
                    bad.append(("stored only if `%s` is %s" % (H.render(a["cond"])[:70], "true" if a["then"] is cur else "false"), a.get("sp")))
            elif k == "match" and a.get("scrut") is not cur:
                mine = [arm for arm in a["arms"] if arm["body"] is cur or arm.get("guard") is cur]
                others = [arm["body"] for arm in a["arms"] if arm not in mine]
                if (not on_slot(a["scrut"]) or any("guard" in arm for arm in mine)) and not all(err_side(o) for o in others):
                    bad.append(("stored only in one arm of `match %s`" % H.render(a["scrut"])[:60], a.get("sp")))
            elif k in ("for", "loop", "closure"):
                bad.append(("stored inside a %s" % k, a.get("sp")))
            elif k == "block":
                for s_ in a["stmts"]:
                    if s_ is cur:
                        break
                    s0 = H.peel(s_, refs=False)
                    if (s0.get("k") == "let" and "els" in s0 and "init" in s0 and on_slot(s0["init"])) or (s0.get("k") == "if" and on_slot(s0["cond"])):
                        continue        # `let Some(x) = slot.pop() else { break };` / `if slot.is_some() { .. }`: a test of the slot itself
                    i0 = H.peel(s0["init"], refs=False) if s0.get("k") == "let" and "init" in s0 else s0
                    if i0.get("k") == "match" and on_slot(i0["scrut"]) and not any("guard" in arm for arm in i0["arms"]):
                        continue        # `let x = match slot.pop() { Some(e) => e, None => break };`: the same test, spelled as a match
                    for r in U.early_exits(s_):
                        if True:
                            conds = [H.render(c)[:60] for kind, c, pol in H.path_conditions(fn.root, r) if kind in ("if", "after-exit")]
                            bad.append(("`%s` before the store%s" % (H.render(r)[:40], (" (when %s)" % " && ".join(conds)) if conds else ""), r.get("sp")))
            cur = a
    return bad


def r03_6(q, R, cx):
    R.rule("R03.6", "mappings::add_child inserts only in the Vacant arm of map.entry(key), Occupied reaches only Err, the key is "
                    "child.get_node_info().get_key(); get_key = first name (+ descriptor / index); add_class/add_field/add_method/"
                    "add_parameter delegate to add_child on their own map (or carry the same entry table inline; any other direct insertion into "
                    "the map - insert, entry().or_insert - is reported); tiny_v2::read inserts only through them and propagates "
                    "their error; a second comment for the same node is rejected; every comment row that is accepted is stored "
                    "(only the test of the javadoc slot and error exits stand before the store)")
    ac = q.fn("add_child", within="tree::mappings::add_child")
    if R.anchor("R03.6", "fn tree::mappings::add_child", ac):
        entry_table(q, R, "add_child", ac, map_fields=[], anchor=True)
    # get_key tables
    want = {("FieldNameAndDesc", "desc"): ("FieldMapping", "desc", None), ("FieldNameAndDesc", "name"): ("FieldMapping", "names", 0),
            ("MethodNameAndDesc", "desc"): ("MethodMapping", "desc", None), ("MethodNameAndDesc", "name"): ("MethodMapping", "names", 0),
            ("ParameterKey", "index"): ("ParameterMapping", "index", None), ("ObjClassName", None): ("ClassMapping", "names", 0)}
    for k in sorted(want, key=str):
        got = cx.key_eq.get(k)
        R.inst("R03.6", "get_key:%s%s" % (k[0], "." + k[1] if k[1] else ""), got == want[k], expect=U.role_str(want[k]), got=U.role_str(got) if got else None,
               detail="the map key must be the entry's own first name (and descriptor / index)")
    # add_* delegate to add_child on the right map (or carry the same entry table themselves: add_child inlined)
    for name, mp in (("add_class", ("Mappings", "classes")), ("add_field", ("ClassNowodeMapping", "fields")),
                     ("add_method", ("ClassNowodeMapping", "methods")), ("add_parameter", ("MethodNowodeMapping", "parameters"))):
        b = q.fn(name, within="tree::mappings::")
        if R.anchor("R03.6", "fn %s" % name, b):
            tgt = U.insert_target(q, b)
            calls = [n for n in H.walk(b["body"]) if n.get("k") == "call" and H.callee_name(n) == "add_child"]
            direct = U.direct_inserts(b)
            expect = "add_child(&mut self.%s, child)" % mp[1]
            own = U.short(b.get("impl_ty")) == mp[0]
            if direct and not calls:
                # the function inserts into its map itself: it is its own duplicate-key policy and must show the entry table
                shown = "; ".join(H.render(fn_stmt_of(b, d[0]))[:90] for d in direct)
                tbl = len(direct) == 1 and entry_table(q, R, name, b, map_fields=[("f",) + mp], anchor=False)
                has_match = bool(entry_dispatches(b))
                R.inst("R03.6", "delegate:%s" % name, bool(tbl) and tgt == mp and own, sp=direct[0][0].get("sp"),
                       expect=expect + "  (or the same table inline: match self.%s.entry(child key) { Occupied => Err, Vacant => insert(child) })" % mp[1],
                       got="%s bypasses add_child and inserts into %s.%s itself: %s%s" % (
                           name, direct[0][1][0], direct[0][1][1], shown,
                           "" if tbl else ("  -- its entry table does not hold (see the %s:* instances)" % name if has_match else
                                           "  -- no Occupied => Err / Vacant => insert(child) table: an occupied key is not rejected")),
                       detail="a second row with the same key must be an error; inserting through entry().or_insert / insert keeps or "
                              "overwrites the first entry silently (lost or re-parented row)")
                continue
            key_ok = len(calls) == 1 and (calls[0].get("callee") or {}).get("key") == (ac or {}).get("key")
            child_ok = len(calls) == 1 and len(calls[0]["args"]) == 2 and H.local_of(calls[0]["args"][1]) and \
                H.local_of(calls[0]["args"][1])[0] == H.param_ids(b)[1]
            R.inst("R03.6", "delegate:%s" % name, tgt == mp and key_ok and bool(child_ok) and own and not direct, sp=b["sp"],
                   expect=expect, got={"inserts into": "%s.%s" % tgt if tgt else None, "add_child calls": len(calls),
                                       "direct insertions": [H.render(d[0])[:80] for d in direct]})
    # the reader inserts only through add_* and propagates the error
    if cx.ok:
        fn = cx.rfn
        direct = [n for n in H.walk(fn.root) if n.get("k") == "mcall" and n["name"] in ("insert", "entry", "extend", "insert_full", "shift_insert")
                  and U.is_map_ty(H.peel(n["recv"]).get("tya") or H.peel(n["recv"]).get("ty"))]
        R.inst("R03.6", "read:no-direct-insert", not direct, sp=cx.rb["sp"], got=[H.render(n)[:60] for n in direct])
        for k, rr in sorted(cx.rrows.items(), key=lambda kv: str(kv[0])):
            if not rr.get("adds"):
                continue
            call = rr["add_call"]
            par = fn.parent.get(id(call))
            ok = par is not None and par.get("k") == "try"
            # the node handed to add_* is built from the row's own info struct
            R.inst("R03.6", "read:add-propagates:%s" % rr["adds"], ok, sp=call.get("sp"), expect="%s(..)?" % H.callee_name(call), got=H.render(par)[:80] if par else None)
            arg = call["args"][0] if call.get("k") == "mcall" else call["args"][-1]
            ch = fn.trace(arg)
            info = cx.info_of.get(cx.maps[rr["adds"]][1])
            built = ch.root[0] == "struct" and U.short(ch.root[1].get("adt")) == info and any(x is ch.root[1] for x in H.walk(rr["body"]))
            R.inst("R03.6", "read:adds-own-row:%s" % rr["adds"], built, sp=call.get("sp"), expect="node built from the %s literal of the same row" % info, got=ch.show())
    # a second comment is rejected: the helper(s) the comment rows hand the line to
    helpers = {}
    if cx.ok:
        for rr in cx.rrows.values():
            if rr.get("comment") and rr["comment"].get("callee") is not None:
                helpers[rr["comment"]["callee"].body["key"]] = rr["comment"]["callee"].body
    if R.anchor("R03.6", "comment helper called by the comment rows of tiny_v2::read", len(helpers) == 1, sp=getattr(cx, "rb", {}).get("sp") if cx.ok else None):
        cm = list(helpers.values())[0]
        asg = [n for n in H.walk(cm["body"]) if n.get("k") == "assign"]
        ok = False
        got = None
        if len(asg) == 1:
            pid = H.param_ids(cm)[0]
            st = U.option_conditions(cm["body"], asg[0], pid)
            got = {"assignment when": sorted(st)}
            # the other side must be an error
            errs = [n for n in H.walk(cm["body"]) if n.get("k") == "ret" and H.is_err_exit(n)
                    and U.option_conditions(cm["body"], n, pid) == {"some"}]
            got["error when some"] = len(errs)
            ok = st == {"none"} and bool(errs)
        R.inst("R03.6", "comment-once", ok, sp=cm["sp"], expect="*javadoc = Some(..) only when javadoc is None, Err when it is Some", got=got)
        # every comment row that is accepted is stored (seed C03-11: an early `return Ok(())` for an empty text loses a written comment)
        if len(asg) == 1:
            bad = conditional_store(U.Fn(q, cm), asg, H.param_ids(cm)[0])
            R.inst("R03.6", "comment-stored", not bad, sp=(bad[0][1] if bad else cm["sp"]),
                   expect="whenever the helper returns Ok for a node without comment, `*javadoc = Some(<text of the row>)` was executed: "
                          "besides the test of the javadoc slot itself, only error exits stand between the entry of the helper and the store",
                   got=[b[0] for b in bad] or "stored on every successful path",
                   detail="the writer emits a `c` row for every Some(comment), also for an empty or blank text; a row that is accepted "
                          "without being stored is lost by write -> read, and the next write differs from the first")
    R.floor("R03.6", 4 + 6 + 4 + 1 + 8 + 2)


# ------------------------------------------------------------------------------------------------ R03.7
def r03_7(q, R):
    R.rule("R03.7", "WithMoreIdentIter: next() compares line.get_idents() with self.depth: Less -> None (leave the level, line kept), "
                    "Equal -> consume the line, Greater -> Some(Err); an Err line is passed on; new() starts at depth 0, next_level() "
                    "is depth + 1 on the same iterator; on_every_line propagates the line error and the callback error")
    nx = q.fn("next", impl_ty="WithMoreIdentIter", trait="Iterator")
    if R.anchor("R03.7", "impl Iterator for WithMoreIdentIter :: next", nx):
        # decided by evaluation (shape-independent): next() is run for the five situations of the underlying peekable iterator
        #   exhausted | front is Err | front is Ok(line) with fewer / the same / more indentation than self.depth
        # and classified by (what it returns, whether it consumed the front item)
        DEPTH = 2

        def situation(front, idents=None):
            consumed = []

            def peek(args):
                if "iter" in T.show(args[0]):
                    return front
                return None

            def nxt(args):
                if "iter" in T.show(args[0]):
                    consumed.append(1)
                    return T.sym("<front item>")
                return None

            def get_idents(args):
                return ("i", idents) if idents is not None else None

            def cmp_(args):
                if len(args) == 2 and args[0][0] == "i" and args[1][0] == "i":
                    return T.V("Less" if args[0][1] < args[1][1] else ("Equal" if args[0][1] == args[1][1] else "Greater"))
                return None
            ev = T.Evaluator(calls={"peek": peek, "next": nxt, "get_idents": get_idents, "cmp": cmp_,
                                    "next_if": lambda a: None, "peek_mut": peek})
            me = ("st", "WithMoreIdentIter", {"depth": ("i", DEPTH), "iter": T.sym("self.iter")})
            try:
                res = ev.run_fn(nx, [me])
            except Exception as e:       # an expression the evaluator cannot follow
                return "?(%s)" % type(e).__name__, len(consumed)
            sres = T.show(res)
            if res[0] == "err" or sres.startswith("Err"):
                kind = "None" if "None" in str(res) else "Err"        # `peek()?` on None leaves through the `?`
            elif res[0] == "v" and res[1] == "None":
                kind = "None"
            elif res[0] == "v" and res[1] == "Some" and res[2] and res[2][0][0] == "v" and res[2][0][1] == "Err":
                kind = "Some(Err)"
            elif "<front item>" in sres:
                kind = "front item"
            else:
                kind = "?" + sres[:60]
            return kind, len(consumed)
        line = T.sym("line")
        table = [
            ("exhausted", T.V("None"), None, ("None", 0), "the level ends"),
            ("Err", T.V("Some", T.V("Err", T.sym("e"))), None, ("front item", 1), "an Err line is passed on"),
            ("Less", T.V("Some", T.V("Ok", line)), DEPTH - 1, ("None", 0), "leave the level, the line is kept for the outer level"),
            ("Equal", T.V("Some", T.V("Ok", line)), DEPTH, ("front item", 1), "the line belongs to this level: hand it out"),
            ("Greater", T.V("Some", T.V("Ok", line)), DEPTH + 1, ("Some(Err)", 0), "a line indented deeper than its parent level allows is an error"),
        ]
        for name, front, idents, want, why in table:
            got = situation(front, idents)
            key = {"exhausted": "next:exhausted", "Err": "next:error-line-passed-on"}.get(name, "next:%s" % name)
            R.inst("R03.7", key, got == want, sp=nx["sp"], expect="%s, %d item(s) consumed" % want, got="%s, %d item(s) consumed" % got, detail=why)
    nw = q.fn("new", impl_ty="WithMoreIdentIter")
    if R.anchor("R03.7", "fn WithMoreIdentIter::new", nw):
        lits = [n for n in H.walk(nw["body"]) if n.get("k") == "struct" and U.short(n.get("adt")) == "WithMoreIdentIter"]
        v = None
        if len(lits) == 1:
            for f in lits[0]["fields"]:
                if f["name"] == "depth":
                    v = H.const_value(f["e"])
        R.inst("R03.7", "new:depth", v == 0 and not isinstance(v, bool), sp=nw["sp"], expect=0, got=v)
    nl = q.fn("next_level", impl_ty="WithMoreIdentIter")
    if R.anchor("R03.7", "fn WithMoreIdentIter::next_level", nl):
        lits = [n for n in H.walk(nl["body"]) if n.get("k") == "struct" and U.short(n.get("adt")) == "WithMoreIdentIter"]
        ok_d, ok_i, got = False, False, None
        if len(lits) == 1:
            for f in lits[0]["fields"]:
                e = H.peel(f["e"])
                if f["name"] == "depth":
                    got = H.render(e)
                    if e.get("k") == "bin" and e["op"] == "+":
                        sides = [H.peel(e["l"]), H.peel(e["r"])]
                        one = [s for s in sides if H.const_value(s) == 1]
                        dep = [s for s in sides if s.get("k") == "field" and s["name"] == "depth"]
                        ok_d = len(one) == 1 and len(dep) == 1
                if f["name"] == "iter":
                    ok_i = e.get("k") == "field" and e["name"] == "iter" or (H.place_root(e)[1][-1:] == ["iter"])
        R.inst("R03.7", "next_level:depth", ok_d, sp=nl["sp"], expect="self.depth + 1", got=got)
        R.inst("R03.7", "next_level:same-iterator", bool(ok_i), sp=nl["sp"], expect="iter: self.iter")
    oe = q.fn("on_every_line", impl_ty="WithMoreIdentIter")
    if R.anchor("R03.7", "fn WithMoreIdentIter::on_every_line", oe):
        fn = U.Fn(q, oe)
        pids = H.param_ids(oe)
        # call of the callback parameter
        calls = [n for n in H.walk(oe["body"]) if n.get("k") == "call" and (n.get("callee") or {}).get("r") == "local"
                 and (n.get("callee") or {}).get("id") == pids[1]]
        ok = False
        if len(calls) == 1:
            x = calls[0]
            while True:
                p = fn.parent.get(id(x))
                if p is None:
                    break
                if p.get("k") == "mcall" and p["name"] in ("context", "with_context", "map_err") and p["recv"] is x:
                    x = p
                    continue
                if p.get("k") in ("try", "ret"):
                    ok = True
                break
        R.inst("R03.7", "on_every_line:callback-error-propagated", ok, sp=oe["sp"], expect="f(&mut self, line)...?")
        # the line item (a Result) is unwrapped with `?` or an explicit `Err(e) => return Err(..)`
        def is_item(e):
            e = H.peel(e)
            return (e.get("ty") or "").startswith("core::result::Result<L")
        props = [n for n in H.walk(oe["body"]) if n.get("k") == "try" and is_item(n["e"])]
        for n in H.walk(oe["body"]):
            if n.get("k") == "ret" and H.is_err_exit(n) and U.variant_conditions(oe["body"], n, is_item) == {"Err"}:
                props.append(n)
        R.inst("R03.7", "on_every_line:line-error-propagated", len(props) == 1, sp=oe["sp"], expect="let line = line?  (or: Err(e) => return Err(e))",
               got=len(props))
        nxt = [n for n in H.walk(oe["body"]) if n.get("k") == "mcall" and n["name"] == "next" and H.local_of(n["recv"]) and H.local_of(n["recv"])[0] == pids[0]]
        loops = [n for n in H.walk(oe["body"]) if n.get("k") == "loop"]
        R.inst("R03.7", "on_every_line:every-line", len(nxt) == 1 and len(loops) == 1 and any(x is nxt[0] for x in H.walk(loops[0])), sp=oe["sp"],
               expect="while let Some(line) = self.next()")
    R.floor("R03.7", 11)


# ------------------------------------------------------------------------------------------------ R03.8
def r03_8(q, R, cx):
    R.rule("R03.8", "no Result value is discarded in the Tiny v2 reader/writer functions and the line helpers (a dropped `?` would turn "
                    "a rejected duplicate, a malformed row or an I/O error into silent data loss)")
    n = 0
    targets = []
    for name in WRITE_FNS + READ_FNS:
        b = q.fn(name, within="tiny_v2::" + name)
        if R.anchor("R03.8", "fn tiny_v2::%s" % name, b):
            targets.append(("tiny_v2::" + name, b))
    if cx.ok:
        helper_keys = set(cx.W.inlined)
        for rr in cx.rrows.values():
            if rr.get("comment") and rr["comment"].get("callee") is not None:
                helper_keys.add(rr["comment"]["callee"].body["key"])
        for i, key in enumerate(sorted(helper_keys)):
            b = q.by_key.get(key)
            if b is not None and not any(b is t for _, t in targets):
                role = "writer-helper" if key in cx.W.inlined else "comment-helper"
                n_same = sum(1 for nm, _ in targets if nm.startswith("tiny_v2::%s#" % role))
                targets.append(("tiny_v2::%s#%d" % (role, n_same), b))
    for name in ("new", "next", "end", "into_names", "into_namespaces"):
        b = q.fn(name, impl_ty="TinyLine")
        if R.anchor("R03.8", "fn TinyLine::%s" % name, b):
            targets.append(("TinyLine::" + name, b))
    b = q.fn("on_every_line", impl_ty="WithMoreIdentIter")
    if b:
        targets.append(("WithMoreIdentIter::on_every_line", b))
    for name, b in targets:
        fn = U.Fn(q, b)
        bad = U.discarded_results(fn)
        R.inst("R03.8", "no-discarded-result:%s" % name, not bad, sp=(bad[0].get("sp") if bad else b["sp"]),
               got=[H.render(x)[:80] for x in bad], expect="every Result is propagated with `?`, returned or matched")
    R.floor("R03.8", 13)


# ------------------------------------------------------------------------------------------------ R03.9
# hops that select a part of a structure / an element of a sequence without touching the text
STRUCT_HOPS = ("f", "idx", "some", "elem", "mapiter", "rest", "mk", "v")
# iterator plumbing that hands an element on as it is (or not at all)
ITER_PLUMBING = ("next", "filter")
# typed conversions of a whole cell (the "validity conversions" of the note; inverse of Display on what the writer prints)
TYPED = ("parse",)
# reading the physical lines
LINE_SOURCE = ("new", "with_capacity", "lines", "enumerate", "peekable")


def value_leaves(fn, e, limit=16):
    """Chains an expression can evaluate to: like fn.trace(e), with value-producing `if`/`match` (at the point where the trace
    stops) expanded into their non-diverging alternatives."""
    out = []

    def go(f, depth):
        ch = f.trace(e)
        if ch.root[0] in ("if", "match") and depth < 6 and len(out) < limit:
            node = ch.root[1]
            if ch.root[0] == "if":
                alts = [(True, node["then"])] + ([(False, node["else"])] if "else" in node else [])
            else:
                alts = [(ai, a["body"]) for ai, a in enumerate(node["arms"])]
            alts = [(sel, b) for sel, b in alts if not H.diverges(b)]
            if alts and id(node) not in f.sel:
                for sel, _ in alts:
                    go(f.with_sel({id(node): sel}), depth + 1)
                return
        out.append(ch)
    go(fn, 0)
    return out


def returned_exprs(b):
    """The expressions a function can return a value from: its body value and every `return <e>` that is not an error exit."""
    outs = [b["body"]]
    for n in H.walk(b["body"], into_closures=False):
        if n.get("k") == "ret" and "e" in n and not H.is_err_exit(n):
            outs.append(n["e"])
    return outs


class Verbatim:
    """Which calls on the way of a value can change its text.  A call of a repository function is looked into: it is harmless
    iff every value it returns is its first argument, unchanged (same test, recursively)."""

    def __init__(self, q):
        self.q = q
        self.memo = {}

    def helper_ok(self, key, depth=0):
        if key in self.memo:
            return self.memo[key]
        self.memo[key] = False          # recursion: fail closed
        b = self.q.by_key.get(key)
        ok = False
        if b is not None and b.get("params") and depth < 4:
            fn = U.Fn(self.q, b, strict=True)
            ok = True
            for e in returned_exprs(b):
                for ch in value_leaves(fn, e):
                    if ch.root[0] in ("none", "never"):
                        continue
                    if not (ch.root[0] == "param" and ch.root[1] == 0) or self.offenders(ch.hops, (), depth + 1):
                        ok = False
        self.memo[key] = ok
        return ok

    def offenders(self, hops, allowed, depth=0, allowed_keys=()):
        bad = []
        for h in hops:
            if h[0] == "call":
                name, key = h[1], (h[3] if len(h) > 3 else None)
                if key is not None and key in allowed_keys:
                    continue
                if key is not None and key in self.q.by_key:
                    if not self.helper_ok(key, depth):
                        bad.append("%s()" % name)
                elif name not in allowed and name not in ITER_PLUMBING:
                    bad.append("%s()" % name)
            elif h[0] not in STRUCT_HOPS:
                bad.append("<%s>" % h[0])
        return bad


IN_PLACE = ("make_ascii_lowercase", "make_ascii_uppercase", "truncate", "pop", "push", "push_str", "insert", "insert_str", "remove",
            "retain", "retain_mut", "clear", "drain", "replace_range", "iter_mut", "for_each", "sort", "sort_by", "sort_by_key",
            "sort_unstable", "dedup", "dedup_by", "dedup_by_key", "reverse", "swap", "swap_remove", "split_off", "extend", "append",
            "rotate_left", "rotate_right", "fill", "as_mut_str", "as_mut_vec", "get_mut", "first_mut", "last_mut", "values_mut")
INT_TYS = ("usize", "u8", "u16", "u32", "u64", "u128", "isize", "i8", "i16", "i32", "i64", "i128", "bool")


def in_place_edits(b):
    """Statements of a (small, cell-carrying) function that can change a text after the traced value was taken: assignments to
    anything but an integer/bool local, and calls of in-place mutators.  The value trace follows initialisers only, so these
    functions must be free of such edits for the trace to be the whole story (fail closed)."""
    out = []
    for n in H.walk(b["body"]):
        if n.get("k") in ("assign", "assignop"):
            l = H.peel(n["l"], refs=False)
            if not (l.get("k") == "path" and (l.get("ty") or "") in INT_TYS):
                out.append("assignment `%s`" % H.render(n)[:70])
        elif n.get("k") == "mcall" and n["name"] in IN_PLACE:
            out.append("in-place edit `%s`" % H.render(n)[:70])
    return out


def text_param(b):
    """Index of the (single) parameter of string type."""
    ix = [i for i, t in enumerate(b.get("inputs") or []) if U.base_ty({"ty": t}).strip() in ("str", "alloc::string::String")]
    return ix[0] if len(ix) == 1 else None


def tokeniser_call(q, rfn, tl, tp):
    """The call(s) of the tokeniser `tl` (TinyLine::new) a reader function makes for each physical line, and the chains its text
    argument (parameter `tp`) can evaluate to, rooted in the reader.  The call sits in the reader itself (in the closure given to
    `.map(..)`), or in a function of the crate that the reader names as a function value in an iterator adaptor (`.map(to_tiny_line)`,
    a nested `fn` item or a private helper: its parameter is the element of the adaptor's receiver) or calls directly (`helper(a, b)`:
    its parameters are the arguments).  -> ([call nodes], [Chain])"""
    def is_tl(n):
        c = n.get("callee") or {}
        return n.get("k") == "call" and tl["key"] in (c.get("key"), c.get("inst_key"))
    calls = [n for n in H.walk(rfn.root) if is_tl(n)]
    if calls or tp is None:
        return calls, (value_leaves(rfn, calls[0]["args"][tp]) if len(calls) == 1 and tp is not None else [])
    out_calls, chains = [], []
    for n in H.walk(rfn.root):
        k = n.get("k")
        if k == "mcall":
            for a in n.get("args") or []:
                a = H.peel(a)
                res = a.get("res") or {}
                hb = q.by_key.get(res.get("inst_key") or res.get("key")) if a.get("k") == "path" and res.get("r") == "def" else None
                if hb is None or not isinstance(hb.get("body"), dict) or len(hb.get("params") or []) != 1:
                    continue
                inner = [x for x in H.walk(hb["body"]) if is_tl(x)]
                if not inner:
                    continue
                out_calls.extend(inner)
                if len(inner) != 1:
                    continue
                hfn = U.Fn(q, hb, strict=True)
                rc = rfn.trace(n["recv"])
                rty = (H.peel(n["recv"]).get("tya") or H.peel(n["recv"]).get("ty") or "").lstrip("&")
                if rty.startswith("mut "):
                    rty = rty[4:]
                hop = ("some",) if rty.startswith("core::option::Option<") else None if rty.startswith("core::result::Result<") else ("elem",)
                for ch in value_leaves(hfn, inner[0]["args"][tp]):
                    if ch.root[0] == "param" and ch.root[1] == 0 and ch.root[4] == hb["key"]:
                        chains.append(U.Chain(rc.root, rc.hops + ([hop] if hop else []) + ch.hops))
                    else:
                        chains.append(ch)
        elif k == "call":
            c = n.get("callee") or {}
            hb = q.by_key.get(c.get("inst_key") or c.get("key"))
            if hb is None or not isinstance(hb.get("body"), dict) or hb["key"] in (rfn.body["key"], tl["key"]) \
                    or len(hb.get("params") or []) != len(n.get("args") or []):
                continue
            inner = [x for x in H.walk(hb["body"]) if is_tl(x)]
            if not inner:
                continue
            out_calls.extend(inner)
            if len(inner) == 1:
                hfn = U.Fn(q, hb, subst={i: (rfn, a) for i, a in enumerate(n["args"])}, strict=True)
                chains.extend(value_leaves(hfn, inner[0]["args"][tp]))
    return out_calls, chains


def r03_9(q, R, cx, spec):
    R.rule("R03.9", "verbatim transport: on the way physical line -> TinyLine::new -> next/end/into_names/into_namespaces -> field of "
                    "the model, and model field -> hole of the writer's template, the text of a cell passes only through selections "
                    "(split at the separator, iterator element, Option payload), ownership/type conversions (to_owned, From/TryFrom, "
                    "parse for the index) and, for comments, escape/unescape (R03.5). Any other call on that way (trim, case change, "
                    "replace, slicing, a helper that does not return its argument unchanged) makes read(write(M)) differ from M for "
                    "some content")
    V = Verbatim(q)
    sep = spec["separator"]
    why = "a call that is not a selection or a conversion of the whole cell changes some cell texts; such a text is not read back as it was written"

    def report(key, chains, root_ok, allowed, sp, expect, extra_ok=True, extra_got=None, allowed_keys=(), body=None):
        bad, shown = [], []
        if body is not None:
            bad.extend(in_place_edits(body))
        for ch in chains:
            shown.append(ch.show())
            if ch.root[0] in ("none", "never"):
                continue
            if not root_ok(ch):
                bad.append("value does not come from the expected source: %s" % ch.show())
            bad.extend(V.offenders(ch.hops, allowed, allowed_keys=allowed_keys))
        got = {"value": shown if len(shown) != 1 else shown[0]}
        if bad:
            got["not verbatim"] = bad
        if extra_got:
            got.update(extra_got)
        R.inst("R03.9", key, bool(chains) and not bad and extra_ok, sp=sp, expect=expect, got=got, detail=why)

    # ---- (1) the physical line handed to the tokeniser
    tl = q.fn("new", impl_ty="TinyLine")
    if R.anchor("R03.9", "fn TinyLine::new", tl) and cx.ok:
        tp = text_param(tl)
        calls, chains = tokeniser_call(q, cx.rfn, tl, tp)
        if R.anchor("R03.9", "call of TinyLine::new(.., <line>) in tiny_v2::read", len(calls) == 1 and tp is not None, sp=cx.rb["sp"]):
            lines = [h for ch in chains for h in ch.hops if h[0] == "call" and h[1] == "lines"]
            report("verbatim:read:line", chains, lambda ch: ch.root[0] == "param", LINE_SOURCE, calls[0].get("sp"),
                   "TinyLine::new(n, &<item of BufRead::lines()>)", extra_ok=len(lines) == 1 and "BufRead::lines" in (lines[0][3] or ""))
    # ---- (2) the tokeniser: cells are the pieces of the line between separators
    if tl is not None:
        fn = U.Fn(q, tl, strict=True)
        tp = text_param(tl)
        lits = [n for n in H.walk(tl["body"]) if n.get("k") == "struct" and U.short(n.get("adt")) == "TinyLine"]
        if R.anchor("R03.9", "one TinyLine { .. } literal in TinyLine::new", len(lits) == 1 and tp is not None, sp=tl["sp"]):
            for fname in ("first_field", "fields"):
                fs = [f for f in lits[0]["fields"] if f["name"] == fname]
                if not R.anchor("R03.9", "field TinyLine.%s in the literal" % fname, len(fs) == 1, sp=lits[0].get("sp")):
                    continue
                chains = value_leaves(fn, fs[0]["e"])
                notes = []
                ok_shape = True
                for ch in chains:
                    calls = [h for h in ch.hops if h[0] == "call"]
                    at = [i for i, h in enumerate(calls) if h[1] == "split"]
                    if len(at) != 1:
                        ok_shape = False
                        notes.append("%d split calls" % len(at))
                        continue
                    sp_arg = calls[at[0]][2][0] if calls[at[0]][2] else None
                    if sp_arg is None or sp_arg.hops or sp_arg.root[0] not in ("lit", "const") or sp_arg.root[-1] != sep:
                        ok_shape = False
                        notes.append("split argument is not %r" % sep)
                    for h in calls[:at[0]]:
                        # before the split only the indentation is taken off
                        a0 = h[2][0] if len(h) > 2 and h[2] else None
                        if h[1] == "slice":
                            continue
                        if h[1] == "trim_start_matches" and a0 is not None and not a0.hops and a0.root[-1] == spec["indent"]:
                            continue
                        ok_shape = False
                        notes.append("%s() applied to the line before it is split" % h[1])
                    for h in calls[at[0] + 1:]:
                        if h[1] == "slice":
                            ok_shape = False
                            notes.append("slice of a cell")
                report("verbatim:TinyLine::new:%s" % fname, chains, lambda ch: ch.root[0] == "param" and ch.root[1] == tp,
                       ("split", "slice", "trim_start_matches"), fs[0]["e"].get("sp"),
                       "line[indentation..].split(%r) -> each piece as it is (to_owned)" % sep, extra_ok=ok_shape,
                       extra_got={"shape": notes} if notes else None, body=tl)
    # ---- (3) the accessors hand cells on as they are
    acc = {}
    for name in ("next", "end", "into_names", "into_namespaces"):
        b = q.fn(name, impl_ty="TinyLine")
        if R.anchor("R03.9", "fn TinyLine::%s" % name, b):
            acc[b["key"]] = b
    passes = {}

    def via_fields(ch, depth=0):
        """the value is taken out of self.fields (directly or through another accessor that does)"""
        if any(h[0] == "f" and h[1] == "TinyLine" and h[2] == "fields" for h in ch.hops):
            return True
        for h in ch.hops:
            if h[0] == "call" and len(h) > 3 and h[3] in acc and depth < 3:
                b2 = acc[h[3]]
                f2 = U.Fn(q, b2, strict=True)
                if all(via_fields(c2, depth + 1) for e in returned_exprs(b2) for c2 in value_leaves(f2, e) if c2.root[0] not in ("none", "never")):
                    return True
        return False
    for key, b in acc.items():
        fn = U.Fn(q, b, strict=True)
        chains = [ch for e in returned_exprs(b) for ch in value_leaves(fn, e)]
        report("verbatim:TinyLine::%s" % b["name"], chains,
               lambda ch: ch.root[0] == "param" and ch.root[1] == 0 and via_fields(ch), (), b["sp"],
               "the next cell(s) of self.fields as they are (empty -> None; From/TryFrom into the typed name)", body=b)
    # ---- (4) tiny_v2::read: column -> field of the model
    n_cols = 0
    if cx.ok:
        seen = set()
        bodies = [("header", cx.rfn.root)] + [("row", rr["body"]) for _, rr in sorted(cx.rrows.items(), key=lambda kv: str(kv[0]))]
        for kind, body in bodies:
            for st in cx.RD.struct_lits(cx.rfn, body, U.MODEL_INFO):
                for f in st["fields"]:
                    role = "%s.%s" % (U.short(st["adt"]), f["name"])
                    if (role, id(st)) in seen:
                        continue
                    seen.add((role, id(st)))
                    chains = value_leaves(cx.rfn, f["e"])
                    n_cols += 1
                    report("verbatim:read:%s" % role, chains, lambda ch: ch.root[0] == "line", TYPED, f["e"].get("sp"),
                           "<column of the line> through From/TryFrom/parse only")
    # ---- (5) tiny_v2::write: field of the model -> hole
    if cx.ok:
        by_role = {}
        for wr in cx.wrows:
            if wr["owner"] is not None:
                continue            # comment holes: exactly escape(..), R03.5
            for role, calls, trait, ch in wr["holes"]:
                if role:
                    by_role.setdefault(role, []).append(ch)
        for role in sorted(by_role):
            rests = []
            for ch in by_role[role]:
                r = U.role_of(ch, q, cx.key_eq)
                rests.append(U.Chain(("field", role), r[1] if r else ch.hops))
            report("verbatim:write:%s" % role, rests, lambda ch: True, (), cx.wb["sp"], "{%s} printed as it is" % role)
    R.floor("R03.9", 1 + 2 + 4 + 8 + 8)
